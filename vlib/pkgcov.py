"""Package-wide line coverage of acnportal under the monitored workloads (opt-in: VERIF_PKGCOV=<dir>).

Not a verdict: a map of what the workloads of a check actually executed, used to find behaviour behind a property that no
workload drives yet (tools/pkgcov.py merges the dumps and lists functions never or partly executed).  sys.monitoring LINE
events, every location disabled after its first hit.
"""
import json
import os
import sys

TOOL = 4


class PkgCoverage:
    def __init__(self, pkg_path, out_dir):
        self.pkg = pkg_path
        self.out = out_dir
        self.hits = {}
        self.on = False

    def start(self):
        if not hasattr(sys, "monitoring"):
            return
        mon = sys.monitoring
        try:
            mon.use_tool_id(TOOL, "verif-pkgcov")
        except ValueError:
            return
        pkg, hits = self.pkg, self.hits

        def on_line(code, line):
            fn = code.co_filename
            if fn.startswith(pkg):
                hits.setdefault(fn, set()).add(line)
            return mon.DISABLE

        mon.register_callback(TOOL, mon.events.LINE, on_line)
        mon.set_events(TOOL, mon.events.LINE)
        self.on = True

    def stop(self):
        if not self.on:
            return
        mon = sys.monitoring
        mon.set_events(TOOL, 0)
        mon.register_callback(TOOL, mon.events.LINE, None)
        mon.free_tool_id(TOOL)
        self.on = False
        os.makedirs(self.out, exist_ok=True)
        with open(os.path.join(self.out, f"{os.getpid()}.json"), "w") as f:
            json.dump({os.path.relpath(k, os.path.dirname(self.pkg)): sorted(v) for k, v in self.hits.items()}, f)
