"""Line coverage of the functions a property is anchored in (sys.monitoring).

Purely informational evidence: which statements of the anchored functions the
workload actually executed. Each location disables itself after its first hit,
so the overhead is negligible. Anchors are given by qualified name
("acnportal.acnsim.models.battery:Linear2StageBattery._charge"); an anchor
that cannot be resolved is reported as unresolved, never as a failure (a
refactoring may rename private functions).
"""
import dis
import importlib
import sys
import types

TOOL = 3  # a free tool id (0 debugger, 1 coverage, 2 profiler, 5 optimizer)


def _resolve(spec):
    mod_name, _, qual = spec.partition(":")
    obj = importlib.import_module(mod_name)
    for part in qual.split("."):
        obj = getattr(obj, part)
    if isinstance(obj, (staticmethod, classmethod)):
        obj = obj.__func__
    if isinstance(obj, property):
        obj = obj.fget
    obj = getattr(obj, "__func__", obj)
    obj = getattr(obj, "__wrapped__", obj)
    return obj.__code__


def _all_codes(code):
    out = [code]
    for c in code.co_consts:
        if isinstance(c, types.CodeType):
            out.extend(_all_codes(c))
    return out


def _lines(code):
    ls = set()
    for c in _all_codes(code):
        for _, ln in dis.findlinestarts(c):
            if ln is not None and ln != c.co_firstlineno:
                ls.add(ln)
    return ls


class AnchorCoverage:
    def __init__(self, specs):
        self.specs = list(specs)
        self.codes = {}
        self.unresolved = []
        self.hits = {}
        self.active = False

    def start(self):
        if not hasattr(sys, "monitoring"):
            return
        mon = sys.monitoring
        for spec in self.specs:
            try:
                self.codes[spec] = _resolve(spec)
            except Exception:
                self.unresolved.append(spec)
        try:
            mon.use_tool_id(TOOL, "verif-anchors")
        except ValueError:
            return
        self.active = True
        by_code = {}
        for spec, code in self.codes.items():
            self.hits[spec] = set()
            for c in _all_codes(code):
                by_code[c] = spec

        def on_line(code, line):
            spec = by_code.get(code)
            if spec is not None:
                self.hits[spec].add(line)
            return mon.DISABLE

        mon.register_callback(TOOL, mon.events.LINE, on_line)
        for c in by_code:
            mon.set_local_events(TOOL, c, mon.events.LINE)

    def stop(self):
        if self.active:
            mon = sys.monitoring
            for code in self.codes.values():
                for c in _all_codes(code):
                    mon.set_local_events(TOOL, c, 0)
            mon.register_callback(TOOL, mon.events.LINE, None)
            mon.free_tool_id(TOOL)
            self.active = False

    def report(self):
        """{spec: {"executed": [...], "lines": [...]}} with absolute line numbers."""
        out = {}
        for spec, code in self.codes.items():
            lines = _lines(code)
            out[spec] = {
                "executed": sorted(self.hits.get(spec, set()) & lines),
                "lines": sorted(lines),
            }
        for spec in self.unresolved:
            out[spec] = {"unresolved": True}
        return out


def merge_reports(reports):
    """Merge per-worker reports into {spec: {executed, total, missing}}."""
    merged = {}
    for rep in reports:
        for spec, r in rep.items():
            m = merged.setdefault(spec, {"executed": set(), "lines": set(), "unresolved": False})
            if r.get("unresolved"):
                m["unresolved"] = True
                continue
            m["executed"].update(r["executed"])
            m["lines"].update(r["lines"])
    out = {}
    for spec, m in sorted(merged.items()):
        if m["unresolved"] and not m["lines"]:
            out[spec] = {"unresolved": True}
            continue
        missing = sorted(m["lines"] - m["executed"])
        out[spec] = {
            "executed": len(m["executed"]),
            "total": len(m["lines"]),
            "missing_lines": missing[:40],
        }
    return out
