"""Independent reference computations (no repository imports)."""
import cmath
import math
from fractions import Fraction


# ------------------------------------------------------------ feasibility
def phasor_current(coeffs_row, angles_deg, col):
    """sum_i A[j,i] * s[i] * e^{j theta_i} with compensated summation."""
    re = math.fsum(a * s * math.cos(math.radians(th)) for a, s, th in zip(coeffs_row, col, angles_deg) if a and s)
    im = math.fsum(a * s * math.sin(math.radians(th)) for a, s, th in zip(coeffs_row, col, angles_deg) if a and s)
    return complex(re, im)


def linear_current(coeffs_row, col):
    return abs(math.fsum(abs(a) * s for a, s in zip(coeffs_row, col)))


def feas_tol(limit, atol, rtol):
    return max(atol, rtol * limit)


def margins(A, L, angles, S, atol, rtol, linear=False):
    """Worst (largest) value of |I_jt| - (L_j + tol_j) over constraints j and periods t,
    together with the guard width for the deciding constraint. S is rows=stations."""
    worst, where = -math.inf, None
    T = len(S[0]) if S else 0
    for j, row in enumerate(A):
        bound = L[j] + feas_tol(L[j], atol, rtol)
        for t in range(T):
            col = [S[i][t] for i in range(len(S))]
            v = linear_current(row, col) if linear else abs(phasor_current(row, angles, col))
            m = v - bound
            if m > worst:
                worst, where = m, (j, t)
    return worst, where


def guard(L):
    fin = [x for x in L if x != math.inf]
    return 1e-11 * (1 + (max(fin) if fin else 0))


def dense_rows(net_desc):
    """(ids, A, L, angles, names) from a network descriptor, in descriptor station order."""
    ids = [s["id"] for s in net_desc["stations"]]
    angles = [s["phase"] for s in net_desc["stations"]]
    A = [[float(c["coeffs"].get(i, 0.0)) for i in ids] for c in net_desc["constraints"]]
    L = [float(c["limit"]) for c in net_desc["constraints"]]
    names = [c["name"] for c in net_desc["constraints"]]
    return ids, A, L, angles, names


# ------------------------------------------------------------ EVSE acceptance (exact)
def _fr(x):
    return Fraction(x) if not isinstance(x, Fraction) else x


ATOL = Fraction(1, 1000)
_RATE_CACHE = {}


def evse_accepts(e, pilot):
    """(accepted?, distance of the pilot from the nearest acceptance boundary) in exact rationals.

    The repository evaluates `pilot + atol` etc. in floating point; cases whose
    distance is below a guard band are not judged by the caller.
    """
    p = _fr(pilot)
    t = e["t"]
    if t == "EVSE":
        lo, hi = _fr(e.get("min", 0)) - ATOL, (None if e["max"] == float("inf") else _fr(e["max"]) + ATOL)
        ok = p >= lo and (hi is None or p <= hi)
        dist = min([abs(p - lo)] + ([abs(p - hi)] if hi is not None else []))
        return ok, dist
    if t == "DB":
        hi = None if e["max"] == float("inf") else _fr(e["max"]) + ATOL
        lo = _fr(e["end"]) - ATOL
        ok = abs(p) <= ATOL or (p >= lo and (hi is None or p <= hi))
        ds = [abs(abs(p) - ATOL), abs(p - lo)] + ([abs(p - hi)] if hi is not None else [])
        return ok, min(ds)
    key = id(e["rates"])
    hit = _RATE_CACHE.get(key)
    if hit is None or hit[0] is not e["rates"] or hit[1] != len(e["rates"]):
        if len(_RATE_CACHE) > 64:
            _RATE_CACHE.clear()
        hit = _RATE_CACHE[key] = (e["rates"], len(e["rates"]), sorted({_fr(r) for r in e["rates"]} | {Fraction(0)}))
    rates = hit[2]
    # only the levels next to the pilot can decide (exact arithmetic on those)
    import bisect
    k = bisect.bisect_left(rates, p)
    near = rates[max(0, k - 2):k + 2]
    ok = any(abs(p - r) <= ATOL for r in near)
    dist = min(abs(abs(p - r) - ATOL) for r in near)
    return ok, dist


# ------------------------------------------------------------ battery laws
def ideal_ref(cap, c0, pmax, pilot, V, T_min):
    """(rate A, charge after) for the ideal battery: min(pilot power, max power, power to fill)."""
    h = T_min / 60.0
    power = min(pilot * V / 1000.0, pmax, (cap - c0) / h)
    return power * 1000.0 / V, c0 + power * h


def l2_ref(cap, c0, pmax, tsoc, pilot, V, T_min):
    """Charge after T for the two-stage law dE/dt = min(pV, Pmax, Pmax (1-soc)/(1-tsoc)).

    Piecewise-analytic solution derived from the law (not from the repository's formulas):
    constant-power phase at r = min(pV, Pmax) while r <= envelope(soc), i.e. soc <= s*;
    afterwards 1-soc decays exponentially with rate Pmax/(cap (1-tsoc)).
    """
    h = T_min / 60.0
    s0 = c0 / cap
    m = pmax / cap
    r = min(pilot * V / 1000.0 / cap, m)
    if r <= 0 or s0 >= 1:
        return c0
    s_star = 1 - r * (1 - tsoc) / m
    k = m / (1 - tsoc)
    if s0 < s_star:
        t1 = (s_star - s0) / r
        if t1 >= h:
            s = s0 + r * h
        else:
            s = 1 - (1 - s_star) * math.exp(-k * (h - t1))
    else:
        s = 1 - (1 - s0) * math.exp(-k * h)
    return s * cap


def l2_regime(cap, c0, pmax, tsoc, pilot, V, T_min):
    h = T_min / 60.0
    s0 = c0 / cap
    m = pmax / cap
    a = pilot * V / 1000.0 / cap
    r = min(a, m)
    if pilot == 0:
        return "zero-pilot"
    if s0 >= 1 - 1e-15:
        return "full"
    s_star = 1 - r * (1 - tsoc) / m
    if s0 >= s_star:
        return "rampdown" if a >= m else "pilot-below-envelope-start-in-rampdown"
    t1 = (s_star - s0) / r
    if t1 >= h:
        return "pilot-limited-below-transition" if a < m else "power-limited-below-transition"
    return "crossing"


# ------------------------------------------------------------ tariffs
class TariffOracle:
    """Direct interpretation of a tariff JSON document (independent of tou_tariff.py)."""

    MASKS = {"WEEKDAYS": {0, 1, 2, 3, 4}, "WEEKENDS": {5, 6}, "ALL": {0, 1, 2, 3, 4, 5, 6}}

    def __init__(self, doc):
        self.sched = []
        for s in doc["schedule"]:
            st = tuple(int(x) for x in s["effective_start"].split("-"))
            en = tuple(int(x) for x in s["effective_end"].split("-"))
            bps = sorted((Fraction(str(t)), float(r)) for t, r in zip(s["times"], s["tariffs"]))
            self.sched.append({"id": s["id"], "start": st, "end": en, "dows": self.MASKS[s["dow_mask"]],
                               "bps": bps, "demand": s["demand_charge"]})

    @staticmethod
    def _in_season(md, st, en):
        if st <= en:
            return st <= md <= en
        return md >= st or md <= en  # wraps the new year

    def matches(self, dt):
        md = (dt.month, dt.day)
        return [s for s in self.sched if dt.weekday() in s["dows"] and self._in_season(md, s["start"], s["end"])]

    def lookup(self, dt):
        """(rate, demand charge, schedule id) or raises LookupError with the number of matches."""
        m = self.matches(dt)
        if len(m) != 1:
            raise LookupError(len(m))
        s = m[0]
        h = Fraction(dt.hour) + Fraction(dt.minute, 60) + Fraction(dt.second, 3600) + Fraction(dt.microsecond, 3600 * 10 ** 6)
        rate = None
        for t, r in s["bps"]:
            if t <= h:
                rate = r
        if rate is None:
            raise LookupError(-1)
        return rate, s["demand"], s["id"]

    def breakpoints(self):
        out = set()
        for s in self.sched:
            for t, _ in s["bps"]:
                out.add(t)
        return sorted(out)
