"""Class-level contract monitor for EventQueue: on every public call of every instance, in whatever workload
runs (generated simulations, the repository's own tests), the pending multiset of (timestamp, precedence, tag)
is read through the public `queue` property before and after the call and the call's contract is judged:
add_event adds exactly that event; get_event returns a minimal element and removes exactly it;
get_current_events(t) returns, in non-decreasing (timestamp, precedence) order, exactly the pending events with
timestamp <= t and leaves the rest; get_last_timestamp is the maximum pending timestamp; len/empty agree."""
import math
from collections import Counter

from .monitors import Wrap

CUR = {"obs": None}
_WRAPS = []
_NESTED = set()


def _key(ts, ev):
    prec = getattr(ev, "precedence", math.inf)
    try:
        prec = float(prec)
    except Exception:
        prec = math.inf
    tag = getattr(getattr(ev, "ev", None), "session_id", None)
    return (ts, prec, tag if isinstance(tag, (str, int, float, type(None))) else repr(tag))


def _pending(q):
    try:
        return Counter(_key(ts, e) for ts, e in q.queue)
    except Exception:
        return None


def _cmp(k):
    return (k[0], k[1])


def _before(q, a, k):
    if CUR["obs"] is None or id(q) in _NESTED:
        return None
    return (q, _pending(q), a, k)


def _before_cur(q, a, k):
    ctx = _before(q, a, k)
    if ctx is not None:
        _NESTED.add(id(q))  # get_current_events pops through get_event: the inner calls are part of this one
    return ctx


def _state_ok(obs, q, post, op):
    try:
        n, empty = len(q), q.empty()
    except Exception:
        return
    tot = sum(post.values())
    if n != tot or empty != (tot == 0):
        obs.violate("queue_monitor:len_or_empty", f"after {op}: len {n}, empty {empty}; {tot} events pending")


def _after_add(ctx, result, exc):
    obs = CUR["obs"]
    if obs is None or ctx is None or exc is not None:
        return
    q, pre, a, k = ctx
    post = _pending(q)
    if pre is None or post is None:
        return
    ev = a[0] if a else k.get("event")
    try:
        want = pre + Counter([_key(ev.timestamp, ev)])
    except Exception:
        return
    obs.ev("queue_monitor:add")
    if post != want:
        obs.violate("queue_monitor:add", f"add_event: pending set changed by {dict(post - pre)} / lost {dict(pre - post)}, expected +{_key(ev.timestamp, ev)}")
    _state_ok(obs, q, post, "add_event")


def _after_get(ctx, result, exc):
    obs = CUR["obs"]
    if obs is None or ctx is None or exc is not None:
        return
    q, pre, a, k = ctx
    post = _pending(q)
    if pre is None or post is None:
        return
    obs.ev("queue_monitor:get_event")
    try:
        got = _key(result.timestamp, result)
    except Exception:
        return
    if not pre:
        obs.violate("queue_monitor:get_from_empty", f"get_event returned {got} from an empty queue")
        return
    best = min(_cmp(x) for x in pre)
    if _cmp(got) != best:
        obs.violate("queue_monitor:not_minimal", f"get_event returned key {_cmp(got)}, minimal pending key is {best}",
                    pending=sorted(pre.elements(), key=_cmp)[:8])
    if post != pre - Counter([got]) or got not in pre:
        obs.violate("queue_monitor:get_removed_wrong", f"get_event returned {got}; removed {dict(pre - post)}, appeared {dict(post - pre)}")
    _state_ok(obs, q, post, "get_event")


def _after_cur(ctx, result, exc):
    obs = CUR["obs"]
    if ctx is None:
        return
    q, pre, a, k = ctx
    _NESTED.discard(id(q))
    if obs is None or exc is not None:
        return
    post = _pending(q)
    if pre is None or post is None:
        return
    t = a[0] if a else k.get("timestep")
    obs.ev("queue_monitor:get_current_events")
    try:
        got = [_key(e.timestamp, e) for e in result]
    except Exception:
        return
    exp = sorted((x for x in pre.elements() if x[0] <= t), key=_cmp)
    if [_cmp(x) for x in got] != [_cmp(x) for x in exp] or Counter(got) != Counter(exp):
        obs.violate("queue_monitor:current_events", f"get_current_events({t}) returned {got[:6]}, pending with ts<={t} in order: {exp[:6]}")
    if post != pre - Counter(exp):
        obs.violate("queue_monitor:current_events_left", f"get_current_events({t}) left {sorted(post.elements(), key=_cmp)[:6]}, "
                    f"expected {sorted((pre - Counter(exp)).elements(), key=_cmp)[:6]}")
    _state_ok(obs, q, post, f"get_current_events({t})")


def _after_last(ctx, result, exc):
    obs = CUR["obs"]
    if obs is None or ctx is None or exc is not None:
        return
    q, pre, a, k = ctx
    if pre is None:
        return
    obs.ev("queue_monitor:get_last_timestamp")
    exp = max((x[0] for x in pre), default=None)
    if result != exp:
        obs.violate("queue_monitor:last_timestamp", f"get_last_timestamp() = {result!r}, latest pending timestamp {exp!r}",
                    pending=sorted(pre.elements(), key=_cmp)[-5:])
    if _pending(q) != pre:
        obs.violate("queue_monitor:query_changed_state", "get_last_timestamp changed the pending set")


def install():
    from acnportal.acnsim.events import EventQueue
    if _WRAPS:
        return
    _WRAPS.append(Wrap(EventQueue, "add_event", before=_before, after=_after_add).install())
    _WRAPS.append(Wrap(EventQueue, "get_event", before=_before, after=_after_get).install())
    _WRAPS.append(Wrap(EventQueue, "get_current_events", before=_before_cur, after=_after_cur).install())
    _WRAPS.append(Wrap(EventQueue, "get_last_timestamp", before=_before, after=_after_last).install())
