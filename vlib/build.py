"""Build repository objects from case descriptors (imports acnportal lazily)."""
import random
from datetime import datetime

import numpy as np

from . import gen


def acn():
    import acnportal.acnsim as acnsim  # noqa
    from acnportal import algorithms  # noqa
    return acnsim, algorithms


def build_evse(sid, e):
    from acnportal.acnsim.models import EVSE, DeadbandEVSE, FiniteRatesEVSE
    if e["t"] == "EVSE":
        return EVSE(sid, max_rate=e["max"], min_rate=e.get("min", 0))
    if e["t"] == "DB":
        if e.get("user") == "derated":
            # a user subclass overriding the documented max_rate hook: e["max"] is what it reports (half the stored nameplate value)
            from .userext import DeratedDeadbandEVSE, DERATE
            return DeratedDeadbandEVSE(sid, deadband_end=e["end"], max_rate=e["max"] / DERATE)
        return DeadbandEVSE(sid, deadband_end=e["end"], max_rate=e["max"])
    if e.get("user") == "cable":
        from .userext import CableLimitedEVSE
        return CableLimitedEVSE(sid, list(e["rates"]))
    rates = list(e["rates"])
    form = e.get("form", "list")
    if form == "generator":
        rates = (r for r in rates)
    elif form == "map":
        rates = map(float, rates)
    elif form == "iter":
        rates = iter(rates)
    elif form == "tuple":
        rates = tuple(rates)
    elif form == "array":
        rates = np.array(rates, dtype=float)
    return FiniteRatesEVSE(sid, rates)


LAST_EVSES = {}  # station id -> EVSE object of the most recently built network (harness-side handle)
LAST_CURRENTS = {}  # constraint name -> the Current object handed to add_constraint for the most recently built network


def _narrow(x, t):
    """x as a scalar of numpy type t if t holds it exactly, else x itself."""
    if not t:
        return x
    try:
        with np.errstate(all="ignore"):
            y = getattr(np, t)(x)
        return y if float(y) == float(x) else x
    except (OverflowError, ValueError):
        return x


def build_network(nd, cls=None, order=None, cons_order=None, **kw):
    from acnportal.acnsim.network import ChargingNetwork, Current
    cls = cls or ChargingNetwork
    if nd.get("tol") is not None:
        net = cls(violation_tolerance=nd["tol"][0], relative_tolerance=nd["tol"][1], **kw)
    else:
        net = cls(**kw)
    stations = nd["stations"] if order is None else [nd["stations"][i] for i in order]
    LAST_EVSES.clear()
    for s in stations:
        evse = build_evse(s["id"], s["evse"])
        LAST_EVSES[s["id"]] = evse
        net.register_evse(evse, _narrow(s["voltage"], (nd.get("num_type") or {}).get("voltage")),
                          _narrow(s["phase"], (nd.get("num_type") or {}).get("phase")))
    cons = nd["constraints"] if cons_order is None else [nd["constraints"][i] for i in cons_order]
    LAST_CURRENTS.clear()
    ids_reg = [s["id"] for s in stations]
    for c in cons:
        if nd.get("arith") and len(c["coeffs"]) >= 2:
            # the constraint is assembled by Current arithmetic from two Currents over the SAME stations: a weight table in the
            # descriptor's own order plus a zero Current listing the stations in registration order
            cur = Current({i: 0.0 for i in ids_reg if i in c["coeffs"]}) + Current(dict(c["coeffs"]))
        else:
            cur = Current(dict(c["coeffs"]))
        LAST_CURRENTS[c["name"]] = cur
        net.add_constraint(cur, c["limit"], name=c["name"])
    return net


def build_battery(b):
    from acnportal.acnsim.models import Battery, Linear2StageBattery
    if b["t"] == "ideal":
        return Battery(b["cap"], b["init"], b["maxp"])
    if b["t"] == "user":
        from .userext import OnboardLimitedBattery
        return OnboardLimitedBattery(b["cap"], b["init"], b["maxp"])
    return Linear2StageBattery(b["cap"], b["init"], b["maxp"], noise_level=b.get("noise", 0),
                               transition_soc=b.get("tsoc", 0.8),
                               charge_calculation=b.get("calc", "continuous"))


def int_caster(desc, shift=0):
    """Period indices as numpy integer scalars (table / column elements) when the descriptor asks for it; an unsigned type only
    if every index of the scenario fits it (a car connected before the start has a negative arrival)."""
    t = desc.get("int_type")
    if not t:
        return lambda x: x
    vals = [v + shift for s in desc["sessions"] for v in (s["arrival"], s["departure"], s.get("est_dep", s["departure"]))] + \
           [v + shift for v in desc.get("recompute", [])]
    info = np.iinfo(t)
    if vals and (min(vals) < info.min or max(vals) + 2 > info.max):
        t = "int64"
    return getattr(np, t)


def build_ev(s, shift=0, it=None):
    from acnportal.acnsim.models import EV
    it = it or (lambda x: x)
    return EV(it(s["arrival"] + shift), it(s["departure"] + shift), s["requested"], s["station"], s["id"],
              build_battery(s["battery"]), estimated_departure=it(s.get("est_dep", s["departure"]) + shift))


def build_events(desc, shift=0, session_order=None, queue=None, late=False, evs=None, event_objs=None):
    from acnportal.acnsim.events import EventQueue, PluginEvent, RecomputeEvent
    sessions = desc["sessions"] if session_order is None else [desc["sessions"][i] for i in session_order]
    if evs is None:
        evs = [build_ev(s, shift, int_caster(desc, shift)) for s in sessions]
    # (else: EV objects handed in by the caller, e.g. the cars of an earlier simulation after their public reset())
    arrive = PluginEvent
    if desc.get("arrival_event") == "user":
        from .userext import ValetArrival as arrive  # a user-defined event class derived from the documented EVEvent base
    hold = set(desc.get("hold_back", []))  # sessions whose plug-in event the caller adds later, from inside the run
    it = int_caster(desc, shift)
    events = [arrive(e.arrival, e) for e in evs if e.session_id not in hold] + [RecomputeEvent(it(t + shift)) for t in desc.get("recompute", [])]
    if event_objs is not None:  # event objects of an earlier simulation (and with them its EV objects), handed to another simulator
        events = list(event_objs)
        evs = [e.ev for e in events if hasattr(e, "ev")]
    if desc.get("bad_batch") and not late:
        # the batch as first assembled contains one thing that is not an event (a bare EV someone forgot to wrap): add_events raises
        # part-way, the caller catches the error, sees how many events got in, and adds the rest one by one
        q_ = queue if queue is not None else EventQueue()
        n0_ = len(q_)
        k_ = len(events) // 2
        try:
            q_.add_events(events[:k_] + [object()] + events[k_:])
        except (AttributeError, TypeError):
            pass
        for e_ in events[len(q_) - n0_:]:
            q_.add_event(e_)
        return q_, evs
    if late:  # the caller fills the queue only after the simulator has been constructed on it
        return (queue if queue is not None else EventQueue()), evs, events
    if queue is not None:  # an existing (e.g. drained) queue object is refilled and used again
        queue.add_events(events_as(events, desc.get("events_as")))
        return queue, evs
    return EventQueue(events_as(events, desc.get("events_as"))), evs


def events_as(events, form):
    """The batch of events in the container the caller happens to have: a list, a tuple, a deque, the values view of a dict, or
    a one-shot iterable (generator, iterator, map)."""
    import collections
    if not form or form == "list":
        return events
    if form == "tuple":
        return tuple(events)
    if form == "deque":
        return collections.deque(events)
    if form == "dict_values":
        return {i: e for i, e in enumerate(events)}.values()
    if form == "generator":
        return (e for e in events)
    if form == "iter":
        return iter(events)
    return map(lambda e: e, events)


def start_of(desc):
    st = desc.get("start", [2020, 1, 1, 0, 0])
    dt = datetime(*st[:7])  # [y, m, d, H, M] or with seconds and microseconds
    if desc.get("tz"):
        import pytz
        dt = pytz.timezone(desc["tz"]).localize(dt)
    return dt


_SORTS = None


def sort_fn(name):
    from acnportal.algorithms import sorted_algorithms as sa
    return {"fcfs": sa.first_come_first_served, "lcfs": sa.last_come_first_served,
            "edf": sa.earliest_deadline_first, "llf": sa.least_laxity_first,
            "lrpt": sa.largest_remaining_processing_time}[name]


def make_scripted_class():
    from acnportal.algorithms import BaseAlgorithm

    class Scripted(BaseAlgorithm):
        """Deterministic scheduler: schedule = f(descriptor, current period). Stateless."""

        def __init__(self, sd=None, net=None, typed=True):
            super().__init__()
            self.sd = sd or {"seed": 0, "mr": None}
            self.net = net
            self.max_recompute = self.sd.get("mr")
            self.typed = typed
            self.submitted = []  # (t, plain schedule) as handed to the simulator
            self.hook = None

        def schedule(self, active_sessions):
            t = self.interface.current_time
            if self.hook is not None:
                self.hook(self, t, active_sessions)
            sch, plain = gen.scripted_schedule(self.sd, self.net, t)
            if self.sd.get("probe_p") and plain:
                # admission control: before deciding, the scheduler asks the interface whether richer candidates (the same rows
                # plus non-zero pilots for stations it will end up omitting) would be feasible; asking must not leave a trace
                r_ = random.Random(f"{self.sd['seed']}:{t}:probe")
                if r_.random() < self.sd["probe_p"]:
                    L_ = len(next(iter(plain.values())))
                    for _ in range(r_.randint(1, 2)):
                        cand = {k: list(v) for k, v in plain.items()}
                        for s_ in self.net["stations"]:
                            if s_["id"] not in cand and r_.random() < 0.8:
                                mx = gen.evse_max(s_["evse"])
                                cand[s_["id"]] = [float(mx if mx != float("inf") else 48.0)] * L_
                        try:
                            self.interface.is_feasible(cand, linear=r_.random() < 0.3)
                        except Exception:
                            pass
                        self.probed = getattr(self, "probed", 0) + 1
            if self.sd.get("resubmit_p") and plain and getattr(self, "sim", None) is not None:
                # re-planning one part while RE-SUBMITTING the standing plan for the rest: the rows of those stations are numpy
                # views of the simulator's own public pilot_signals matrix (what the plan holds at the moment of submission)
                r_ = random.Random(f"{self.sd['seed']}:{t}:resubmit")
                L_ = len(next(iter(plain.values())))
                P_ = self.sim.pilot_signals
                ids_ = list(self.sim.network.station_ids)
                if r_.random() < self.sd["resubmit_p"] and t + L_ <= P_.shape[1]:
                    sch = {k: (list(v) if not isinstance(v, np.ndarray) else v) for k, v in (sch.items() if isinstance(sch, dict) else plain.items())}
                    for k_ in list(plain):
                        if r_.random() < 0.5:
                            view = P_[ids_.index(k_), t:t + L_]
                            plain[k_] = [float(x) for x in view]
                            sch[k_] = view
                    self.resubmitted = getattr(self, "resubmitted", 0) + 1
                    self.submitted.append((t, {k: list(v) for k, v in plain.items()}))
                    return sch
            if self.sd.get("buffered") and plain:
                # a scheduler that keeps ONE pre-allocated mapping of numpy rows and overwrites the rows in place each period
                buf = getattr(self, "_buf", None)
                L = len(next(iter(plain.values())))
                if buf is None or set(buf) != set(plain) or len(next(iter(buf.values()))) != L:
                    buf = self._buf = {k: np.array(v, dtype=float) for k, v in plain.items()}
                else:
                    for k, v in plain.items():
                        buf[k][:] = v
                self.submitted.append((t, {k: list(v) for k, v in plain.items()}))
                return buf
            if self.typed and plain:
                # (rows that are pandas Series only where the simulator does not keep the schedules for a JSON dump: the library's
                # encoder writes lists and numpy arrays, not Series - a limitation of the dump, not of the run)
                keeps = getattr(getattr(self, "sim", None), "schedule_history", None) is not None
                sch = gen.typed_schedule(plain, random.Random(f"{self.sd['seed']}:{t}:types"), np, series=not keeps)
            self.submitted.append((t, {k: list(v) for k, v in plain.items()}))
            return sch

    return Scripted


class FixedBound:
    """Estimator with a fixed per-session bound (keyed by session id, as documented)."""

    def __init__(self, bounds):
        self.bounds = dict(bounds)
        self._interface = None
        self.calls = 0

    def register_interface(self, interface):
        self._interface = interface

    def get_maximum_rates(self, sessions):
        self.calls += 1
        return dict(self.bounds)


def build_scheduler(desc, sort_wrapper=None):
    from acnportal import algorithms as al
    sd = desc["scheduler"]
    if sd["kind"] == "scripted":
        return make_scripted_class()(sd, desc["network"], typed=sd.get("typed", True))
    if sd["kind"] == "uncontrolled":
        return al.UncontrolledCharging()
    if sd["kind"] == "sorted":
        est = None
        if sd.get("est") == "rampdown":
            est = al.SimpleRampdown()
        elif sd.get("est") == "fixed":
            r = random.Random(f"fb:{sd.get('seed', 1)}")
            est = FixedBound({s["id"]: r.choice([6.0, 10.0, 13.5, 20.0, 40.0, 0.0, 0, 0.4]) for s in desc["sessions"]
                              if r.random() < 0.8})
        cls = al.SortedSchedulingAlgo if sd["algo"] == "greedy" else al.RoundRobin
        if sd.get("user_pre"):
            from .userext import minimal_pre_classes
            cls = minimal_pre_classes()[0 if sd["algo"] == "greedy" else 1]
        if sd.get("user_min") is not None:
            from .userext import guaranteed_minimum_classes
            cls = guaranteed_minimum_classes(sd["user_min"])[0 if sd["algo"] == "greedy" else 1]
        kw = dict(estimate_max_rate=est is not None, max_rate_estimator=est,
                  uninterrupted_charging=bool(sd.get("unint")))
        if sd.get("over"):
            kw["allow_overcharging"] = True  # documented option (announced as not yet supported: it must not change safety)
        if sd["algo"] == "rr":
            kw["continuous_inc"] = sd.get("inc", 0.1)
        if sd.get("terse"):
            # documented defaults: estimate_max_rate=False, max_rate_estimator=None, uninterrupted_charging=False, continuous_inc=0.1
            for k_, dv_ in (("estimate_max_rate", False), ("max_rate_estimator", None), ("uninterrupted_charging", False), ("continuous_inc", 0.1)):
                if k_ in kw and kw[k_] is dv_ or (k_ == "continuous_inc" and kw.get(k_) == 0.1):
                    kw.pop(k_, None)
        sf = sort_fn(sd["sort"])
        if sort_wrapper is not None:
            sf = sort_wrapper(sf, sd["sort"])
        algo = cls(sf, **kw)
        if sd.get("mr") is not None and not (sd.get("terse") and sd["mr"] == 1):  # documented default: every period
            algo.max_recompute = sd["mr"]  # public attribute of every algorithm: periods between forced recomputes
        return algo
    raise ValueError(sd["kind"])


def build_sim(desc, scheduler=None, network=None, shift=0, order=None, cons_order=None,
              session_order=None, net_cls=None, net_kw=None, queue=None, late_fill=False, evs=None, event_objs=None, **simkw):
    from acnportal.acnsim import Simulator
    net = network or build_network(desc["network"], cls=net_cls, order=order, cons_order=cons_order,
                                   **(net_kw or {}))
    pending_events = None
    if late_fill:
        q, evs, pending_events = build_events(desc, shift=shift, session_order=session_order, queue=queue, late=True, evs=evs, event_objs=event_objs)
    else:
        q, evs = build_events(desc, shift=shift, session_order=session_order, queue=queue, evs=evs, event_objs=event_objs)
    sch = scheduler if scheduler is not None else build_scheduler(desc)
    if getattr(sch, "sd", None) is not None and shift:
        sch.sd = dict(sch.sd, t0=sch.sd.get("t0", 0) + shift)
    np.random.seed(desc.get("np_seed", 0))
    # verbose: the library default is True (progress lines on stdout, which the workers discard); the code behind the messages
    # runs only then
    sim = Simulator(net, sch, q, start_of(desc), period=desc["period"], verbose=bool(desc.get("verbose", False)),
                    signals=desc.get("signals"), **simkw)
    if getattr(sch, "sd", None) is not None:
        sch.sim = sim  # the user built both: a scheduler may hold its simulator (public attributes only)
    if pending_events is not None:
        # the simulator was built on an empty queue; the very queue object it was given is filled now
        half = len(pending_events) // 2
        q.add_events(events_as(pending_events[:half], desc.get("events_as")))
        for e_ in pending_events[half:]:
            q.add_event(e_)
    return sim, evs


def build_site(site, basic=True, **kw):
    """One of the predefined site networks of the repository (real wiring: three-phase delta loads behind transformers)."""
    from acnportal.acnsim.network import sites
    fn = {"caltech": sites.caltech_acn, "jpl": sites.jpl_acn, "office001": sites.office001_acn}[site]
    return fn(basic_evse=basic, **kw)


def describe_network(net):
    """Network descriptor (the format of gen.rand_network) read from a built network through public accessors. Used only for
    the predefined sites, whose wiring C16 judges independently against the physical ratings."""
    import math
    from acnportal.acnsim.models import FiniteRatesEVSE, DeadbandEVSE
    stations = []
    for sid in net.station_ids:
        e = LAST_SITE_EVSES(net)[sid]
        if isinstance(e, FiniteRatesEVSE):
            ed = {"t": "FR", "rates": [float(x) for x in e.allowable_rates]}
        elif isinstance(e, DeadbandEVSE):
            ed = {"t": "DB", "end": float(e._deadband_end), "max": float(e.max_rate)}
        else:
            ed = {"t": "EVSE", "max": float(e.max_rate), "min": float(e.min_rate)}
        stations.append({"id": sid, "evse": ed, "voltage": float(net.voltages[sid]), "phase": float(net.phase_angles[sid])})
    cons = []
    if net.constraint_matrix is not None:
        for j, name in enumerate(net.constraint_index):
            row = net.constraint_matrix[j]
            cons.append({"name": name, "coeffs": {sid: float(row[i]) for i, sid in enumerate(net.station_ids) if row[i] != 0},
                         "limit": float(net.magnitudes[j])})
    return {"stations": stations, "constraints": cons, "tol": None}


def LAST_SITE_EVSES(net):
    return getattr(net, "_EVSEs")


def site_scenario(case):
    """Scenario on a predefined site network: (descriptor, built network). Distinct arrivals and estimated departures."""
    rng = random.Random(case["seed"])
    net = build_site(case["site"], case["basic"])
    nd = describe_network(net)
    ids = [s_["id"] for s_ in nd["stations"]]
    k = min(len(ids), rng.randint(12, 30))
    sessions = []
    arrivals = rng.sample(range(0, k + 3), k) if case.get("distinct") else [rng.randint(0, 6) for _ in range(k)]
    used = set()
    for j, st_ in enumerate(rng.sample(ids, k)):
        a = arrivals[j]
        dep = a + rng.randint(5, 14)
        req = rng.choice([2, 6, 12, 30])
        est = dep + rng.choice([0, 1, -1, 3])
        while case.get("distinct") and est in used:
            est += 1
        used.add(est)
        sessions.append({"id": f"v{j}", "station": st_, "arrival": a, "departure": dep, "requested": req, "est_dep": est,
                         "battery": {"t": rng.choice(["ideal", "l2"]), "cap": req + 20.0, "init": rng.choice([0.0, 10.0]), "maxp": rng.choice([3.3, 6.6, 11]),
                                     "tsoc": 0.8, "calc": "continuous", "noise": 0}})
    sd = gen.rand_sorted(rng, sort=case["sort"], algo=case["algo"], inc=1, est=rng.choice(case.get("ests", [None, "rampdown", "fixed"])), seed=rng.randrange(1 << 20))
    d = {"period": 5, "start": [2020, 6, 1, 7, 0], "network": nd, "sessions": sessions, "recompute": [], "scheduler": sd, "np_seed": 5}
    return d, net


