"""pytest plugin: run the repository's own test suite as one more workload with the class-level monitors installed.

    cd <repo> && PYTHONPATH=/verif:<repo> VERIF_SUITE_PROPS=C03,C13,C11 VERIF_SUITE_OUT=<file> \
        python -m pytest -p vlib.suite_plugin -p no:cacheprovider -q ...

The monitors only record (they never raise into the test), so the suite's own verdicts are unaffected; what the
monitors saw (events, violations with witnesses) is written to VERIF_SUITE_OUT at session end."""
import json
import os

_OBS = {}


def pytest_configure(config):
    from vlib.result import Obs
    props = [p for p in os.environ.get("VERIF_SUITE_PROPS", "").split(",") if p]
    for p in props:
        o = Obs()
        o.case_hash = "suite"
        _OBS[p] = o
        if p == "C11":
            from vlib import qmonitor
            qmonitor.install()
            qmonitor.CUR["obs"] = o
        else:
            import importlib
            mod = importlib.import_module("props." + p.lower())
            mod.worker_init()
            mod.CUR["obs"] = o


def pytest_sessionfinish(session, exitstatus):
    out = os.environ.get("VERIF_SUITE_OUT")
    if not out:
        return
    data = {p: {"events": dict(o.events), "regimes": dict(o.regimes), "viol": o.viol, "boundary": o.boundary} for p, o in _OBS.items()}
    data["_pytest_exitstatus"] = int(exitstatus)
    data["_tests_collected"] = getattr(session, "testscollected", None)
    data["_tests_failed"] = getattr(session, "testsfailed", None)
    with open(out, "w") as f:
        json.dump(data, f, default=repr)
