"""Parent process: shard cases over worker subprocesses, merge, judge, write evidence."""
import importlib
import json
import os
import shutil
import subprocess
import sys
import time
from collections import Counter

from . import env
from .coverage import merge_reports
from .result import jhash

NPROC = int(os.environ.get("VERIF_NPROC", "16"))


def load_known():
    path = os.path.join(env.VERIF, "known_findings.json")
    if not os.path.exists(path):
        return []
    with open(path) as f:
        return json.load(f)


def run_property(prop_id, tier, seed, replay=None):
    t0 = time.time()
    mod = importlib.import_module("props." + prop_id.lower())
    if replay:
        with open(replay) as f:
            rp = json.load(f)
        cases = [rp["case"]]
    else:
        from . import gen as _gen
        _gen.TIER = tier
        cases = mod.cases(seed, tier)
    if not cases:
        print(f"INCONCLUSIVE property={prop_id} reason=no-cases")
        return 2
    budget = getattr(mod, "BUDGET_S", {"quick": 240, "thorough": 3000}).get(tier, 240)
    nshards = max(1, min(NPROC, len(cases)))
    work = os.path.join(env.VERIF, ".work", f"{prop_id}-{tier}-{seed}-{os.getpid()}")
    os.makedirs(work, exist_ok=True)
    procs = []
    wenv = env.worker_env()
    wenv["VERIF_SEED"] = str(seed)
    wenv["VERIF_TIER"] = tier
    for s in range(nshards):
        sp = os.path.join(work, f"shard{s}.json")
        op = os.path.join(work, f"out{s}.json")
        with open(sp, "w") as f:
            json.dump({"cases": cases[s::nshards], "budget_s": budget, "tier": tier, "seed": seed}, f)
        log = open(os.path.join(work, f"log{s}.txt"), "w")
        p = subprocess.Popen(
            [env.PYTHON, "-X", "faulthandler", "-m", "vlib.worker", prop_id, sp, op],
            cwd=env.VERIF, env=wenv, stdout=log, stderr=subprocess.STDOUT,
        )
        procs.append((p, op, log, s))
    outs, dead = [], []
    hard = time.time() + budget + 180
    for p, op, log, s in procs:
        try:
            p.wait(timeout=max(1, hard - time.time()))
        except subprocess.TimeoutExpired:
            p.kill()
            p.wait()
        log.close()
        if os.path.exists(op):
            with open(op) as f:
                outs.append(json.load(f))
        else:
            tail = ""
            try:
                with open(os.path.join(work, f"log{s}.txt")) as f:
                    tail = f.read()[-1500:]
            except OSError:
                pass
            dead.append({"shard": s, "rc": p.returncode, "log_tail": tail})

    events, regimes, kinds, audit = Counter(), Counter(), Counter(), Counter()
    violations, samples, nt = [], [], set()
    ran = skipped = evals = boundary = 0
    for o in outs:
        ran += o["ran"]
        skipped += o["skipped"]
        evals += o["evals"]
        boundary += o["boundary"]
        events.update(o["events"])
        regimes.update(o["regimes"])
        kinds.update(o["viol_kinds"])
        audit.update(o["audit"])
        violations.extend(o["violations"])
        nt.update(o["nt"])
        for s_ in o["samples"]:
            if len(samples) < 4:
                samples.append(s_)
    cov = merge_reports([o["coverage"] for o in outs])

    # ---- classification against the committed known-findings file
    known = [k for k in load_known() if k.get("property") == prop_id]
    open_keys = {k["key"]: k for k in known if k.get("status") == "open"}
    classify = getattr(mod, "classify", lambda v: None)
    new_viol, known_hits = [], Counter()
    harness_errors = []
    for v in violations:
        if v["kind"].startswith("crash:") and not (v.get("witness") or {}).get("raised_in_repo"):
            # an exception raised by the harness itself (not by repository code): never a verdict about the property
            harness_errors.append(v)
            continue
        key = None
        try:
            key = classify(v)
        except Exception:
            key = None
        if key is not None and key in open_keys:
            known_hits[key] += 1
        else:
            new_viol.append(v)
    # violations beyond the per-worker cap are only counted by kind; if a kind has
    # more occurrences than were kept, they share that kind's classification.
    n_viol_total = sum(kinds.values())

    # ---- inconclusive?
    reasons = []
    required = getattr(mod, "REQUIRED", [])
    if not replay:
        for name in required:
            if events.get(name, 0) == 0 and regimes.get(name, 0) == 0:
                reasons.append(f"monitor-never-reached:{name}")
    if harness_errors:
        reasons.append(f"{len(harness_errors)}-harness-error(s):" + harness_errors[0]["detail"][:120].replace(" ", "_"))
    if ran == 0:
        reasons.append("no-case-ran")
    if dead:
        reasons.append(f"{len(dead)}-worker(s)-died")
    if skipped and ran and skipped > ran:
        reasons.append("most-cases-skipped-by-time-budget")

    # ---- output
    rc = 0
    replay_dir = os.path.join(env.VERIF, "replays", prop_id)
    if new_viol:
        os.makedirs(replay_dir, exist_ok=True)
        seen = set()
        for v in new_viol:
            h = jhash([v["case"], v["kind"]])
            if h in seen or len(seen) >= 10:
                continue
            seen.add(h)
            path = os.path.join(replay_dir, f"{h}.json")
            with open(path, "w") as f:
                json.dump({"property": prop_id, "kind": v["kind"], "detail": v["detail"],
                           "witness": v.get("witness"), "case": v["case"], "seed": seed, "tier": tier}, f, indent=1)
            print(f"VIOLATION property={prop_id} replay={path}")
            print(f"  kind={v['kind']} detail={v['detail'][:300]}")
        rc = 1
    for key, n in sorted(known_hits.items()):
        print(f"KNOWN-FINDING: property={prop_id} {key}: {open_keys[key]['what']} (re-observed {n}x)")
    if rc == 0 and reasons:
        print(f"INCONCLUSIVE property={prop_id} reason={';'.join(reasons)}")
        for d in dead:
            print("  worker died:", d["rc"], d["log_tail"][-600:].replace("\n", " | "))
        for h_ in harness_errors[:1]:
            print("  harness error:", ((h_.get("witness") or {}).get("traceback") or "")[-900:].replace("\n", " | "))
        rc = 2

    wall = time.time() - t0
    evidence = {
        "property_id": prop_id,
        "tier": tier,
        "seed": seed,
        "level": mod.LEVEL,
        "coverage": {
            "evaluations": evals,
            "distinct_nontrivial": len(nt),
            "rule": mod.RULE,
            "samples": samples or [c for c in cases[:2]],
            "cases_run": ran,
            "cases_skipped_by_budget": skipped,
            "monitor_events": dict(sorted(events.items())),
            "regimes": dict(sorted(regimes.items())),
            "boundary_inconclusive": boundary,
            "anchor_functions": cov,
            "violation_kinds": dict(kinds),
            "known_findings_reobserved": dict(known_hits),
            "socket_events": audit.get("socket_events", 0),
            "workers": len(outs),
            "workers_died": len(dead),
            "verdict": {0: "held-on-what-was-observed", 1: "violated", 2: "inconclusive"}[rc],
            "inconclusive_reasons": reasons,
            "harness_errors": len(harness_errors),
            "repo": env.REPO,
        },
        "assumptions": list(getattr(mod, "ASSUMPTIONS", [])),
        "wall_s": round(wall, 2),
        "violations": len(new_viol) if n_viol_total <= len(violations) else n_viol_total - sum(known_hits.values()),
    }
    if getattr(mod, "EXHAUSTIVE", None) and tier in mod.EXHAUSTIVE:
        evidence["coverage"]["exhaustive_part"] = mod.EXHAUSTIVE[tier]
    if not replay and env.REPO == "/repo":
        os.makedirs(os.path.join(env.VERIF, "evidence"), exist_ok=True)
        with open(os.path.join(env.VERIF, "evidence", f"{prop_id}.json"), "w") as f:
            json.dump(evidence, f, indent=1)
    elif os.environ.get("VERIF_EVIDENCE_OUT"):
        with open(os.environ["VERIF_EVIDENCE_OUT"], "w") as f:
            json.dump(evidence, f, indent=1)
    shutil.rmtree(work, ignore_errors=True)
    verdict = evidence["coverage"]["verdict"]
    print(f"{prop_id} {tier} seed={seed}: {verdict}; cases={ran} evaluations={evals} "
          f"distinct_nontrivial={len(nt)} violations={sum(kinds.values())} "
          f"known={sum(known_hits.values())} boundary={boundary} wall={wall:.1f}s")
    top = sorted(events.items(), key=lambda kv: -kv[1])[:8]
    print("  monitor events:", ", ".join(f"{k}={v}" for k, v in top))
    return rc


def main(argv):
    import argparse

    ap = argparse.ArgumentParser(prog="check")
    ap.add_argument("prop")
    ap.add_argument("tier", nargs="?", default=None, choices=[None, "quick", "thorough"])
    ap.add_argument("--replay", default=None)
    ap.add_argument("--seed", type=int, default=None)
    a = ap.parse_args(argv[1:])
    tier = a.tier or os.environ.get("VERIF_TIER") or "quick"
    if tier not in ("quick", "thorough"):
        tier = "quick"
    seed = a.seed if a.seed is not None else int(os.environ.get("VERIF_SEED", "0") or 0)
    sys.exit(run_property(a.prop.upper(), tier, seed, replay=a.replay))
