"""A fake ACN-Data (Eve-style) server installed in place of data_client.requests.

Serves a paged collection, logs every request (URL, auth) and *evaluates* the
`where` clause it receives, so that what the client sends decides what it gets.
"""
import copy
from datetime import timezone
from email.utils import parsedate_to_datetime
from urllib.parse import urlsplit, parse_qs


def rfc1123(dt):
    return dt.astimezone(timezone.utc).strftime("%a, %d %b %Y %H:%M:%S GMT")


class Resp:
    def __init__(self, payload, headers=None):
        self._p = payload
        self.headers = headers or {}
        self.status_code = 200
        self.ok = True
        self.reason = "OK"
        self.url = None

    def json(self):
        return self._p

    def raise_for_status(self):
        return None

    @property
    def text(self):
        import json as _j
        return _j.dumps(self._p)

    @property
    def content(self):
        return self.text.encode()


class WhereError(Exception):
    pass


_MONGO = {"$gt": lambda a, b: a > b, "$gte": lambda a, b: a >= b, "$lt": lambda a, b: a < b, "$lte": lambda a, b: a <= b,
          "$ne": lambda a, b: a != b, "$eq": lambda a, b: a == b}


def eval_where(docs, cond):
    """Both syntaxes the API documents: python-like expressions joined by ` and `, and a MongoDB-style JSON object."""
    items = list(docs)
    if cond.strip().startswith("{"):
        import json as _json
        try:
            spec = _json.loads(cond)
        except ValueError:
            raise WhereError(cond)
        if not isinstance(spec, dict):
            raise WhereError(cond)
        for f, want in spec.items():
            if f not in ("kWhDelivered", "userID", "sessionID", "_id"):
                raise WhereError(cond)
            if isinstance(want, dict):
                for op, x in want.items():
                    if op not in _MONGO:
                        raise WhereError(cond)
                    items = [d for d in items if d.get(f) is not None and _MONGO[op](d.get(f), x)]
            else:
                items = [d for d in items if d.get(f) == want]
        return items
    for clause in cond.split(" and "):
        clause = clause.strip()
        if not clause:
            continue
        try:
            f, op, val = clause.split(" ", 2)
        except ValueError:
            raise WhereError(clause)
        if f == "connectionTime":
            t = parsedate_to_datetime(val.strip('"'))
            if op == ">=":
                items = [d for d in items if parsedate_to_datetime(d["connectionTime"]) >= t]
            elif op == "<=":
                items = [d for d in items if parsedate_to_datetime(d["connectionTime"]) <= t]
            else:
                raise WhereError(clause)
        elif f == "kWhDelivered":
            x = float(val)
            if op == ">":
                items = [d for d in items if d["kWhDelivered"] > x]
            elif op == ">=":
                items = [d for d in items if d["kWhDelivered"] >= x]
            else:
                raise WhereError(clause)
        elif f in ("userID", "sessionID") and op in ("==", "!=") and len(val) >= 2 and val[0] == val[-1] == '"':
            x = val[1:-1]
            items = [d for d in items if (d.get(f) == x) == (op == "==")]
        else:
            raise WhereError(clause)
    return items


class FakeRequests:
    """behaviour: {"cap": max page size the server honours, "empties": positions of empty pages,
    "extra_links": bool, "empty_last": bool}"""

    def __init__(self, docs, cap=1000, empties=(), extra_links=True, empty_last=False, base="/api/v1/", by_site=None, meta="accurate"):
        self.docs = docs
        self.meta = meta  # what the page's _meta block says: accurate | absent | small | zero | large | text (the links decide, not _meta)
        self.by_site = by_site  # optional {site name: documents}: the collection served depends on the site in the URL
        self.cap = cap
        self.empties = sorted(empties)
        self.extra_links = extra_links
        self.empty_last = empty_last
        self.base = base
        self.log = []
        self.errors = []

    def __getattr__(self, name):
        # anything else a client may look up on the `requests` module (exceptions, codes, adapters ...) is the real module's
        import requests as _real
        return getattr(_real, name)

    def Session(self):
        return _FakeSession(self)

    session = Session

    def request(self, method, url, **kw):
        return self.head(url, **kw) if str(method).upper() == "HEAD" else self.get(url, **kw)

    def get(self, url, params=None, auth=None, headers=None, **kw):
        if params:
            from urllib.parse import urlencode
            url = url + ("&" if "?" in url else "?") + urlencode(params)
        self.log.append({"url": url, "auth": auth if auth is not None else headers, "method": "GET"})
        if len([l_ for l_ in self.log if l_["method"] == "GET"]) in getattr(self, "throttle_at", ()):
            # the server is busy: 429 Too Many Requests, an error document without items, "retry at once"
            r_ = Resp({"_status": "ERR", "_error": {"code": 429, "message": "Too Many Requests"}}, headers={"Retry-After": "0"})
            r_.status_code, r_.ok, r_.reason = 429, False, "Too Many Requests"
            return r_
        u = urlsplit(url)
        q = parse_qs(u.query, keep_blank_values=True)
        page = int(q.get("page", ["1"])[0])
        try:
            mr = int(q["max_results"][0])
        except Exception:
            self.errors.append("max_results missing or not an integer")
            mr = 25
        if mr <= 0:
            self.errors.append("max_results not positive")
            mr = 25
        size = max(1, min(mr, self.cap))
        items = list(self.docs)
        if self.by_site:
            for site, ds in self.by_site.items():
                if u.path.rstrip("/").endswith("/" + site) or ("/" + site + "/") in u.path:
                    items = list(ds)
                    break
        if "where" in q:
            try:
                items = eval_where(items, q["where"][0])
            except WhereError as e:
                self.errors.append(f"unparseable where clause: {e}")
        if "sort" in q:
            key = q["sort"][0]
            if key in ("connectionTime", "disconnectTime"):
                items.sort(key=lambda d: parsedate_to_datetime(d[key]))
            else:
                self.errors.append(f"unknown sort key {key}")
        pages = [items[i:i + size] for i in range(0, len(items), size)] or [[]]
        for e in self.empties:
            if e <= len(pages):
                pages.insert(e, [])
        if self.empty_last:
            pages.append([])
        if page > len(pages):
            self.errors.append("requested a page beyond the last")
            cur = []
        else:
            cur = pages[page - 1]
        links = {}
        if self.extra_links:
            links = {"self": {"href": "sessions", "title": "x"}, "parent": {"href": "/", "title": "home"}}
            if page > 1:
                links["prev"] = {"href": "prev-link", "title": "previous page"}
        if page < len(pages):
            path = u.path.split(self.base, 1)[1] if self.base in u.path else u.path.lstrip("/")
            qs = "&".join(f"{k}={v[0]}" for k, v in q.items() if k != "page")
            links["next"] = {"href": f"{path}?{qs}&page={page + 1}", "title": "next page"}
            if self.extra_links:
                links["last"] = {"href": "last-link", "title": "last page"}
        payload = {"_items": copy.deepcopy(cur), "_links": links}
        if self.meta != "absent":
            total = {"accurate": len(items), "small": min(len(items), max(1, len(pages[0]))), "zero": 0, "large": len(items) + 1000,
                     "text": str(len(items))}.get(self.meta, len(items))
            payload["_meta"] = {"page": page, "max_results": size, "total": total}
        return Resp(payload)

    def head(self, url, headers=None, auth=None, **kw):
        self.log.append({"url": url, "auth": headers if headers is not None else auth, "method": "HEAD"})
        u = urlsplit(url)
        q = parse_qs(u.query, keep_blank_values=True)
        items = list(self.docs)
        if "where" in q:
            try:
                items = eval_where(items, q["where"][0])
            except WhereError as e:
                self.errors.append(f"unparseable where clause: {e}")
        return Resp({}, headers={"x-total-count": str(len(items))})


class _FakeSession:
    """requests.Session() stand-in: session-level auth / headers are merged into each call."""

    def __init__(self, fake):
        self._fake = fake
        self.auth = None
        self.headers = {}
        self.params = {}

    def __enter__(self):
        return self

    def __exit__(self, *a):
        return False

    def close(self):
        pass

    def mount(self, *a, **k):
        pass

    def get(self, url, params=None, auth=None, headers=None, **kw):
        p = dict(self.params or {}, **(params or {}))
        h = dict(self.headers or {}, **(headers or {}))
        return self._fake.get(url, params=p or None, auth=auth if auth is not None else self.auth, headers=h or None, **kw)

    def head(self, url, headers=None, auth=None, **kw):
        h = dict(self.headers or {}, **(headers or {}))
        return self._fake.head(url, headers=h or None, auth=auth if auth is not None else self.auth, **kw)

    def request(self, method, url, **kw):
        return self.head(url, **kw) if str(method).upper() == "HEAD" else self.get(url, **kw)


class Installed:
    """Context manager: replace acnportal.acndata.data_client.requests by `fake`."""

    def __init__(self, fake):
        self.fake = fake

    def __enter__(self):
        import acnportal.acndata.data_client as dc
        self.dc = dc
        self.orig = dc.requests
        dc.requests = self.fake
        return self.fake

    def __exit__(self, *a):
        self.dc.requests = self.orig
