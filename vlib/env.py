"""Repository selection and process environment.

Checks import acnportal from $VERIF_REPO (default /repo) by putting that
directory first on sys.path; the editable install in /venv also points at
/repo, so the default needs nothing. The mutation self-test points
VERIF_REPO at scratch copies.
"""
import os
import sys

VERIF = os.path.dirname(os.path.dirname(os.path.abspath(__file__)))
REPO = os.path.abspath(os.environ.get("VERIF_REPO", "/repo"))
PYTHON = os.environ.get("VERIF_PYTHON", "/venv/bin/python")
GUARD = "ACNPORTAL_VERIF"


def setup_repo_path():
    """Make `import acnportal` resolve to REPO; return the package path."""
    if REPO in sys.path:
        sys.path.remove(REPO)
    sys.path.insert(0, REPO)
    os.environ[GUARD] = "1"
    import acnportal  # noqa

    path = os.path.dirname(os.path.abspath(acnportal.__file__))
    if not path.startswith(REPO):
        raise RuntimeError(
            f"acnportal imported from {path}, expected under {REPO}"
        )
    return path


def worker_env():
    env = dict(os.environ)
    env["PYTHONHASHSEED"] = "0"
    env["PYTHONDONTWRITEBYTECODE"] = "1"
    env["VERIF_REPO"] = REPO
    env[GUARD] = "1"
    env["OMP_NUM_THREADS"] = "1"
    env["OPENBLAS_NUM_THREADS"] = "1"
    env["MKL_NUM_THREADS"] = "1"
    env["PYTHONPATH"] = VERIF + os.pathsep + env.get("PYTHONPATH", "")
    return env


def set_process_tz(name):
    """Switch the interpreter's local time zone (TZ + tzset): results about aware datetimes must not depend on it."""
    import time
    if name is None:
        os.environ.pop("TZ", None)
    else:
        os.environ["TZ"] = name
    time.tzset()
