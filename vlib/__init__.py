"""Runtime-monitoring verification library for acnportal (see /verif/DESIGN.md)."""
