"""Observation record filled in by a property's run_case()."""
import hashlib
import json
from collections import Counter


def jhash(obj, n=16):
    s = json.dumps(obj, sort_keys=True, default=repr, separators=(",", ":"))
    return hashlib.sha1(s.encode()).hexdigest()[:n]


def jsonable(x, depth=0):
    """Best-effort conversion of witnesses to JSON-able values."""
    try:
        import numpy as np
    except Exception:  # pragma: no cover
        np = None
    if depth > 6:
        return repr(x)
    if x is None or isinstance(x, (bool, int, str)):
        return x
    if isinstance(x, float):
        if x != x or x in (float("inf"), float("-inf")):
            return repr(x)
        return x
    if np is not None:
        if isinstance(x, np.generic):
            return jsonable(x.item(), depth + 1)
        if isinstance(x, np.ndarray):
            return jsonable(x.tolist(), depth + 1)
    if isinstance(x, complex):
        return [x.real, x.imag]
    if isinstance(x, dict):
        return {str(k): jsonable(v, depth + 1) for k, v in x.items()}
    if isinstance(x, (list, tuple, set, frozenset)):
        return [jsonable(v, depth + 1) for v in x]
    return repr(x)


class Obs:
    """What one case observed.

    viol      list of {kind, detail, witness}: observations refuting the property
    events    monitor event counters (what the monitors actually saw)
    regimes   counters per regime class as classified by the oracle
    evals     number of oracle evaluations this case stands for (>= 1)
    nt_keys   keys of distinct non-trivial evaluations (hashed by the runner)
    boundary  evaluations that fell in the guard band (counted, not judged)
    sample    a small JSON-able description of what this case looked like
    """

    def __init__(self):
        self.viol = []
        self.events = Counter()
        self.regimes = Counter()
        self.evals = 1
        self.nt_keys = set()
        self.boundary = 0
        self.sample = None
        self.case_hash = None

    def violate(self, kind, detail="", **witness):
        if len(self.viol) < 25:
            self.viol.append(
                {"kind": kind, "detail": str(detail)[:600], "witness": jsonable(witness)}
            )
        self.events["violations_seen"] += 1

    def ev(self, name, n=1):
        self.events[name] += n

    def regime(self, name, n=1):
        self.regimes[name] += n

    def nontrivial(self, key=None):
        """Mark a distinct non-trivial evaluation (default key: this case)."""
        key = self.case_hash if key is None else jhash(key)
        if len(self.nt_keys) < 200000:
            self.nt_keys.add(key)
