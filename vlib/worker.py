"""Worker process: runs one shard of cases of one property and writes a result file.

usage: python -m vlib.worker <PROP_ID> <shard.json> <out.json>
"""
import faulthandler
import importlib
import json
import os
import sys
import time
import traceback
import warnings
from collections import Counter


def _socket_audit(counter):
    def hook(event, args):
        if event in ("socket.connect", "socket.bind", "socket.getaddrinfo"):
            counter["socket_events"] += 1

    return hook


def _ambient(h, events):
    """Process-global settings a user may legitimately have changed before using the library, varied from case to case: how numpy
    and pandas PRINT things, and how far the global random streams have been consumed.  None of them is an input of any
    property, so no verdict may depend on them (every check that needs a reproducible stream seeds it itself)."""
    import random as _r
    import numpy as _np
    import pandas as _pd
    k = int(h[:8], 16)
    thr = (1000, 3, 20, 50, 0)[k % 5]
    _np.set_printoptions(threshold=thr, edgeitems=(3, 1, 2)[(k // 5) % 3], precision=(8, 2, 17, 0)[(k // 15) % 4],
                         suppress=bool((k // 60) % 2), linewidth=(75, 20, 200)[(k // 120) % 3],
                         floatmode=("maxprec", "fixed", "unique")[(k // 360) % 3], sign=("-", "+", " ")[(k // 1080) % 3])
    _pd.set_option("display.max_rows", (60, 2, None)[(k // 7) % 3])
    _pd.set_option("display.max_columns", (0, 2, None)[(k // 21) % 3])
    _pd.set_option("display.precision", (6, 1, 15)[(k // 63) % 3])
    _pd.set_option("display.width", (80, 10)[(k // 189) % 2])
    for _ in range(k % 4):
        _r.random()
    _np.random.random(k % 3)
    if thr < 50:
        events["cases_under_abbreviating_numpy_print_options"] += 1


def main(argv):
    prop_id, shard_path, out_path = argv[1:4]
    with open(shard_path) as f:
        shard = json.load(f)
    deadline = time.time() + shard.get("budget_s", 600)
    faulthandler.enable()
    sys.stdout = open(os.devnull, "w")  # simulations run with verbose=True print progress lines; results travel by file
    faulthandler.dump_traceback_later(shard.get("budget_s", 600) + 120, exit=True)

    from vlib import env, coverage
    from vlib.result import Obs, jhash, jsonable

    audit = Counter()
    sys.addaudithook(_socket_audit(audit))
    warnings.simplefilter("ignore")  # property modules capture what they judge
    pkg_path = env.setup_repo_path()
    mod = importlib.import_module("props." + prop_id.lower())
    if hasattr(mod, "worker_init"):
        mod.worker_init()
    cov = coverage.AnchorCoverage(getattr(mod, "ANCHORS", []))
    cov.start()
    pcov = None
    if os.environ.get("VERIF_PKGCOV"):
        from vlib.pkgcov import PkgCoverage
        pcov = PkgCoverage(pkg_path, os.path.join(os.environ["VERIF_PKGCOV"], prop_id))
        pcov.start()

    events, regimes, kinds = Counter(), Counter(), Counter()
    violations, samples, nt = [], [], set()
    evals = ran = skipped = boundary = 0
    t_cases = []
    for case in shard["cases"]:
        if time.time() > deadline:
            skipped += 1
            continue
        t0 = time.time()
        obs = Obs()
        obs.case_hash = jhash(case)
        _ambient(obs.case_hash, events)
        try:
            r = mod.run_case(case, obs)
            if r is not None:
                obs = r
        except Exception as e:  # any escape from the harness or the code under test
            tb = traceback.format_exc()
            # whose code was running when it was raised: the deepest frame that belongs either to the repository or to this
            # harness decides (frames of numpy/pandas/stdlib below it are on behalf of that caller)
            in_repo = False
            tbo = e.__traceback__
            while tbo is not None:
                fn = tbo.tb_frame.f_code.co_filename
                if fn.startswith(pkg_path):
                    in_repo = True
                elif fn.startswith(env.VERIF):
                    in_repo = False
                tbo = tbo.tb_next
            if isinstance(e, RecursionError):  # the frame that overflows is arbitrary; what matters is who recursed
                in_repo = tb.count(pkg_path) > tb.count(os.path.join(env.VERIF, ""))
            obs.violate(
                "crash:" + type(e).__name__,
                f"{type(e).__name__}: {e}",
                traceback=tb[-2500:],
                raised_in_repo=in_repo,
            )
        ran += 1
        evals += max(1, obs.evals)
        boundary += obs.boundary
        events.update(obs.events)
        regimes.update(obs.regimes)
        for k in obs.nt_keys:
            nt.add(k[:12])
        for v in obs.viol:
            kinds[v["kind"]] += 1
            if len(violations) < 60:
                violations.append({"case": case, **v})
        if obs.sample is not None and len(samples) < 3:
            samples.append(jsonable(obs.sample))
        t_cases.append(time.time() - t0)
    cov.stop()
    if pcov is not None:
        pcov.stop()
    out = {
        "ran": ran,
        "skipped": skipped,
        "evals": evals,
        "boundary": boundary,
        "events": dict(events),
        "regimes": dict(regimes),
        "viol_kinds": dict(kinds),
        "violations": violations,
        "samples": samples,
        "nt": sorted(nt),
        "coverage": cov.report(),
        "audit": dict(audit),
        "max_case_s": max(t_cases) if t_cases else 0.0,
        "pkg_path": pkg_path,
    }
    tmp = out_path + ".tmp"
    with open(tmp, "w") as f:
        json.dump(out, f)
    os.replace(tmp, out_path)
    faulthandler.cancel_dump_traceback_later()


if __name__ == "__main__":
    main(sys.argv)
