"""Seeded generators of JSON-able case descriptors (no repository imports here)."""
import math
import random

PERIODS = [0.5, 1, 5, 7.5, 15, 60, 7, 13, 2.5, 45]
TIER = "quick"  # set by the runner before a property's cases() is called; the thorough tier also explores larger scenarios
VOLTAGES = [120, 208, 240, 277]
PHASES3 = [30, -90, 150]


# ------------------------------------------------------------------ EVSEs
def rand_evse(rng, kinds=("EVSE", "DB", "FR"), allow_inf=False, user_p=0.06):
    k = rng.choice(kinds)
    if k == "EVSE":
        mx = rng.choice([16, 32, 80])
        if allow_inf and rng.random() < 0.1:
            mx = float("inf")
        return {"t": "EVSE", "max": mx, "min": 0}
    if k == "DB":
        e_ = {"t": "DB", "end": rng.choice([6, 6, 8]), "max": rng.choice([32, 32, 40])}
        if user_p and rng.random() < user_p:
            e_["user"] = "derated"  # user subclass overriding max_rate (vlib.userext); "max" is the value it reports
        return e_
    r = rng.random()
    if user_p and rng.random() < user_p:
        return {"t": "FR", "rates": [0, 8, 16, 24, 32], "user": "cable"}  # user subclass: levels up to 32, max_rate = cable rating 24
    if r < 0.06:
        rates = rng.choice([[0, 16], [16], [0, 32], [6]])  # an on/off charger: one non-zero level
    elif r < 0.35:
        rates = [0] + list(range(6, 33))
    elif r < 0.7:
        rates = [0, 8, 16, 24, 32]
    else:
        n = rng.randint(1, 6)
        rates = sorted({round(rng.uniform(4, 48), rng.choice([0, 1])) for _ in range(n)})
        if rng.random() < 0.5:
            rates = [0] + rates
        rng.shuffle(rates)
    return {"t": "FR", "rates": rates}


def evse_max(e):
    if e.get("user") == "cable":
        return min(max(list(e["rates"]) + [0]), 24)  # vlib.userext.CABLE_A: what the subclass's max_rate reports
    return e["max"] if e["t"] in ("EVSE", "DB") else max(list(e["rates"]) + [0])


def evse_min(e):
    if e["t"] == "EVSE":
        return e["min"]
    if e["t"] == "DB":
        return 0
    pos = [r for r in e["rates"] if r > 0]
    return min(pos) if pos else 0


def valid_pilot(e, rng):
    """A pilot the EVSE accepts (well inside its tolerance)."""
    if e["t"] == "EVSE":
        mx = e["max"] if e["max"] != float("inf") else 120.0
        mn = e["min"]
        c = rng.random()
        if c < 0.25:
            return mn if mn > 0 else 0
        if c < 0.5:
            return mx
        if c < 0.6:
            return round((mn + mx) / 2, 2)
        return round(rng.uniform(mn, mx), rng.choice([0, 1, 3]))
    if e["t"] == "DB":
        c = rng.random()
        if c < 0.3:
            return 0
        if c < 0.5:
            return e["max"]
        if c < 0.6:
            return e["end"]
        return round(rng.uniform(e["end"], e["max"]), rng.choice([0, 2]))
    rates = sorted(set(list(e["rates"]) + [0]))
    return rng.choice(rates)


# ---------------------------------------------------------------- networks
def rand_network(rng, nmax=8, kinds=("EVSE", "DB", "FR"), constraint_free_p=0.2,
                 tol=None, nmin=1, bind=None, inf_p=0.1, exotic_ids_p=0.15):
    n = rng.randint(nmin, nmax)
    layout = rng.choice(["zero", "three", "three", "arb"])
    hetero_v = rng.random() < 0.6
    v0 = rng.choice(VOLTAGES)
    stations = []
    for i in range(n):
        if layout == "zero":
            ph = 0
        elif layout == "three":
            ph = PHASES3[i % 3] if rng.random() < 0.8 else rng.choice(PHASES3)
        else:
            ph = round(rng.uniform(-180, 180), 1)
        stations.append({
            "id": f"s{i}",
            "evse": rand_evse(rng, kinds),
            "voltage": rng.choice(VOLTAGES) if hetero_v else v0,
            "phase": ph,
        })
    if rng.random() < exotic_ids_p:
        # station ids as real sites have them: numeric-looking strings, dashes, spaces, dots, non-ASCII
        style = rng.choice(["num", "dash", "space", "uni", "long"])
        for i, s_ in enumerate(stations):
            s_["id"] = {"num": f"{i + 1:02d}", "dash": f"CA-{300 + 7 * i}", "space": f"st {i}.a", "uni": f"stä{i}·β",
                        "long": f"2-39-{78 + i}-{360 + i}"}[style]
    rng.shuffle(stations)
    ids = [s["id"] for s in stations]
    cons = []
    if rng.random() >= constraint_free_p:
        style = rng.choice(["agg", "agg", "deltawye", "sparse"])
        if bind is None:
            bind = rng.random() < 0.6
        tot = sum(min(evse_max(s["evse"]), 80) for s in stations)
        if style == "agg":
            lim = (rng.uniform(0.2, 0.8) if bind else rng.uniform(1.5, 3)) * tot
            cons.append({"name": "agg", "coeffs": {i: 1 for i in ids}, "limit": math.floor(lim) + 0.37})
            if n >= 3 and rng.random() < 0.5:
                sub = rng.sample(ids, rng.randint(1, n - 1))
                t2 = sum(min(evse_max(s["evse"]), 80) for s in stations if s["id"] in sub)
                cons.append({"name": "pod", "coeffs": {i: 1 for i in sub},
                             "limit": math.floor((rng.uniform(0.3, 0.9) if bind else 2) * t2) + 0.37})
        elif style == "deltawye":
            groups = {p: [s["id"] for s in stations if s["phase"] == p] for p in PHASES3}
            if layout != "three":
                for s in stations:
                    groups[rng.choice(PHASES3)].append(s["id"])
                groups = {p: sorted(set(g)) for p, g in groups.items()}
            ab, bc, ca = groups[30], groups[-90], groups[150]

            def line(pos, neg):
                c = {}
                for i in pos:
                    c[i] = c.get(i, 0) + 1
                for i in neg:
                    c[i] = c.get(i, 0) - 1
                return {k: v for k, v in c.items() if v != 0}

            lim = (rng.uniform(0.25, 0.8) if bind else 3) * tot / 1.5
            for nm, (p, q) in zip("abc", [(ab, ca), (bc, ab), (ca, bc)]):
                c = line(p, q)
                if c:
                    cons.append({"name": f"sec_{nm}", "coeffs": c, "limit": math.floor(lim) + 0.37})
            if cons and rng.random() < 0.5:
                a = cons[0]["coeffs"]
                b = cons[-1]["coeffs"]
                pc = {k: 0.25 * (a.get(k, 0) - b.get(k, 0)) for k in set(a) | set(b)}
                pc = {k: v for k, v in pc.items() if v != 0}
                if pc:
                    cons.append({"name": "prim_a", "coeffs": pc, "limit": math.floor(lim / 2.2) + 0.37})
        else:
            for j in range(rng.randint(1, 4)):
                sub = rng.sample(ids, rng.randint(1, n))
                c = {i: rng.choice([1, -1, 0.5, -0.5, 0.25, round(rng.uniform(-1.5, 1.5), 2) or 1]) for i in sub}
                lim = (rng.uniform(0.15, 0.7) if bind else 3) * sum(
                    abs(c[s["id"]]) * min(evse_max(s["evse"]), 80) for s in stations if s["id"] in c)
                cons.append({"name": f"c{j}", "coeffs": c, "limit": math.floor(lim) + 1.37})
    if cons and rng.random() < inf_p:
        # a monitoring-only constraint with an infinite limit, registered at a random position among the others
        sub = rng.sample(ids, rng.randint(1, n))
        cons.insert(rng.randint(0, len(cons)), {"name": "monitor", "coeffs": {i: rng.choice([1, 1, -1, 0.5]) for i in sub}, "limit": math.inf})
    return {"stations": stations, "constraints": cons, "tol": tol}


# ---------------------------------------------------------------- batteries
def rand_battery(rng, request, kinds=("ideal", "l2c", "l2s"), noise_p=0.0, big=False):
    k = rng.choice(kinds)
    if big:
        return {"t": "ideal", "cap": 1e6, "init": 0, "maxp": 1e4}
    if k == "user":
        free = request * rng.choice([1.0, 1.2, 3.0]) + rng.choice([0, 0.5])
        init = rng.choice([0, 5, 20])
        return {"t": "user", "cap": max(init + free, 0.5), "init": init, "maxp": rng.choice([3.3, 6.6, 11, 50])}
    # (room in the battery: exactly the request, more, or - one in nine - LESS than the request: such a car fills up with its
    # demand still unmet and stays a connected, unsatisfied session until it leaves)
    free = request * rng.choice([1.0, 1.0, 1.2, 3.0, 1.0, 1.0, 1.2, 3.0, 0.6]) + rng.choice([0, 0, 0.5])
    init = rng.choice([0, 0, 5, 20, 60])
    cap = init + free
    if cap <= 0:
        cap = 0.5  # (a zero request must not produce a zero-capacity battery)
    if k != "ideal" and rng.random() < 0.5:
        # start inside / near the rampdown region
        cap = max(cap, 10)
        init = cap - free if cap - free >= 0 else 0
    maxp = rng.choice([1.5, 3.3, 6.6, 7, 11, 20, 50])
    if k == "ideal":
        return {"t": "ideal", "cap": cap, "init": init, "maxp": maxp}
    return {
        "t": "l2", "cap": cap, "init": init, "maxp": maxp,
        "noise": rng.choice([0.2, 1.0, 3.0]) if rng.random() < noise_p else 0,
        "tsoc": rng.choice([0.8, 0.8, 0.5, 0.2, 0.95, 0.0]),
        "calc": "continuous" if k == "l2c" else "stepwise",
    }


# ----------------------------------------------------------------- sessions
def rand_sessions(rng, net, nmax=7, horizon=30, bkinds=("ideal", "l2c", "l2s"), noise_p=0.0,
                  big=False, sid_style="x", back_to_back_p=0.4, simultaneous_p=0.3, stay_scale=1):
    ids = [s["id"] for s in net["stations"]]
    busy = {i: 0 for i in ids}
    out = []
    n = rng.randint(1, nmax)
    t_common = rng.randint(0, max(0, horizon // 3))
    for k in range(n):
        st = rng.choice(ids)
        if rng.random() < simultaneous_p and busy[st] <= t_common:
            a = t_common
        elif rng.random() < back_to_back_p:
            a = busy[st]
        else:
            a = busy[st] + rng.choice([0, 1, 2, 3, 5])
        d = a + rng.choice([1, 1, 2, 3, 4, 6, 9]) * (rng.choice([1, stay_scale]) if stay_scale != 1 else 1)
        if a >= horizon:
            continue
        busy[st] = d
        req = rng.choice([0.0005, 0.02, 0.3, 1, 3, 8, 25, 60])
        if big:
            req = 1e5  # probe sessions: never satisfied, never battery-limited
        elif rng.random() < 0.04:
            req = 0.0  # a car that plugged in without needing charge (kWhDelivered == 0 in the data)
        if sid_style == "x":
            sid = f"x{k}"
        elif sid_style == "other_station":
            sid = rng.choice([i_ for i_ in ids if i_ != st] or ids) if rng.random() < 0.5 else f"x{k}"
            if any(o["id"] == sid for o in out):
                sid = f"x{k}"
        else:
            sid = st if not any(o["id"] == st for o in out) else f"x{k}"
        est = d if rng.random() < 0.6 else max(a + 1, d + rng.choice([-2, -1, 1, 3, 10]))
        out.append({"id": sid, "station": st, "arrival": a, "departure": d, "requested": req,
                    "est_dep": est, "battery": rand_battery(rng, req, bkinds, noise_p, big)})
    if out and all(o["requested"] == 0 for o in out):
        out[0]["requested"] = 1.0
        out[0]["battery"] = rand_battery(rng, 1.0, bkinds, noise_p, big)
    rng.shuffle(out)
    return out


def dense_sessions(rng, net, sid_other_p=0.1):
    """Many simultaneously connected sessions: about one per station, staggered (mostly distinct) arrivals, long stays,
    distinct estimated departures — so that sessions compete for the constraints (C07/C08)."""
    stn = [x["id"] for x in net["stations"]]
    rng.shuffle(stn)
    arrivals = rng.sample(range(0, len(stn) + 3), len(stn))
    used, sessions = set(), []
    for k, sid_ in enumerate(stn):
        if rng.random() < 0.12 and len(stn) > 2 and k > 0:
            continue
        a = arrivals[k] if rng.random() < 0.85 else rng.choice(arrivals)
        dep = a + rng.randint(4, 16)
        est = dep + rng.choice([0, 0, 1, 3, -1, -2])
        while est in used or est <= a:
            est += 1
        used.add(est)
        req = rng.choice([0.3, 1, 3, 8, 25, 25])
        b = rand_battery(rng, req, ("ideal", "ideal", "l2c"))
        b["cap"] = max(b["cap"], b["init"] + req + 1)
        name = f"x{k}" if rng.random() > 2 * sid_other_p else (rng.choice(stn) if rng.random() < 0.5 else f"y{k}")
        if any(o["id"] == name for o in sessions):
            name = f"x{k}"
        sessions.append({"id": name, "station": sid_, "arrival": a, "departure": dep, "requested": req, "est_dep": est, "battery": b})
        if rng.random() < 0.35:
            # the station is used again by a second session (back-to-back or after a gap): state left behind by the first
            # occupant (cached limits, estimator entries, stale pilots) must not leak into the second
            a2 = dep + rng.choice([0, 0, 1, 3])
            dep2 = a2 + rng.randint(3, 10)
            est2 = dep2 + rng.choice([0, 1, -1])
            while est2 in used or est2 <= a2:
                est2 += 1
            used.add(est2)
            req2 = rng.choice([1, 8, 25, 25])
            b2 = rand_battery(rng, req2, ("ideal", "ideal", "l2c"))
            b2["cap"] = max(b2["cap"], b2["init"] + req2 + 1)
            sessions.append({"id": f"r{k}", "station": sid_, "arrival": a2, "departure": dep2, "requested": req2, "est_dep": est2,
                             "battery": b2})
    rng.shuffle(sessions)
    return sessions


def rand_edits(rng, net, horizon):
    """Mid-run edits of the constraint set (ChargingNetwork.update_constraint): tighten / loosen a limit, or re-wire a
    constraint to cover one more station, keeping its name. Applied after period `after`, i.e. in force from after+1."""
    cons = [c for c in net["constraints"] if c["limit"] != math.inf]
    if not cons:
        return []
    ids = [s["id"] for s in net["stations"]]
    out = []
    if len(ids) >= 2 and rng.random() < 0.5:
        # make one station start out covered by no constraint at all (it may be wired into one later)
        z = rng.choice(ids)
        if all(len([k for k in c["coeffs"] if k != z]) >= 1 for c in net["constraints"]):
            for c in net["constraints"]:
                c["coeffs"].pop(z, None)
    uncovered = [i for i in ids if not any(i in c["coeffs"] for c in net["constraints"])]
    for _ in range(rng.randint(1, 2)):
        c = rng.choice(cons)
        co = dict(c["coeffs"])
        if rng.random() < 0.6:
            free = [i for i in uncovered if i not in co] or [i for i in ids if i not in co]
            if free:
                co[rng.choice(free)] = 1
        lim = math.floor(c["limit"] * rng.choice([0.4, 0.6, 0.6, 1.5])) + 0.37
        out.append({"after": rng.randint(0, max(0, horizon - 2)), "name": c["name"], "coeffs": co, "limit": max(lim, 1.37)})
    return sorted(out, key=lambda e: e["after"])


def network_at(net, edits, t):
    """The network descriptor in force during period t, given the edits."""
    cons = [dict(c) for c in net["constraints"]]
    for e in edits or []:
        if e["after"] < t:
            cons = [c for c in cons if c["name"] != e["name"]] + [{"name": e["name"], "coeffs": dict(e["coeffs"]), "limit": e["limit"]}]
    return dict(net, constraints=cons)


# --------------------------------------------------------------- schedulers
SORTS = ["fcfs", "lcfs", "edf", "llf", "lrpt"]


def rand_scripted(rng, **kw):
    d = {"kind": "scripted", "mr": rng.choice([None, 1, 2, 5]), "seed": rng.randrange(1 << 30), "t0": 0,
         "p_empty": 0.15, "max_len": rng.choice([1, 3, 5]), "p_st": rng.choice([0.5, 0.8, 1.0]), "mode": "random"}
    d.update(kw)
    return d


def rand_sorted(rng, **kw):
    d = {"kind": "sorted", "algo": rng.choice(["greedy", "rr"]), "sort": rng.choice(SORTS),
         "est": rng.choice([None, None, "rampdown", "fixed"]), "unint": rng.random() < 0.4,
         "inc": rng.choice([0.1, 0.5, 1, 0.25, 0.125, 0.15, 0.3, 1.5, 0.05, 2, 0.75]), "over": rng.random() < 0.08,
         # half of the callers leave out every option whose value is the documented default (the defaults are part of the API)
         "terse": rng.random() < 0.5}
    d.update(kw)
    return d


def scripted_schedule(sd, net, t):
    """Pure function (descriptor, period) -> schedule dict with varied python types.

    Depends on the station *ids* only (never on registration order), so that the
    C10 permutation relations apply to it. Returns (schedule, plain) where plain
    is {station: [float,...]} for the oracle.
    """
    rel = t - sd.get("t0", 0)
    if rel < 0:  # before the scenario's origin (only reachable in time-shifted runs, C10)
        return {}, {}
    r0 = random.Random(f"{sd['seed']}:{rel}")
    stations = {s["id"]: s for s in net["stations"]}
    if sd.get("mode") == "full":
        plain = {i: [float(evse_max(s["evse"]) if evse_max(s["evse"]) != float("inf") else 64.0)] * int(sd.get("full_len", 1))
                 for i, s in stations.items()}
        return {k: list(v) for k, v in plain.items()}, plain
    if sd.get("mode") == "allrand":
        # every station, fixed length, fresh random valid pilots each period (same keys and row length every time)
        L = sd.get("max_len", 1)
        plain = {i: [float(valid_pilot(stations[i]["evse"], random.Random(f"{sd['seed']}:{rel}:{i}:{j}"))) for j in range(L)]
                 for i in sorted(stations)}
        return plain, plain
    if sd.get("mode") == "one_long":
        # one plan of sd["L"] periods submitted at period sd["at"], empty schedules otherwise
        if rel != sd.get("at", 0):
            return {}, {}
        ids = sorted(stations)
        keep = [i for k, i in enumerate(ids) if k % 2 == 0] or ids[:1]
        plain = {i: [float(valid_pilot(stations[i]["evse"], random.Random(f"{sd['seed']}:{i}:{j % 53}"))) for j in range(sd["L"])] for i in keep}
        return plain, plain
    if sd.get("mode") == "cancel":
        # vehicle-to-grid style schedules on EVSEs whose range extends below zero: in most periods the pilots of the stations
        # cancel exactly (+x on one half, -x on the other), some periods are all zero, some are one-sided
        ids = sorted(stations)
        c = r0.random()
        x = r0.choice([8.0, 16.0, 5.5, 12.25])
        if c < 0.25:
            plain = {i: [0.0] for i in ids}
        elif c < 0.8:
            plain = {i: [x if k % 2 == 0 else -x] for k, i in enumerate(ids)}
            if len(ids) % 2:
                plain[ids[-1]] = [0.0]
        else:
            plain = {i: [r0.choice([x, -x, 0.0])] for i in ids}
        return {k: list(v) for k, v in plain.items()}, plain
    if r0.random() < sd.get("p_empty", 0.15):
        return {}, {}
    L = r0.randint(1, sd.get("max_len", 3))
    if sd.get("long_p", 0) and r0.random() < sd["long_p"]:
        L += r0.randint(5, 40)
    chosen = [i for i in sorted(stations) if random.Random(f"{sd['seed']}:{rel}:{i}:c").random() < sd.get("p_st", 0.8)]
    if not chosen:
        chosen = [sorted(stations)[0]]
    plain = {}
    for i in chosen:
        ri = random.Random(f"{sd['seed']}:{rel}:{i}")
        plain[i] = [float(valid_pilot(stations[i]["evse"], ri)) for _ in range(L)]
    return plain, plain


def typed_schedule(plain, rng, np=None, series=True):
    """Re-express a plain schedule with int/float/numpy values, list/tuple/array rows, shuffled keys."""
    items = list(plain.items())
    rng.shuffle(items)
    out = {}
    for k, vs in items:
        row = []
        for v in vs:
            c = rng.random()
            if v == int(v) and c < 0.4:
                row.append(int(v))
            elif np is not None and c < 0.7:
                row.append(np.float64(v))
            else:
                row.append(float(v))
        c = rng.random()
        if np is not None and c < 0.08 and series:
            # a row cut out of a table: a pandas Series whose index labels are not 0..L-1 (reversed, offset, strings, repeated),
            # a float32 / integer-typed array, a non-contiguous or read-only view; a sequence is read by position
            import pandas as pd
            L = len(row)
            lab = rng.choice([list(range(L - 1, -1, -1)), list(range(5, 5 + L)), [f"t{j}" for j in range(L)], [0] * L,
                              [(j * 7) % max(L, 1) for j in range(L)]])
            out[k] = pd.Series([float(v) for v in row], index=lab)
        elif np is not None and c < 0.14:
            big = np.zeros(2 * len(row) + 1)
            big[::2][:len(row)] = row
            view = big[::2][:len(row)]
            view.flags.writeable = False
            out[k] = view
        elif np is not None and c < 0.3:
            out[k] = np.array(row, dtype=float)
        elif c < 0.5:
            out[k] = tuple(row)
        elif c < 0.54 and series:
            import collections
            out[k] = collections.deque(row)
        elif c < 0.58 and series:
            import array
            out[k] = array.array("d", [float(v) for v in row])
        else:
            out[k] = row
    if series and out and rng.random() < 0.12:
        # the mapping itself need not be a plain dict: a defaultdict (which GROWS when a missing key is read), an OrderedDict,
        # a read-only proxy, a ChainMap of two partial tables, a UserDict
        import collections
        import types
        L = len(next(iter(out.values())))
        kind = rng.choice(["defaultdict", "ordered", "proxy", "chain", "userdict"])
        if kind == "defaultdict":
            dd = collections.defaultdict(lambda: [0.0] * L)
            dd.update(out)
            out = dd
        elif kind == "ordered":
            out = collections.OrderedDict(reversed(list(out.items())))
        elif kind == "proxy":
            out = types.MappingProxyType(dict(out))
        elif kind == "chain":
            items = list(out.items())
            out = collections.ChainMap(dict(items[: len(items) // 2]), dict(items[len(items) // 2:]))
        else:
            out = collections.UserDict(out)
    return out


# ---------------------------------------------------------------- scenarios
def scenario(rng, sched="scripted", nmax=6, sess_max=7, horizon=25, kinds=("EVSE", "DB", "FR"),
             bkinds=("ideal", "l2c", "l2s"), noise_p=0.0, constraint_free_p=0.2, big=False,
             sid_style="x", recompute_p=0.4, bind=None, period=None, inf_evse_p=0.06, deep=None, odd_ids_p=0.07, int_type_p=0.1,
             **skw):
    if deep is None:
        deep = TIER == "thorough" and rng.random() < 0.15
    if deep:
        # deeper, not only more: up to three times the stations, four times the sessions, and (where the caller did not fix
        # the horizon) runs of up to 150 periods
        nmax, sess_max = min(24, nmax * 3), sess_max * 4
        if horizon == 25:
            horizon = rng.choice([60, 150])
    net = rand_network(rng, nmax=nmax, kinds=kinds, constraint_free_p=constraint_free_p, bind=bind)
    if sched in ("scripted", "uncontrolled") and rng.random() < inf_evse_p:
        # stations built as the library's default EVSE (no upper end: max_rate = inf); the uncontrolled baseline then sends an
        # infinite pilot, and the network's limit arrays hold inf
        for s_ in net["stations"]:
            if s_["evse"]["t"] == "EVSE" and rng.random() < 0.7:
                s_["evse"] = dict(s_["evse"], max=float("inf"))
    sessions = rand_sessions(rng, net, nmax=sess_max, horizon=horizon, bkinds=bkinds, noise_p=noise_p,
                             big=big, sid_style=sid_style, stay_scale=(horizon // 20 if deep and horizon > 25 else 1))
    if not sessions:
        st = net["stations"][0]["id"]
        sessions = [{"id": "x0", "station": st, "arrival": 0, "departure": 2, "requested": 1.0, "est_dep": 2,
                     "battery": rand_battery(rng, 1.0, bkinds, noise_p, big)}]
    last = max(s["departure"] for s in sessions)
    rec = []
    if rng.random() < recompute_p:
        rec = sorted(rng.randint(0, last + 3) for _ in range(rng.randint(1, 3)))
    if sched == "scripted":
        sd = rand_scripted(rng, **skw)
    elif sched == "sorted":
        sd = rand_sorted(rng, **skw)
    elif sched == "uncontrolled":
        sd = {"kind": "uncontrolled"}
    else:
        sd = dict(sched)
    start = [2020, rng.randint(1, 12), rng.randint(1, 28), rng.randint(0, 23), rng.choice([0, 15, 30, 45])]
    if rng.random() < 0.15:
        # a start off the minute grid (datetime.now(), a measured connection time): seconds and microseconds
        start += [rng.choice([0, 29, 59]), rng.choice([0, 1, 250000, 750000, 999999])]
    d = {
        "period": period if period is not None else rng.choice(PERIODS),
        "start": start,
        "network": net, "sessions": sessions, "recompute": rec, "scheduler": sd,
        "np_seed": rng.randrange(1 << 30),
        "verbose": rng.random() < 0.15,
    }
    rng2 = random.Random(rng.randrange(1 << 40))  # (a second stream: the options below must not shift the scenarios drawn above)
    if rng2.random() < odd_ids_p:
        odd_ids(rng2, d)
    if rng2.random() < 0.1:
        # voltages and phase angles as elements of a narrow numpy table (a wiring sheet read with an economical dtype); a value
        # the type cannot hold exactly is handed over as it is
        net["num_type"] = {"phase": rng2.choice(["int8", "int16", "float16", "float32", "int32"]),
                           "voltage": rng2.choice(["int16", "uint16", "uint8", "float32", "float16", "int32"])}
    if rng2.random() < 0.12:
        d["events_as"] = rng2.choice(["tuple", "generator", "iter", "map", "deque", "dict_values"])
    if rng2.random() < int_type_p:
        # period indices as they come out of a numpy table / a pandas column: numpy integer scalars.  Signed ones only: with
        # unsigned indices the library's own differences (estimated departure - now, arrival - now) wrap around for an overdue
        # or already arrived car on the unchanged tree, i.e. the input class is outside what the code supports (DESIGN 13)
        d["int_type"] = rng2.choice(["int16", "int32", "int64", "int8" if last < 100 else "int64"])
    return d


ODD_STATION_IDS = ["", " ", "0", "10", "2", "02", "st", "ST", "st ", " st", "\u00e9v-1", "\u96fb-2", "a/b", "a.b", "x" * 300, "None", "nan", "-1", "1e3",
                   "{0}", "%s", "PS-001\n", "\t"]


def odd_ids(rng, d):
    """Rename stations, sessions and constraints of a descriptor with identifiers that are legal strings but unusual: empty,
    blank, numeric-looking ("10" sorts before "2"), differing only by case or surrounding white space, non-ASCII, very long,
    spelled like None / nan / a format template.  Consistent renaming: the scenario is otherwise the same."""
    st_ids = [s["id"] for s in d["network"]["stations"]]
    pool = list(ODD_STATION_IDS)
    rng.shuffle(pool)
    stmap = {old: pool[i] if i < len(pool) else old for i, old in enumerate(st_ids)}
    spool = ["", "0", "7", "12", "007", " ", "s", "S", "s ", "\u00fc", "None", "y" * 300, "{0}", "%d"]
    rng.shuffle(spool)
    smap = {s["id"]: (spool[i] if i < len(spool) else s["id"]) for i, s in enumerate(d["sessions"])}
    # a session id may equal a station id (the two name spaces are independent), but keep each space duplicate-free
    for s in d["network"]["stations"]:
        s["id"] = stmap[s["id"]]
    cpool = ["", " ", "0", "c", "C", "_const_0", "_const_1", "x_v2", "\u00e7", "None"]
    rng.shuffle(cpool)
    for i, c in enumerate(d["network"]["constraints"]):
        c["coeffs"] = {stmap[k]: v for k, v in c["coeffs"].items()}
        if i < len(cpool):
            c["name"] = cpool[i]
    for s in d["sessions"]:
        s["station"] = stmap[s["station"]]
        s["id"] = smap[s["id"]]
    if "hold_back" in d:
        d["hold_back"] = [smap[x] for x in d["hold_back"]]
    d["odd_ids"] = True
    return d
