"""Shared helpers for simulation-based properties: traced runs and the interval model."""
from . import build
from .monitors import SimProbe


def last_event_ts(desc, shift=0):
    ts = [s["departure"] for s in desc["sessions"]] + list(desc.get("recompute", []))
    return max(ts) + shift


def run_traced(desc, snapshots=True, scheduler=None, step_margin=3, **kw):
    sim, evs = build.build_sim(desc, scheduler=scheduler, **kw)
    probe = SimProbe(sim, snapshots=snapshots)
    probe.step_limit = last_event_ts(desc, kw.get("shift", 0)) + 1 + step_margin
    probe.attach()
    probe.run()
    probe.detach()
    return sim, evs, probe


def install_edits(sim, edits):
    """Apply descriptor edits to the live network at the end of the given periods (public update_constraint)."""
    from acnportal.acnsim.network import Current
    from .monitors import Wrap
    if not edits:
        return None
    pending = sorted(edits, key=lambda e: e["after"])
    net = sim.network

    def after(ctx, result, exc):
        while pending and pending[0]["after"] <= sim.iteration:
            e = pending.pop(0)
            if e["name"] in net.constraint_index:
                net.update_constraint(e["name"], Current(dict(e["coeffs"])), e["limit"])

    return Wrap(net, "post_charging_update", after=after).install()


def occupant_model(desc):
    """{station: [(arrival, departure, session_id), ...]} from the descriptor alone."""
    out = {s["id"]: [] for s in desc["network"]["stations"]}
    for s in desc["sessions"]:
        out[s["station"]].append((s["arrival"], s["departure"], s["id"]))
    return out


def occupant_at(model, st, t):
    for a, d, sid in model[st]:
        if a <= t < d:
            return sid
    return None


def event_times(desc):
    ts = set(desc.get("recompute", []))
    for s in desc["sessions"]:
        ts.add(s["arrival"])
        ts.add(s["departure"])
    return ts


def expected_invocations(desc, T, default_mr=1):
    """Periods in which the scheduler must run (C05 model).  `default_mr`: the recompute interval a library algorithm carries when
    the descriptor sets none (read from the live scheduler object by the caller)."""
    mr = desc["scheduler"].get("mr") if desc["scheduler"]["kind"] == "scripted" else (desc["scheduler"].get("mr") or default_mr)
    evt = event_times(desc)
    out, last = [], None
    for t in range(T):
        if t in evt or (mr is not None and (last is None or t - last >= mr)):
            out.append(t)
            last = t
    return out


def run_repo_suite_monitored(prop_id, obs, timeout=900):
    """Run the repository's own offline tests as a workload under the class-level monitors of `prop_id`
    (vlib/suite_plugin.py) and merge what the monitors saw into `obs` (events prefixed 'suite:')."""
    import json
    import os
    import subprocess
    import tempfile
    from . import env
    fd, out = tempfile.mkstemp(prefix="suite_", suffix=".json", dir=os.path.join(env.VERIF, ".work"))
    os.close(fd)
    e = dict(os.environ)
    e["PYTHONPATH"] = env.VERIF + os.pathsep + env.REPO
    e["PYTHONDONTWRITEBYTECODE"] = "1"
    e["VERIF_SUITE_PROPS"] = prop_id
    e["VERIF_SUITE_OUT"] = out
    cmd = [env.PYTHON, "-m", "pytest", "-q", "-x", "-p", "vlib.suite_plugin", "-p", "no:cacheprovider", "--timeout=900",
           "--continue-on-collection-errors", "--deselect", "tests/test_integration.py::TestIntegration"]
    try:
        r = subprocess.run(cmd, cwd=env.REPO, env=e, capture_output=True, text=True, timeout=timeout)
    except subprocess.TimeoutExpired:
        obs.ev("suite_workload_timed_out")
        return None
    try:
        with open(out) as f:
            data = json.load(f)
    except Exception:
        obs.ev("suite_workload_no_report")
        return None
    finally:
        try:
            os.remove(out)
        except OSError:
            pass
    d = data.get(prop_id, {})
    for k, v in d.get("events", {}).items():
        obs.ev("suite:" + k, v)
    obs.boundary += d.get("boundary", 0)
    for v in d.get("viol", []):
        obs.violate("suite:" + v["kind"], "while the repository's own tests ran: " + v["detail"], **(v.get("witness") or {}))
    obs.ev("suite_workload_runs")
    obs.ev("suite_tests_collected", data.get("_tests_collected") or 0)
    return data
