"""Shared helpers for simulation-based properties: traced runs and the interval model."""
from . import build
from .monitors import SimProbe


def last_event_ts(desc, shift=0):
    ts = [s["departure"] for s in desc["sessions"]] + list(desc.get("recompute", []))
    return max(ts) + shift


def run_traced(desc, snapshots=True, scheduler=None, step_margin=3, **kw):
    sim, evs = build.build_sim(desc, scheduler=scheduler, **kw)
    probe = SimProbe(sim, snapshots=snapshots)
    probe.step_limit = last_event_ts(desc, kw.get("shift", 0)) + 1 + step_margin
    probe.attach()
    probe.run()
    probe.detach()
    return sim, evs, probe


def occupant_model(desc):
    """{station: [(arrival, departure, session_id), ...]} from the descriptor alone."""
    out = {s["id"]: [] for s in desc["network"]["stations"]}
    for s in desc["sessions"]:
        out[s["station"]].append((s["arrival"], s["departure"], s["id"]))
    return out


def occupant_at(model, st, t):
    for a, d, sid in model[st]:
        if a <= t < d:
            return sid
    return None


def event_times(desc):
    ts = set(desc.get("recompute", []))
    for s in desc["sessions"]:
        ts.add(s["arrival"])
        ts.add(s["departure"])
    return ts


def expected_invocations(desc, T):
    """Periods in which the scheduler must run (C05 model)."""
    mr = desc["scheduler"].get("mr") if desc["scheduler"]["kind"] == "scripted" else 1
    evt = event_times(desc)
    out, last = [], None
    for t in range(T):
        if t in evt or (mr is not None and (last is None or t - last >= mr)):
            out.append(t)
            last = t
    return out
