"""Method wrappers, tolerant state accessors and the simulation probe.

All observation is through public methods / attributes; private names are
read only through tolerant accessors with a public fallback (DESIGN §4 rule 1).
"""
import json
import warnings
from contextlib import contextmanager

_MISSING = object()


class Wrap:
    """Wrap `owner.name` (class or instance) with before/after callbacks.

    before(self_or_none, args, kwargs) -> ctx ; after(ctx, result, exc).
    Never swallows the wrapped method's exception; counts calls.
    """

    def __init__(self, owner, name, before=None, after=None):
        self.owner, self.name, self.before, self.after = owner, name, before, after
        self.calls = 0
        self.installed = False
        self.is_class = isinstance(owner, type)
        self._orig = _MISSING

    def install(self):
        if self.is_class:
            orig = self.owner.__dict__.get(self.name, _MISSING)
            if orig is _MISSING:
                raise AttributeError(f"{self.owner.__name__} does not define {self.name}")
            self._orig = orig
            w = self

            def wrapper(obj, *a, **k):
                w.calls += 1
                ctx = w.before(obj, a, k) if w.before else None
                try:
                    r = orig(obj, *a, **k)
                except BaseException as e:
                    if w.after:
                        w.after(ctx, None, e)
                    raise
                if w.after:
                    w.after(ctx, r, None)
                return r

            wrapper.__wrapped__ = orig
            wrapper.__name__ = getattr(orig, "__name__", self.name)
            setattr(self.owner, self.name, wrapper)
        else:
            bound = getattr(self.owner, self.name)
            self._had_inst = self.name in getattr(self.owner, "__dict__", {})
            self._orig = bound
            w = self

            def wrapper(*a, **k):
                w.calls += 1
                ctx = w.before(w.owner, a, k) if w.before else None
                try:
                    r = bound(*a, **k)
                except BaseException as e:
                    if w.after:
                        w.after(ctx, None, e)
                    raise
                if w.after:
                    w.after(ctx, r, None)
                return r

            wrapper.__wrapped__ = bound
            setattr(self.owner, self.name, wrapper)
        self.installed = True
        return self

    def remove(self):
        if not self.installed:
            return
        if self.is_class:
            setattr(self.owner, self.name, self._orig)
        else:
            if self._had_inst:
                setattr(self.owner, self.name, self._orig)
            else:
                try:
                    delattr(self.owner, self.name)
                except AttributeError:
                    pass
        self.installed = False


@contextmanager
def wrapped(*wraps):
    try:
        for w in wraps:
            w.install()
        yield wraps
    finally:
        for w in reversed(wraps):
            w.remove()


def defining_classes(base, name):
    """base and all (loaded) subclasses that define `name` in their own __dict__."""
    out, seen, todo = [], set(), [base]
    while todo:
        c = todo.pop()
        if c in seen:
            continue
        seen.add(c)
        if name in c.__dict__:
            out.append(c)
        todo.extend(c.__subclasses__())
    return out


# ---------------------------------------------------------------- accessors
def json_attrs(obj):
    """Attributes of an ACN-Sim object as written by its public to_json()."""
    with warnings.catch_warnings():
        warnings.simplefilter("ignore")
        reg = json.loads(obj.to_json())
    return reg["context_dict"][reg["id"]]["attributes"], reg


def battery_state(b):
    """(charge, capacity, max_power, power) — private names with JSON fallback."""
    charge = getattr(b, "_current_charge", _MISSING)
    cap = getattr(b, "_capacity", _MISSING)
    if charge is _MISSING or cap is _MISSING:
        attrs, _ = json_attrs(b)
        charge = next((v for k, v in attrs.items() if "current_charge" in k and "ing" not in k), None)
        cap = next((v for k, v in attrs.items() if "capacity" in k), None)
    mp = getattr(b, "max_charging_power", None)
    pw = getattr(b, "current_charging_power", None)
    return charge, cap, mp, pw


def ev_battery(ev):
    b = getattr(ev, "_battery", _MISSING)
    if b is _MISSING:
        b = getattr(ev, "battery", None)
    return b


def ev_battery_json(ev):
    """Battery attributes of an EV via a fresh public JSON dump of the EV."""
    attrs, reg = json_attrs(ev)
    bid = next((v for k, v in attrs.items() if "battery" in k), None)
    if bid is None:
        return None
    return reg["context_dict"][bid]["attributes"]


def json_charge(battr):
    if battr is None:
        return None, None
    cur = next((v for k, v in battr.items() if "current_charge" in k and "charging" not in k), None)
    init = next((v for k, v in battr.items() if "init_charge" in k), None)
    return cur, init


# ---------------------------------------------------------------- SimProbe
class StepLimitExceeded(Exception):
    """Raised by the probe when a run exceeds its bounded-progress limit (C01 termination)."""


class SimProbe:
    """Records the per-period event trace of one Simulator through public methods.

    Trace letters: U (network.unplug), P (network.plugin), S (scheduler.run),
    A (network.update_pilots), X (network.post_charging_update; also takes the
    end-of-period snapshot).
    """

    def __init__(self, sim, snapshots=True):
        self.sim = sim
        self.snapshots = snapshots
        self.trace = []      # (iteration, letter, info)
        self.snaps = []      # per period dicts
        self.sched_calls = []  # (iteration, returned schedule (plain floats) or exception repr)
        self.warnings = []
        self.exception = None
        self.steps = 0
        self.step_limit = None
        self._wraps = []

    def attach(self):
        sim, net = self.sim, self.sim.network
        T = self.trace

        def rec(letter, info_fn=None):
            def before(_o, a, k):
                T.append((sim.iteration, letter, info_fn(a, k) if info_fn else None))
            return before

        self._wraps = [
            Wrap(net, "plugin", before=rec("P", lambda a, k: getattr(a[0] if a else k.get("ev"), "session_id", None))),
            Wrap(net, "unplug", before=rec("U", lambda a, k: (a[1] if len(a) > 1 else k.get("session_id")))),
            Wrap(net, "update_pilots", before=rec("A")),
            Wrap(net, "post_charging_update", after=self._after_x),
        ]
        if sim.scheduler is not None:
            self._wraps.append(Wrap(sim.scheduler, "run", before=rec("S"), after=self._after_s))
        for w in self._wraps:
            w.install()
        return self

    def detach(self):
        for w in reversed(self._wraps):
            w.remove()
        self._wraps = []

    def _after_s(self, ctx, result, exc):
        t = self.sim.iteration
        if exc is not None:
            self.sched_calls.append((t, None, repr(exc)))
            return
        plain = None
        try:
            plain = {k: [float(x) for x in v] for k, v in result.items()}
        except Exception:
            plain = None
        self.sched_calls.append((t, plain, None))

    def _after_x(self, ctx, result, exc):
        sim = self.sim
        t = sim.iteration
        self.trace.append((t, "X", None))
        self.steps += 1
        if self.step_limit is not None and self.steps > self.step_limit:
            raise StepLimitExceeded(f"{self.steps} periods simulated, bound {self.step_limit}")
        if not self.snapshots:
            return
        net = sim.network
        occ = {}
        for st in net.station_ids:
            ev = net.get_ev(st)
            occ[st] = ev.session_id if ev is not None else None
        energy = {sid: ev.energy_delivered for sid, ev in sim.ev_history.items()}
        rates = sim.charging_rates[:, t].copy() if t < sim.charging_rates.shape[1] else None
        pilots = sim.pilot_signals[:, t].copy() if t < sim.pilot_signals.shape[1] else None
        self.snaps.append({"t": t, "occ": occ, "energy": energy, "rates": rates, "pilots": pilots,
                           "peak": sim.peak})

    def run(self, max_steps=None):
        """sim.run() with warnings and exception captured. Returns the exception or None."""
        self.exception = None
        with warnings.catch_warnings(record=True) as w:
            warnings.simplefilter("always")
            try:
                self.sim.run()
            except Exception as e:  # recorded, judged by the property
                self.exception = e
        self.warnings.extend(w)
        return self.exception

    def period_strings(self):
        """{iteration: 'UUPPSAX'} in order of occurrence."""
        out = {}
        for t, letter, _ in self.trace:
            out[t] = out.get(t, "") + letter
        return out


def poke(obj, *others):
    """What any client may do with an object without meaning to change it: print it, compare it (with itself, with a copy, with
    unrelated values), hash it, test its truth value and length, look for it in a list, shallow-copy it. None of this may alter the
    object's behaviour; exceptions (unhashable, no len) are the object's right and are ignored."""
    import copy as _copy
    ops = [repr, str, lambda x: x == x, lambda x: x != x, lambda x: x == None, lambda x: x == 0, lambda x: x != "x",  # noqa: E711
           hash, bool, len, lambda x: x in [None, 1, "a"], _copy.copy, dir]
    for o in others:
        ops += [lambda x, o=o: x == o, lambda x, o=o: o == x, lambda x, o=o: x != o, lambda x, o=o: x in [o], lambda x, o=o: [o].count(x)]
    n = 0
    for f in ops:
        try:
            f(obj)
            n += 1
        except Exception:
            pass
    return n
