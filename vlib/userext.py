"""User extensions of the library's documented base classes, as a user of acnportal would write them: subclasses that override one
documented hook and inherit everything else (serialisation included).  Importable by dotted path, so that `from_json` can locate
them.  Imported lazily (acnportal must already be importable)."""
from datetime import timedelta

from acnportal.acnsim.events.event import EVEvent
from acnportal.acnsim.models import Battery, DeadbandEVSE, FiniteRatesEVSE
from acnportal.signals.tariffs.tou_tariff import TimeOfUseTariff

CABLE_A = 24
DERATE = 0.5
ONBOARD_A = 20.0
CLOCK_SHIFT_H = 8


class DeratedDeadbandEVSE(DeadbandEVSE):
    """A deadband station derated to half of its nameplate maximum: only the documented `max_rate` hook is overridden."""

    @property
    def max_rate(self):
        return DERATE * self._max_rate


class CableLimitedEVSE(FiniteRatesEVSE):
    """A finite-rate station whose cable is rated CABLE_A: levels above it stay in the list, `max_rate` reports the cable rating."""

    @property
    def max_rate(self):
        return min(max(self.allowable_rates), CABLE_A)


class OnboardLimitedBattery(Battery):
    """An ideal battery behind an on-board charger that never draws more than ONBOARD_A: only `charge` is overridden."""

    def charge(self, pilot, voltage, period):
        return super().charge(min(pilot, ONBOARD_A), voltage, period)


class LocalClockTariff(TimeOfUseTariff):
    """The simulation clock runs in UTC, the utility bills in local time: `get_tariff` and `get_demand_charge` shift the clock."""

    def get_tariff(self, date_time):
        return super().get_tariff(date_time - timedelta(hours=CLOCK_SHIFT_H))

    def get_demand_charge(self, date_time):
        return super().get_demand_charge(date_time - timedelta(hours=CLOCK_SHIFT_H))


class ValetArrival(EVEvent):
    """A user-defined arrival event derived from the documented EVEvent base: behaves as a plug-in through its event_type."""

    def __init__(self, timestamp, ev):
        super().__init__(timestamp, ev)
        self.event_type = "Plugin"
        self.precedence = 10


def minimal_pre_classes():
    """Sorted / round-robin algorithms whose documented run_preprocessing hook is overridden by a user who only wants the EVSE
    limits enforced (no estimator, no minimum rates, parent not called)."""
    from acnportal.algorithms import SortedSchedulingAlgo, RoundRobin
    from acnportal.algorithms.preprocessing import enforce_pilot_limit

    class MinimalPreSorted(SortedSchedulingAlgo):
        def run_preprocessing(self, active_sessions, infrastructure):
            return enforce_pilot_limit(active_sessions, infrastructure)

    class MinimalPreRR(RoundRobin):
        def run_preprocessing(self, active_sessions, infrastructure):
            return enforce_pilot_limit(active_sessions, infrastructure)

    return MinimalPreSorted, MinimalPreRR


def guaranteed_minimum_classes(minimum):
    """Sorted / round-robin algorithms of a user who promises every connected car a minimum current of their own choosing (not
    necessarily one of a station's levels): the documented run_preprocessing hook calls the parent and then raises each session's
    minimum rate to that value, never above the session's maximum."""
    import numpy as np
    from acnportal.algorithms import SortedSchedulingAlgo, RoundRobin

    def raise_minimum(algo, sessions):
        for s_ in sessions:
            need = float(algo.interface.remaining_amp_periods(s_))  # (never more than the car still needs in this period)
            s_.min_rates = np.minimum(np.minimum(np.maximum(np.asarray(s_.min_rates, dtype=float), float(minimum)),
                                                 np.asarray(s_.max_rates, dtype=float)), max(need, 0.0))
        return sessions

    class GuaranteedMinimumSorted(SortedSchedulingAlgo):
        def run_preprocessing(self, active_sessions, infrastructure):
            return raise_minimum(self, super().run_preprocessing(active_sessions, infrastructure))

    class GuaranteedMinimumRR(RoundRobin):
        def run_preprocessing(self, active_sessions, infrastructure):
            return raise_minimum(self, super().run_preprocessing(active_sessions, infrastructure))

    return GuaranteedMinimumSorted, GuaranteedMinimumRR
