#!/venv/bin/python
"""Which parts of acnportal do the monitored workloads execute?

usage: tools/pkgcov.py [--run] [--props C01,C02] [--dir /tmp/acn_pkgcov] [--min-missing N]

--run executes ./check <P> quick with VERIF_PKGCOV set (evidence files are rewritten as by any quick run); without it the
dumps already in --dir are merged.  Prints, per source file (tests excluded), every function with statement lines that no
workload executed: `file:function  executed/total  missing: ...`.
"""
import ast
import glob
import json
import os
import subprocess
import sys

HERE = os.path.dirname(os.path.dirname(os.path.abspath(__file__)))
a = sys.argv[1:]
d = a[a.index("--dir") + 1] if "--dir" in a else "/tmp/acn_pkgcov"
props = a[a.index("--props") + 1].split(",") if "--props" in a else [f"C{i:02d}" for i in range(1, 21)]
repo = os.environ.get("VERIF_REPO", "/repo")
if "--run" in a:
    for p in props:
        subprocess.run([os.path.join(HERE, "check"), p, "quick"], env=dict(os.environ, VERIF_PKGCOV=d), cwd=HERE,
                       stdout=subprocess.DEVNULL)
hits = {}
per_prop = {}
for p in props:
    for f in glob.glob(os.path.join(d, p, "*.json")):
        for fn, ls in json.load(open(f)).items():
            hits.setdefault(fn, set()).update(ls)
            per_prop.setdefault(fn, {}).setdefault(p, set()).update(ls)


def stmt_lines(node):
    out = set()
    for n in ast.walk(node):
        if isinstance(n, ast.stmt) and not isinstance(n, (ast.FunctionDef, ast.AsyncFunctionDef, ast.ClassDef)):
            if isinstance(n, ast.Expr) and isinstance(n.value, ast.Constant) and isinstance(n.value.value, str):
                continue  # docstring
            out.add(n.lineno)
    return out


tot_e = tot_t = 0
for root, _, files in sorted(os.walk(os.path.join(repo, "acnportal"))):
    if "tests" in root.split(os.sep):
        continue
    for f in sorted(files):
        if not f.endswith(".py"):
            continue
        path = os.path.join(root, f)
        rel = os.path.relpath(path, repo)
        tree = ast.parse(open(path).read())
        got = hits.get(rel, set())

        def visit(node, prefix):
            global tot_e, tot_t
            for ch in ast.iter_child_nodes(node):
                if isinstance(ch, ast.ClassDef):
                    visit(ch, prefix + ch.name + ".")
                elif isinstance(ch, (ast.FunctionDef, ast.AsyncFunctionDef)):
                    own = set()
                    for st in ch.body:
                        own |= stmt_lines(st) if not isinstance(st, (ast.FunctionDef, ast.ClassDef)) else set()
                    ex = own & got
                    tot_e += len(ex)
                    tot_t += len(own)
                    if own - ex:
                        print(f"{rel}:{prefix}{ch.name}  {len(ex)}/{len(own)}  missing: {sorted(own - ex)[:25]}")
                    visit(ch, prefix + ch.name + ".")

        visit(tree, "")
print(f"TOTAL statement lines inside functions executed: {tot_e}/{tot_t}")
