#!/venv/bin/python
"""Rounds j/k: record in each kept seed's meta.json the first-pass verdict (snapshot of /verif before the round), the verdict of the
strengthened check (from a tools/seedregress.py log) and what was added because of it.  usage: tools/seedmeta_j.py <seedregress log>"""
import json, os, re, sys
HERE = os.path.dirname(os.path.dirname(os.path.abspath(__file__)))
NOTES = {
 "C01_k": "C01: an arrival for an unregistered space makes run() raise; every plug-in / unplug the network carried out must be in the event history (also after run() is called again)",
 "C01_kb": "shared builder: event batches handed over as tuple / deque / dict values view / generator / iterator / map",
 "C03_k": "C03: charge sequences near the top of the float range (capacity and maximum power scaled together by 1e145..1e301)",
 "C03_kb": "C03: once, one station is sent an invalid pilot in the middle of a period; the aborted period's column is judged too",
 "C04_k": "C04: finished simulations continued with a later event; every period up to the end must have been simulated",
 "C05_kb": "shared generator: one battery in nine has less room than the request (connected, unsatisfied, full)",
 "C06_kb": "C06: schedules given to Interface.is_feasible as MappingProxyType / ChainMap / UserDict / OrderedDict / defaultdict / a user Mapping",
 "C07_k": "C07 corpus: a feeder filled to the last ampere plus a third car whose remaining demand is a few thousandths of an ampere-period (hour- and day-long periods)",
 "C07_kb": "C07: the algorithm object comes from a study that was abandoned in the middle of a call (user post-processing raised); also a transient failure followed by run() again",
 "C08_kb": "C08: user subclass promising every car a minimum current that is not a level of the finite-rate stations (documented run_preprocessing hook)",
 "C09_k": "C09: the network's public table of maximum pilots edited after setup",
 "C09_kb": "C09: the algorithm edits, in place, the infrastructure description it is handed, in every call including the failing one (C05's isolation twin caught it already)",
 "C10_k": "C10: every run of a case set up through an event batch that fails part-way and is completed by hand (C11's failing-generator leg caught it already)",
 "C11_k": "C11: user events whose serialisation fails; a dump that fails part-way must leave the queue as it was",
 "C11_kb": "C11: Event-like objects that do not derive from Event (precedences between the library's own)",
 "C13_k": "C13: a rejection in the middle of ChargingNetwork.update_pilots: the rejecting station keeps pilot, energy and battery",
 "C13_kb": "C13: finite-rate stations re-rated through the public allowable_rates attribute after their limits had been read",
 "C14_k": "C14: miniature batteries (capacity, power and pilot scaled down together by up to 1e-14, scale-free tolerances)",
 "C14_kb": "C14: a period at 0 A right after a period of charging on the same battery (reported charging power back to 0)",
 "C15_k": "C15: capacity fits at day- / week-long periods and kV / MV supplies",
 "C16_k": "C16: site factories called with an explicit EVSE voltage (ratings still judged at the nominal 208 / 120 V)",
 "C16_kb": "C16 and C06: a malformed candidate checked with generous tolerances of its own raises before the judged calls",
 "C17_kb": "C17: tariff attached after a first price query and replaced by another bundled tariff (new signals mapping) mid-run",
 "C18_kb": "C18: constraint ids given as set / frozenset / dict keys view",
 "C19_k": "C19: one car of the user's own EV class that refuses to wait (update_station_id(None) raises); the failed arrival must leave no trace",
 "C20_k": "C20: time windows also asked for as a count (count=True with min_energy)",
 "C20_kb": "C20: site names as str-Enum members and as str subclasses with their own __str__ / __format__",
}
final = {}
for line in open(sys.argv[1]):
    m = re.match(r"(\S+) (CAUGHT|MISSED|INCONCLUSIVE) (\S+) (\S+) \S+ (\d+)s kinds=(.*)", line)
    if m:
        final[m.group(1)] = {"property": m.group(3), "tier": m.group(4), "verdict": m.group(2), "kinds": eval(m.group(6))[:8], "wall_s": int(m.group(5))}
n = 0
for name, f in final.items():
    mp = os.path.join(HERE, "seeded", name, "meta.json")
    if not os.path.exists(mp):
        continue
    meta = json.load(open(mp))
    c = meta.setdefault("confirmed_here", {})
    if "first_pass_before_the_round" not in c:
        c["first_pass_before_the_round"] = c.get("checks", [])
    c["checks"] = [f]
    if name in NOTES:
        meta["strengthened"] = NOTES[name]
    json.dump(meta, open(mp, "w"), indent=1)
    n += 1
print(n, "metas updated")
