#!/venv/bin/python
"""Round j: record in each kept seed's meta.json the first-pass verdict (snapshot of /verif before the round), the verdict of the
strengthened check (from a tools/seedregress.py log) and what was added because of it.  usage: tools/seedmeta_j.py <seedregress log>"""
import json, os, re, sys
HERE = os.path.dirname(os.path.dirname(os.path.abspath(__file__)))
NOTES = {
 "C01_j": "shared generator: unusual identifiers (empty, blank, numeric-looking, case twins, non-ASCII ...) for stations, sessions, constraints in 7% of scenarios",
 "C01_jb": "C01: second simulations built from the event objects / network / scheduler of the first",
 "C02_j": "C02: discharging schedules on bidirectional stations",
 "C04_j": "scripted schedules: rows as pandas Series with reversed / offset / string / repeated labels, read-only strided views",
 "C05_j": "C05: leg on the contrib StochasticNetwork with a charge-call ledger as ground truth (C02 and C19 caught the mechanism already)",
 "C07_j": "round-robin increments 0.05 ... 2 incl. 0.25, 0.125, 0.15, 0.75",
 "C09_jb": "shared generator: digits-only session ids",
 "C10_j": "C10: relation rerun (same EV objects after reset())",
 "C11_j": "C11: a fifth of the random histories under warnings-as-errors; a raising retrieval must not consume events",
 "C12_j": "C12: every Current handed, as the same object, to a second network with other stations",
 "C12_jb": "C12: unusual names (empty, blank, '_const_N', '..._v2') and name=None",
 "C13_j": "C13: ranges 0..0, degenerate, bidirectional, negative-only",
 "C13_jb": "C13: ChargingNetwork.plugin on a space whose occupant needs nothing more",
 "C15_j": "C15: samples before the simulation start",
 "C15_jb": "C15: stay of the capacity fit as numpy integers of every width and signedness",
 "C16_j": "all workers: numpy / pandas print options and consumed random streams vary per case",
 "C16_jb": "C16: whole-ampere schedules of 8/16-bit integer and 16/32-bit float dtype",
 "C18_j": "shared generator: voltages and phase angles as narrow numpy scalars",
 "C19_j": "C19: second run on the network object of the first",
 "C19_jb": "C19: a sixth of the runs under warnings-as-errors; a raising call must leave nobody lost, doubled or waiting beside a free space",
 "C20_j": "C20: filters in python-like and MongoDB-JSON syntax with format / template characters; stand-in server evaluates both",
}
final = {}
for line in open(sys.argv[1]):
    m = re.match(r"(\S+) (CAUGHT|MISSED|INCONCLUSIVE) (\S+) (\S+) \S+ (\d+)s kinds=(.*)", line)
    if m:
        final[m.group(1)] = {"property": m.group(3), "tier": m.group(4), "verdict": m.group(2), "kinds": eval(m.group(6))[:8], "wall_s": int(m.group(5))}
n = 0
for name, f in final.items():
    mp = os.path.join(HERE, "seeded", name, "meta.json")
    if not os.path.exists(mp):
        continue
    meta = json.load(open(mp))
    c = meta.setdefault("confirmed_here", {})
    if "first_pass_before_the_round" not in c:
        c["first_pass_before_the_round"] = c.get("checks", [])
    c["checks"] = [f]
    if name in NOTES:
        meta["strengthened"] = NOTES[name]
    json.dump(meta, open(mp, "w"), indent=1)
    n += 1
print(n, "metas updated")
