#!/venv/bin/python
"""Regression over the kept BENIGN variants (benign/<round>/<P>/vN.diff): every variant is applied to a scratch worktree and the
quick tier of the property's own check and of the checks anchored in the touched files is run (tools/benigncheck.py).  An alarm
is expected only where benign/EXPECTED_ALARMS.json lists it (variants that turned out NOT to be behaviour-preserving); any other
alarm is a false alarm of a check.  usage: tools/benignregress.py [-j N] [round/P-prefix ...]; exit 1 on an unexpected alarm."""
import json, os, subprocess, sys
from concurrent.futures import ThreadPoolExecutor
HERE = os.path.dirname(os.path.dirname(os.path.abspath(__file__)))
a = sys.argv[1:]
j = int(a[a.index("-j") + 1]) if "-j" in a else 2
pref = [x for i, x in enumerate(a) if not x.startswith("-") and (i == 0 or a[i - 1] != "-j")]
exp = json.load(open(os.path.join(HERE, "benign", "EXPECTED_ALARMS.json")))
dirs = []
for rnd in sorted(os.listdir(os.path.join(HERE, "benign"))):
    d = os.path.join(HERE, "benign", rnd)
    if os.path.isdir(d):
        for p in sorted(os.listdir(d)):
            if not pref or any(f"{rnd}/{p}".startswith(x) for x in pref):
                dirs.append((f"{rnd}/{p}", os.path.join(d, p)))
def one(t):
    subprocess.run([os.path.join(HERE, "tools", "benigncheck.py"), t[1]], capture_output=True, text=True)
    return t[0], json.load(open(os.path.join(t[1], "result.json")))
bad = 0
with ThreadPoolExecutor(j) as ex:
    for name, res in ex.map(one, dirs):
        for v in res["results"]:
            for p, c in v.get("checks", {}).items():
                key = f"{name}/{v['variant']}"
                if c["verdict"] == "ALARM":
                    ok = p in exp.get(key, {}).get("checks", [])
                    print(key, p, "ALARM", c["kinds"], "(expected: " + exp[key]["why"][:80] + ")" if ok else "UNEXPECTED", flush=True)
                    bad += not ok
                elif c["verdict"] != "held":
                    print(key, p, c["verdict"], c.get("why"), flush=True)
print(f"{len(dirs)} deliveries, {bad} unexpected alarms")
sys.exit(1 if bad else 0)
