#!/venv/bin/python
"""Run checks against a mutated scratch copy of /repo (never touches /repo itself).

usage: tools/mutate.py [--revert <commit> | --patch <file.diff> | --sed <file> <old> <new>] -- PROP[,PROP..] [tier]
       with --suite also runs the repository's own tests on the mutant.
Prints one line per (mutant, property): CAUGHT / MISSED / INCONCLUSIVE, and removes the scratch worktree.
"""
import os, subprocess, sys, tempfile, shutil, time

def sh(cmd, **kw):
    return subprocess.run(cmd, shell=isinstance(cmd, str), capture_output=True, text=True, **kw)

def main():
    args = sys.argv[1:]
    suite = "--suite" in args
    if suite: args.remove("--suite")
    sep = args.index("--")
    spec, rest = args[:sep], args[sep+1:]
    props = rest[0].split(",")
    tier = rest[1] if len(rest) > 1 else "quick"
    wt = tempfile.mkdtemp(prefix="acn_mut_", dir="/tmp")
    os.rmdir(wt)
    r = sh(["git", "-C", "/repo", "worktree", "add", "-q", "--detach", wt, "HEAD"])
    if r.returncode: print(r.stderr); sys.exit(2)
    try:
        if spec[0] == "--revert":
            r = sh(f"git -C {wt} show {spec[1]} | git -C {wt} apply -R")
            label = f"revert:{spec[1]}"
        elif spec[0] == "--patch":
            r = sh(["git", "-C", wt, "apply", os.path.abspath(spec[1])])
            label = f"patch:{os.path.basename(os.path.dirname(os.path.abspath(spec[1])))}/{os.path.basename(spec[1])}"
        elif spec[0] == "--sed":
            f = os.path.join(wt, spec[1]); s = open(f).read()
            if spec[2] not in s: print("MUTANT-NOT-APPLICABLE: pattern not found", spec[2]); sys.exit(3)
            open(f, "w").write(s.replace(spec[2], spec[3], 1)); label = f"sed:{spec[1]}:{spec[2][:40]!r}->{spec[3][:40]!r}"
            r = sh("true")
        if r.returncode: print("apply failed", r.stderr); sys.exit(3)
        if suite:
            r = sh(["/verif/tools/run_suite.sh", wt]); print("  suite:", r.stdout.strip().splitlines()[-1] if r.stdout.strip() else r.stderr[-200:])
        for p in props:
            t0 = time.time()
            env = dict(os.environ, VERIF_REPO=wt)
            r = sh(["/verif/check", p, tier], env=env, cwd="/verif")
            verdict = {0: "MISSED", 1: "CAUGHT", 2: "INCONCLUSIVE"}.get(r.returncode, f"rc={r.returncode}")
            kinds = sorted({l.split("kind=")[1].split(" ")[0] for l in r.stdout.splitlines() if "kind=" in l})
            print(f"{verdict} {p} {tier} {label} {time.time()-t0:.0f}s kinds={kinds[:6]}")
            if r.returncode not in (0, 1): print(r.stdout[-800:], r.stderr[-500:])
    finally:
        sh(["git", "-C", "/repo", "worktree", "remove", "--force", wt])
        shutil.rmtree(wt, ignore_errors=True)
        # replays written for scratch runs are not evidence about /repo
main()
