#!/venv/bin/python
"""Prepare one round of BENIGN changes (false-alarm test): a scratch worktree of /repo HEAD and a prompt file per property.
usage: tools/mkbenignround.py <round tag> [--props C01,...]
For each property P: worktree /tmp/acn_ben_<r>_<P>, delivery dir /tmp/acn_benout_<r>/<P>, prompt /tmp/acn_benout_<r>/<P>.prompt.
Nothing from /verif's checks goes into the prompt."""
import json, os, subprocess, sys
HERE = os.path.dirname(os.path.dirname(os.path.abspath(__file__)))
a = sys.argv[1:]
rnd = a[0]
props = a[a.index("--props") + 1].split(",") if "--props" in a else None
tmpl = open(os.path.join(HERE, "tools", a[a.index("--tmpl") + 1] if "--tmpl" in a else "benign_prompt.tmpl")).read()
out = f"/tmp/acn_benout_{rnd}"
os.makedirs(out, exist_ok=True)
for line in open(os.path.join(HERE, "properties.jsonl")):
    rec = json.loads(line)
    pid = rec["id"]
    if props and pid not in props:
        continue
    wt = f"/tmp/acn_ben_{rnd}_{pid}"
    if not os.path.exists(wt):
        subprocess.run(["git", "-C", "/repo", "worktree", "add", "-q", "--detach", wt, "HEAD"], check=True)
    text = (tmpl.replace("WORKTREE", wt).replace("OUTDIR", f"{out}/{pid}").replace("PROPERTY", json.dumps(rec, indent=1)).replace("PID", pid))
    open(f"{out}/{pid}.prompt", "w").write(text)
    print(pid, wt, f"{out}/{pid}.prompt")
