#!/venv/bin/python
"""False-alarm test: behaviour-preserving variants of /repo (written by independent sub-agents who were given only the property
text, tools/benign_prompt.tmpl) are applied one at a time to a scratch worktree; the repository's suite must pass and then the quick
tier of the property's own check and of every check anchored in a touched file is run.  Any VIOLATION is an ALARM to be read:
either the variant is not behaviour-preserving after all (then it is a seeded defect, not a benign change) or the check demands
more than the statement (a false alarm: fix the check).

usage: tools/benigncheck.py <delivery dir> [--all-checks] [--tier quick]
prints one line per (variant, check) and writes <delivery dir>/result.json
"""
import json
import os
import re
import subprocess
import sys
import tempfile

HERE = os.path.dirname(os.path.dirname(os.path.abspath(__file__)))
a = sys.argv[1:]
ddir = os.path.abspath(a[0])
allc = "--all-checks" in a
tier = a[a.index("--tier") + 1] if "--tier" in a else "quick"
meta = json.load(open(os.path.join(ddir, "meta.json"))) if os.path.exists(os.path.join(ddir, "meta.json")) else {}
own = meta.get("property") or os.path.basename(ddir)[:3]
file_anch = {}
for line in open(os.path.join(HERE, "properties.jsonl")):
    r = json.loads(line)
    for f in r["anchors"]["files"]:
        file_anch.setdefault(f, []).append(r["id"])
ALL = [f"C{i:02d}" for i in range(1, 21)]
res = []
for v in sorted(f for f in os.listdir(ddir) if re.fullmatch(r"v\d+\.diff", f)):
    patch = os.path.join(ddir, v)
    touched = re.findall(r"^\+\+\+ b/(\S+)", open(patch).read(), re.M)
    checks = [own] + [p for f in touched for p in file_anch.get(f, []) if p != own]
    checks = ALL if allc else sorted(set(checks), key=lambda p: (p != own, p))
    wt = tempfile.mkdtemp(prefix="acn_benwt_", dir="/tmp")
    os.rmdir(wt)
    subprocess.run(["git", "-C", "/repo", "worktree", "add", "-q", "--detach", wt, "HEAD"], check=True)
    rec = {"variant": v, "touched": touched, "checks": {}}
    try:
        r = subprocess.run(["git", "-C", wt, "apply", patch], capture_output=True, text=True)
        if r.returncode:
            rec["applies"] = False
            print(own, v, "DOES NOT APPLY", r.stderr.strip()[:200], flush=True)
            res.append(rec)
            continue
        r = subprocess.run([os.path.join(HERE, "tools", "run_suite.sh"), wt], capture_output=True, text=True)
        last = (r.stdout.strip().splitlines() or [""])[-1]
        rec["suite"] = last
        ok = r.returncode == 0 and " passed" in last and "failed" not in last
        rec["suite_ok"] = ok
        if not ok:
            print(own, v, "SUITE FAILS", last, flush=True)
            res.append(rec)
            continue
        for p in checks:
            c = subprocess.run([os.path.join(HERE, "check"), p, tier], env=dict(os.environ, VERIF_REPO=wt), cwd=HERE, capture_output=True, text=True)
            kinds = sorted(set(re.findall(r"kind=(\S+)", c.stdout)))
            verdict = {0: "held", 1: "ALARM", 2: "inconclusive"}.get(c.returncode, f"rc={c.returncode}")
            rec["checks"][p] = {"verdict": verdict, "kinds": kinds[:8]}
            if c.returncode == 2:
                rec["checks"][p]["why"] = [l for l in c.stdout.splitlines() if l.startswith("INCONCLUSIVE")][:2]
            if c.returncode == 1:
                viol = [l for l in c.stdout.splitlines() if l.startswith("VIOLATION")]
                rec["checks"][p]["replay"] = viol[:1]
                # keep the first witness for reading
                m = re.search(r"replay=(\S+)", viol[0]) if viol else None
                if m and os.path.exists(m.group(1)):
                    try:
                        w = json.load(open(m.group(1)))
                        rec["checks"][p]["detail"] = str(w.get("detail") or w.get("violations", [{}])[0].get("detail"))[:600]
                    except Exception:
                        pass
            print(own, v, p, verdict, kinds[:5], flush=True)
        res.append(rec)
    finally:
        subprocess.run(["git", "-C", "/repo", "worktree", "remove", "--force", wt])
json.dump({"property": own, "results": res}, open(os.path.join(ddir, "result.json"), "w"), indent=1)
