#!/venv/bin/python
"""MANIFEST.setup_cmd: nothing to build (pure Python, stdlib + /venv packages); verify the environment."""
import os, sys
HERE = os.path.dirname(os.path.dirname(os.path.abspath(__file__)))
sys.path.insert(0, HERE)
from vlib import env
p = env.setup_repo_path()
import numpy, pandas, scipy  # noqa
for d in ("evidence", "replays", ".work"):
    os.makedirs(os.path.join(HERE, d), exist_ok=True)
print("acnportal from", p, "python", sys.version.split()[0], "numpy", numpy.__version__, "pandas", pandas.__version__)
