#!/venv/bin/python
"""Regression over the kept seeded changes: every seeded/<name>/patch.diff is applied to a scratch worktree of /repo HEAD and
the property's own quick check is run against it (tools/mutate.py).  Prints one line per seed and a summary; exit 1 if any
seed is no longer caught.  usage: tools/seedregress.py [-j N] [name-prefix ...]"""
import json, os, subprocess, sys
from concurrent.futures import ThreadPoolExecutor
HERE = os.path.dirname(os.path.dirname(os.path.abspath(__file__)))
a = sys.argv[1:]
j = int(a[a.index("-j") + 1]) if "-j" in a else 3
pref = [x for i, x in enumerate(a) if not x.startswith("-") and (i == 0 or a[i - 1] != "-j")]
names = [n for n in sorted(os.listdir(os.path.join(HERE, "seeded"))) if os.path.exists(os.path.join(HERE, "seeded", n, "patch.diff"))
         and (not pref or any(n.startswith(p) for p in pref))]
def one(n):
    prop = json.load(open(os.path.join(HERE, "seeded", n, "meta.json")))["property"]
    r = subprocess.run([os.path.join(HERE, "tools", "mutate.py"), "--patch", os.path.join(HERE, "seeded", n, "patch.diff"), "--", prop],
                       capture_output=True, text=True)
    line = [l for l in r.stdout.splitlines() if l.startswith(("CAUGHT", "MISSED", "INCONCLUSIVE", "rc=", "apply failed"))]
    return n, (line[-1] if line else (r.stdout + r.stderr)[-200:])
bad = 0
with ThreadPoolExecutor(j) as ex:
    for n, line in ex.map(one, names):
        print(n, line, flush=True)
        bad += not line.startswith("CAUGHT")
print(f"{len(names)} seeds, {bad} not caught")
sys.exit(1 if bad else 0)
