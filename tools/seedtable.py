#!/venv/bin/python
"""Regenerate seeded/README.md: which check catches which seeded change (from seeded/*/meta.json)."""
import json
import os

HERE = os.path.dirname(os.path.dirname(os.path.abspath(__file__)))
rows = []
for n in sorted(os.listdir(os.path.join(HERE, "seeded"))):
    mp = os.path.join(HERE, "seeded", n, "meta.json")
    if not os.path.exists(mp):
        continue
    m = json.load(open(mp))
    c = m.get("confirmed_here", {})
    checks = c.get("checks", [])
    verdict = "; ".join(f"{x['property']} {x['tier']}: {x['verdict']}" + (f" ({', '.join(x['kinds'][:3])})" if x.get("kinds") else "")
                        for x in checks)
    note = m.get("strengthened", "")
    rows.append((n, m.get("property", ""), (m.get("summary", "") or "").replace("|", "/").replace("\n", " ")[:260],
                 (m.get("needs_to_manifest", "") or "").replace("|", "/").replace("\n", " ")[:240], verdict, note))
out = ["# Seeded changes (written by independent sub-agents from the property text alone)", "",
       "Each directory holds `patch.diff` (apply with `git -C /repo apply`), `demo.py` (fails with the change, passes without) and",
       "`meta.json` (what it breaks, what it needs to manifest, what was run to confirm it: patch applies to /repo HEAD, the",
       "repository's 386 offline tests still pass, the demo separates the trees, and the verdict of the registered checks).", "",
       "| seed | property | change | needs to manifest | verdict of the check(s) | machinery strengthened because of it |", "|---|---|---|---|---|---|"]
for r in rows:
    out.append("| " + " | ".join(r) + " |")
open(os.path.join(HERE, "seeded", "README.md"), "w").write("\n".join(out) + "\n")
print(len(rows), "seeds")
