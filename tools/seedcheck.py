#!/venv/bin/python
"""Confirm a seeded change delivered by a sub-agent and run the checks against it.

usage: tools/seedcheck.py <delivery dir with patch.diff, demo.py, meta.json> <PROP> [--name NAME] [--props P1,P2] [--tier quick|thorough] [--keep]

Steps (all in a scratch worktree of /repo HEAD under /tmp, removed afterwards; /repo is never touched):
  1. patch applies to the current /repo HEAD
  2. the repository's offline suite still passes on the patched tree (386 passed)
  3. demo.py fails on the patched tree and passes on /repo
  4. ./check <PROP> quick (and thorough if quick misses) with VERIF_REPO=<patched tree>
With --keep (default when 1-3 hold) the delivery is copied to /verif/seeded/<NAME>/ with meta.json extended by what was run here.
"""
import json
import os
import shutil
import subprocess
import sys
import tempfile
import time

VERIF = os.path.dirname(os.path.dirname(os.path.abspath(__file__)))


def sh(cmd, **kw):
    return subprocess.run(cmd, shell=isinstance(cmd, str), capture_output=True, text=True, **kw)


def main():
    a = sys.argv[1:]
    src, prop = a[0], a[1]
    name = a[a.index("--name") + 1] if "--name" in a else os.path.basename(os.path.normpath(src))
    props = a[a.index("--props") + 1].split(",") if "--props" in a else [prop]
    tiers = [a[a.index("--tier") + 1]] if "--tier" in a else ["quick", "thorough"]
    patch = os.path.join(src, "patch.diff")
    demo = os.path.join(src, "demo.py")
    wt = tempfile.mkdtemp(prefix="acn_seedv_", dir="/tmp")
    os.rmdir(wt)
    r = sh(["git", "-C", "/repo", "worktree", "add", "-q", "--detach", wt, "HEAD"])
    if r.returncode:
        print(r.stderr)
        sys.exit(2)
    res = {"name": name, "property": prop}
    try:
        r = sh(["git", "-C", wt, "apply", os.path.abspath(patch)])
        res["applies"] = r.returncode == 0
        if r.returncode:
            print("PATCH DOES NOT APPLY:", r.stderr[:400])
            return res
        files = sh(["git", "-C", wt, "diff", "--stat"]).stdout.strip().splitlines()
        res["diffstat"] = files[-1].strip() if files else ""
        r = sh([os.path.join(VERIF, "tools", "run_suite.sh"), wt])
        last = r.stdout.strip().splitlines()[-1] if r.stdout.strip() else r.stderr[-200:]
        res["suite"] = last
        res["suite_ok"] = "386 passed" in last and "failed" not in last
        env = dict(os.environ, PYTHONDONTWRITEBYTECODE="1")
        rw = sh(["/venv/bin/python", demo], env=dict(env, PYTHONPATH=wt), cwd="/tmp", timeout=600)
        ro = sh(["/venv/bin/python", demo], env=dict(env, PYTHONPATH="/repo"), cwd="/tmp", timeout=600)
        res["demo_with_change_rc"], res["demo_without_change_rc"] = rw.returncode, ro.returncode
        res["demo_ok"] = rw.returncode != 0 and ro.returncode == 0
        print(f"{name}: applies={res['applies']} suite_ok={res['suite_ok']} ({last}) demo with/without rc={rw.returncode}/{ro.returncode}")
        res["checks"] = []
        for p in props:
            for tier in tiers:
                t0 = time.time()
                r = sh([os.path.join(VERIF, "check"), p, tier], env=dict(os.environ, VERIF_REPO=wt), cwd=VERIF)
                verdict = {0: "MISSED", 1: "CAUGHT", 2: "INCONCLUSIVE"}.get(r.returncode, f"rc={r.returncode}")
                kinds = sorted({l.split("kind=")[1].split(" ")[0] for l in r.stdout.splitlines() if "kind=" in l})
                res["checks"].append({"property": p, "tier": tier, "verdict": verdict, "kinds": kinds[:8], "wall_s": round(time.time() - t0, 1)})
                print(f"  {verdict} {p} {tier} {time.time() - t0:.0f}s kinds={kinds[:6]}")
                if r.returncode not in (0, 1):
                    print(r.stdout[-600:], r.stderr[-300:])
                if verdict == "CAUGHT":
                    break
    finally:
        sh(["git", "-C", "/repo", "worktree", "remove", "--force", wt])
        shutil.rmtree(wt, ignore_errors=True)
        shutil.rmtree(os.path.join(VERIF, "replays", prop), ignore_errors=True) if False else None
    if res.get("applies") and res.get("suite_ok") and res.get("demo_ok"):
        dst = os.path.join(VERIF, "seeded", name)
        os.makedirs(dst, exist_ok=True)
        shutil.copy(patch, os.path.join(dst, "patch.diff"))
        shutil.copy(demo, os.path.join(dst, "demo.py"))
        meta = {}
        try:
            meta = json.load(open(os.path.join(src, "meta.json")))
        except Exception:
            pass
        meta["property"] = prop
        meta["confirmed_here"] = {
            "repo_head": sh(["git", "-C", "/repo", "log", "-1", "--format=%h"]).stdout.strip(),
            "ran": ["git apply patch.diff on a scratch worktree of /repo HEAD", "tools/run_suite.sh <worktree> (repository's offline suite)",
                    "PYTHONPATH=<worktree> /venv/bin/python demo.py (must fail)", "PYTHONPATH=/repo /venv/bin/python demo.py (must pass)"] +
                   [f"VERIF_REPO=<worktree> ./check {c['property']} {c['tier']}" for c in res["checks"]],
            "suite": res["suite"], "demo_with_change_rc": res["demo_with_change_rc"], "demo_without_change_rc": res["demo_without_change_rc"],
            "checks": res["checks"],
        }
        json.dump(meta, open(os.path.join(dst, "meta.json"), "w"), indent=1)
        print(f"  kept as seeded/{name}")
    else:
        print("  NOT KEPT (a precondition failed)")
    return res


if __name__ == "__main__":
    main()
