#!/venv/bin/python
"""Systematic first-order mutation run: sensitivity of the checks to the simplest realistic slips.

usage: tools/mutants.py [--files f1,f2] [--limit N] [--jobs J] [--out /tmp/acn_mutants] [--seed S] [--checks-per-mutant K]

1. every operator / constant / call mutant of the chosen source files (AST positions, textual replacement):
     < <-> <=, > <-> >=, == <-> !=, + <-> -, * <-> /, and <-> or, min <-> max, `not x` -> `x`, abs(x) -> x,
     small integer constants +-1, True <-> False, `is None` <-> `is not None`
2. each mutant is written into one of J scratch worktrees of /repo HEAD (under /tmp, removed at the end); the repository's own
   offline suite is run with -x: mutants the suite kills are of no interest here;
3. for each SURVIVOR the quick tier of the checks whose property is anchored in that file is run with VERIF_REPO on the worktree
   (at most K checks, most specific first); one line per mutant: CAUGHT by <checks> / MISSED.
Results: <out>/results.jsonl and a summary.  Equivalent mutants show up as MISSED and have to be triaged by reading.
"""
import ast
import json
import os
import random
import subprocess
import sys
import time
from concurrent.futures import ThreadPoolExecutor

HERE = os.path.dirname(os.path.dirname(os.path.abspath(__file__)))
REPO = "/repo"
a = sys.argv[1:]
opt = lambda k, d: a[a.index(k) + 1] if k in a else d
OUT = opt("--out", "/tmp/acn_mutants")
JOBS = int(opt("--jobs", "5"))
LIMIT = int(opt("--limit", "100000"))
SEED = int(opt("--seed", "0"))
KMAX = int(opt("--checks-per-mutant", "4"))
os.makedirs(OUT, exist_ok=True)

anch = {}
for line in open(os.path.join(HERE, "properties.jsonl")):
    r = json.loads(line)
    for f in r["anchors"]["files"]:
        if f.endswith(".py"):
            anch.setdefault(f, []).append(r["id"])
files = opt("--files", None)
files = files.split(",") if files else sorted(anch)

CMP = {ast.Lt: "<=", ast.LtE: "<", ast.Gt: ">=", ast.GtE: ">", ast.Eq: "!=", ast.NotEq: "==", ast.Is: "is not", ast.IsNot: "is"}
CMPTXT = {ast.Lt: "<", ast.LtE: "<=", ast.Gt: ">", ast.GtE: ">=", ast.Eq: "==", ast.NotEq: "!=", ast.Is: "is", ast.IsNot: "is not"}
BIN = {ast.Add: ("+", "-"), ast.Sub: ("-", "+"), ast.Mult: ("*", "/"), ast.Div: ("/", "*")}


def seg(src_lines, node):
    return ast.get_source_segment("".join(src_lines), node)


def mutants_of(path):
    src = open(os.path.join(REPO, path)).read()
    tree = ast.parse(src)
    lines = src.splitlines(keepends=True)
    offs = [0]
    for ln in lines:
        offs.append(offs[-1] + len(ln.encode()))
    srcb = src.encode()

    def pos(lineno, col):
        return offs[lineno - 1] + col

    out = []

    def between(n1, n2):
        """byte span between two sibling nodes (where the operator text lives)"""
        return pos(n1.end_lineno, n1.end_col_offset), pos(n2.lineno, n2.col_offset)

    docstrings = set()
    for n in ast.walk(tree):
        if isinstance(n, (ast.FunctionDef, ast.ClassDef, ast.Module)) and n.body and isinstance(n.body[0], ast.Expr) and \
                isinstance(getattr(n.body[0], "value", None), ast.Constant) and isinstance(n.body[0].value.value, str):
            docstrings.add(id(n.body[0].value))
    for n in ast.walk(tree):
        if isinstance(n, ast.Compare):
            left = n.left
            for op, right in zip(n.ops, n.comparators):
                if type(op) in CMP:
                    s, e = between(left, right)
                    txt = srcb[s:e].decode()
                    old = CMPTXT[type(op)]
                    if old in txt:
                        out.append((s, e, txt.replace(old, CMP[type(op)], 1), f"{old} -> {CMP[type(op)]}", n.lineno))
                left = right
        elif isinstance(n, ast.BinOp) and type(n.op) in BIN:
            s, e = between(n.left, n.right)
            txt = srcb[s:e].decode()
            old, new = BIN[type(n.op)]
            if txt.count(old) == 1 and not isinstance(n.left, ast.Constant) or True:
                if old in txt and not (isinstance(n.left, ast.Constant) and isinstance(n.left.value, str)):
                    out.append((s, e, txt.replace(old, new, 1), f"{old} -> {new}", n.lineno))
        elif isinstance(n, ast.BoolOp) and len(n.values) >= 2:
            s, e = between(n.values[0], n.values[1])
            txt = srcb[s:e].decode()
            old, new = ("and", "or") if isinstance(n.op, ast.And) else ("or", "and")
            if old in txt:
                out.append((s, e, txt.replace(old, new, 1), f"{old} -> {new}", n.lineno))
        elif isinstance(n, ast.UnaryOp) and isinstance(n.op, ast.Not):
            s, e = pos(n.lineno, n.col_offset), pos(n.operand.lineno, n.operand.col_offset)
            out.append((s, e, "", "not x -> x", n.lineno))
        elif isinstance(n, ast.Call) and isinstance(n.func, ast.Name) and n.func.id in ("min", "max", "abs") and n.args:
            s, e = pos(n.func.lineno, n.func.col_offset), pos(n.func.end_lineno, n.func.end_col_offset)
            if n.func.id == "abs":
                out.append((s, e, "", "abs(x) -> (x)", n.lineno))
            else:
                out.append((s, e, "max" if n.func.id == "min" else "min", f"{n.func.id} -> other", n.lineno))
        elif isinstance(n, ast.Call) and isinstance(n.func, ast.Attribute) and n.func.attr in ("min", "max", "minimum", "maximum", "abs") and \
                isinstance(n.func.value, ast.Name) and n.func.value.id == "np":
            s, e = pos(n.func.end_lineno, n.func.end_col_offset) - len(n.func.attr), pos(n.func.end_lineno, n.func.end_col_offset)
            swap = {"min": "max", "max": "min", "minimum": "maximum", "maximum": "minimum", "abs": "asarray"}[n.func.attr]
            out.append((s, e, swap, f"np.{n.func.attr} -> np.{swap}", n.lineno))
        elif isinstance(n, ast.Constant) and id(n) not in docstrings:
            s, e = pos(n.lineno, n.col_offset), pos(n.end_lineno, n.end_col_offset)
            v = n.value
            if isinstance(v, bool):
                out.append((s, e, str(not v), f"{v} -> {not v}", n.lineno))
            elif isinstance(v, int) and -2 <= v <= 60:
                out.append((s, e, str(v + 1), f"{v} -> {v + 1}", n.lineno))
                if v != 0:
                    out.append((s, e, str(v - 1), f"{v} -> {v - 1}", n.lineno))
            elif isinstance(v, float) and v != 0:
                out.append((s, e, repr(v * 10), f"{v} -> {v * 10}", n.lineno))
    res = []
    seen = set()
    for s, e, new, what, lineno in out:
        if (s, e, new) in seen:
            continue
        seen.add((s, e, new))
        mb = srcb[:s] + new.encode() + srcb[e:]
        try:
            ast.parse(mb.decode())
        except SyntaxError:
            continue
        res.append({"file": path, "line": lineno, "what": what, "src": mb.decode(), "orig_line": lines[lineno - 1].strip()[:110]})
    return res


allm = []
for f in files:
    if os.path.exists(os.path.join(REPO, f)):
        allm += mutants_of(f)
random.Random(SEED).shuffle(allm)
allm = allm[:LIMIT]
print(f"{len(allm)} mutants over {len(files)} files", flush=True)

wts = []
for j in range(JOBS):
    wt = f"/tmp/acn_mutwt_{os.getpid()}_{j}"
    subprocess.run(["git", "-C", REPO, "worktree", "add", "-q", "--detach", wt, "HEAD"], check=True)
    wts.append(wt)
free = list(wts)
import threading
lock = threading.Lock()
resf = open(os.path.join(OUT, "results.jsonl"), "a")


def run_one(m):
    with lock:
        wt = free.pop()
    try:
        target = os.path.join(wt, m["file"])
        orig = open(target).read()
        open(target, "w").write(m["src"])
        t0 = time.time()
        env = dict(os.environ, PYTHONPATH=wt, PYTHONDONTWRITEBYTECODE="1")
        r = subprocess.run(["/venv/bin/python", "-m", "pytest", "-x", "-q", "-p", "no:cacheprovider", "--timeout=300",
                            "--deselect", "tests/test_integration.py::TestIntegration"], cwd=wt, env=env, capture_output=True, text=True)
        rec = {k: m[k] for k in ("file", "line", "what", "orig_line")}
        rec["suite"] = "survived" if r.returncode == 0 else "killed"
        rec["suite_s"] = round(time.time() - t0, 1)
        if r.returncode == 0:
            rec["checks"] = {}
            for p in anch.get(m["file"], [])[:KMAX]:
                c = subprocess.run([os.path.join(HERE, "check"), p, "quick"], env=dict(os.environ, VERIF_REPO=wt, VERIF_NPROC="6"), cwd=HERE,
                                   capture_output=True, text=True)
                rec["checks"][p] = {0: "MISSED", 1: "CAUGHT", 2: "INCONCLUSIVE"}.get(c.returncode, str(c.returncode))
                if c.returncode == 1:
                    break
            rec["verdict"] = "CAUGHT" if "CAUGHT" in rec["checks"].values() else "MISSED"
        open(target, "w").write(orig)
        with lock:
            resf.write(json.dumps(rec) + "\n")
            resf.flush()
        print(rec["file"].split("/")[-1], rec["line"], rec["what"], rec["suite"], rec.get("verdict", ""), rec.get("checks", ""), flush=True)
        return rec
    finally:
        with lock:
            free.append(wt)


try:
    with ThreadPoolExecutor(JOBS) as ex:
        recs = list(ex.map(run_one, allm))
finally:
    for wt in wts:
        subprocess.run(["git", "-C", REPO, "worktree", "remove", "--force", wt])
surv = [r for r in recs if r["suite"] == "survived"]
print(f"SUMMARY: {len(recs)} mutants, {len(recs) - len(surv)} killed by the suite, {len(surv)} survived; of those "
      f"{sum(r['verdict'] == 'CAUGHT' for r in surv)} caught by the checks, {sum(r['verdict'] == 'MISSED' for r in surv)} missed")
