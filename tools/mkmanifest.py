#!/venv/bin/python
"""Regenerate MANIFEST.json from the property modules present in props/ (META in each)."""
import importlib, json, os, sys
HERE = os.path.dirname(os.path.dirname(os.path.abspath(__file__)))
sys.path.insert(0, HERE)
props = [json.loads(l) for l in open(os.path.join(HERE, "properties.jsonl"))]
checks, na = [], []
for p in props:
    pid = p["id"]
    path = os.path.join(HERE, "props", pid.lower() + ".py")
    if not os.path.exists(path):
        na.append({"property_id": pid, "reason": "check not built yet in this round (runtime monitor designed in DESIGN.md section 6, not an inapplicability of the technique)"})
        continue
    src = open(path).read()
    ns = {}
    # META is a plain dict literal at module level: evaluate it without importing the repo
    import ast
    tree = ast.parse(src)
    meta = None
    for node in tree.body:
        if isinstance(node, ast.Assign) and any(getattr(t, "id", None) == "META" for t in node.targets):
            meta = ast.literal_eval(node.value)
        if isinstance(node, ast.Assign) and any(getattr(t, "id", None) == "LEVEL" for t in node.targets):
            level = ast.literal_eval(node.value)
    checks.append({
        "property_id": pid,
        "quick_cmd": f"./check {pid} quick",
        "thorough_cmd": f"./check {pid} thorough",
        "evidence_file": f"/verif/evidence/{pid}.json",
        "replay_cmd_template": f"./check {pid} --replay {{path}}",
        "engine": "vlib-runtime-monitor",
        "level_claimed": {"category": level, "text": meta["level_text"], "design_ref": meta["design_ref"]},
        "level_note": meta["level_note"],
        "technique": meta["technique"],
    })
man = {
    "version": 1,
    "setup_cmd": "/venv/bin/python tools/setup_check.py",
    "hooks": {
        "guard": "ACNPORTAL_VERIF",
        "enable": "no in-repository hooks: all monitors are installed from /verif by wrapping public methods at run time; checks import acnportal from /repo's working tree (VERIF_REPO overrides) and set ACNPORTAL_VERIF=1 for form only",
        "baseline_off_cmd": "cd /repo && env -u ACNPORTAL_VERIF /venv/bin/python -m pytest -ra -q -p no:cacheprovider --timeout=900 --continue-on-collection-errors",
        "source_commits": [],
        "add_only": True,
    },
    "engines": [{"name": "vlib-runtime-monitor", "path": "/verif/vlib", "serves_properties": [c["property_id"] for c in checks],
                 "kind_free_text": "runtime monitoring: seeded hostile workloads run against the real code in worker subprocesses; method-wrapper post-conditions, trace/ledger checkers, executable reference models and metamorphic relations decide each observation; sys.monitoring records which anchored statements ran"}],
    "checks": checks,
    "not_applicable": na,
    "notes": "Every check: exit 0 held on what was observed; exit 1 + 'VIOLATION property=<id> replay=<path>'; exit 2 + 'INCONCLUSIVE ...' when a deciding monitor was never reached. Known findings: /verif/known_findings.json.",
}
json.dump(man, open(os.path.join(HERE, "MANIFEST.json"), "w"), indent=1)
print("checks", len(checks), "not_applicable", len(na))
