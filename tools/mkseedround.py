#!/venv/bin/python
"""Prepare one round of independent seeding: a scratch worktree of /repo HEAD and a prompt file per property.

usage: tools/mkseedround.py <round letter> [--props C01,C02,...] [--extra <file with an extra paragraph>]

For each property P: worktree /tmp/acn_seed_<r>_<P>, delivery dir /tmp/acn_seedout_<r>/<P>_<r>, prompt
/tmp/acn_seedout_<r>/<P>.prompt.  The prompt holds the property record, the generic brief (tools/seed_prompt.tmpl) and one
sentence per change already seeded for that property (written by earlier sub-agents, not derived from the checks), so that
the new change uses a different site and mechanism.  Nothing from /verif's checks goes into the prompt.
"""
import json
import os
import subprocess
import sys

HERE = os.path.dirname(os.path.dirname(os.path.abspath(__file__)))
a = sys.argv[1:]
rnd = a[0]
props = a[a.index("--props") + 1].split(",") if "--props" in a else None
extra = open(a[a.index("--extra") + 1]).read() if "--extra" in a else ""
tmpl = open(os.path.join(HERE, "tools", "seed_prompt.tmpl")).read()
recs = {}
for line in open(os.path.join(HERE, "properties.jsonl")):
    r = json.loads(line)
    recs[r["id"]] = r
out = f"/tmp/acn_seedout_{rnd}"
os.makedirs(out, exist_ok=True)
for pid, rec in recs.items():
    if props and pid not in props:
        continue
    wt = f"/tmp/acn_seed_{rnd}_{pid}"
    if not os.path.exists(wt):
        subprocess.run(["git", "-C", "/repo", "worktree", "add", "-q", "--detach", wt, "HEAD"], check=True)
    prev = []
    for n in sorted(os.listdir(os.path.join(HERE, "seeded"))):
        mp = os.path.join(HERE, "seeded", n, "meta.json")
        if n.startswith(pid + "_") and os.path.exists(mp):
            m = json.load(open(mp))
            prev.append(f"  - {m.get('summary', '')[:500]}")
    text = (tmpl.replace("WORKTREE", wt).replace("OUTDIR", f"{out}/{pid}_{rnd}")
            .replace("PROPERTY", json.dumps(rec, indent=1)).replace("PID", pid))
    if prev:
        text += ("\n\nChanges ALREADY written by others for this property (do NOT repeat any of them; choose a different code site "
                 "AND a different mechanism, preferably a different clause of the property):\n" + "\n".join(prev) + "\n")
    if extra:
        text += "\n" + extra + "\n"
    open(f"{out}/{pid}.prompt", "w").write(text)
    print(pid, wt, f"{out}/{pid}.prompt", len(prev), "previous")
