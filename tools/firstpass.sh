#!/bin/sh
# First-pass verdict of a delivered seed, measured with the snapshot of /verif taken before the round (so that later
# strengthening does not flatter the number), then the kept delivery is copied into /verif/seeded.
# usage: tools/firstpass.sh <snapshot dir> <delivery dir> <PROP> <name>
SNAP=$1; D=$2; P=$3; N=$4
cd "$SNAP" || exit 2
tools/seedcheck.py "$D" "$P" --name "$N" --tier quick 2>&1 | grep -v conda.cli
if [ -d "$SNAP/seeded/$N" ]; then mkdir -p /verif/seeded/$N && cp "$SNAP/seeded/$N"/* /verif/seeded/$N/; fi
