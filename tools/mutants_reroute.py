#!/venv/bin/python
"""Second pass over tools/mutants.py results: the first pass ran at most K checks per survivor, chosen by FILE-level anchors in
property order (so a battery.py mutant never met C14, an evse.py mutant never met C13).  This pass regenerates every survivor the
first pass reports MISSED and runs the checks that fit the mutated FUNCTION: properties whose ANCHORS (props/cNN.py) name the
enclosing function or class first, then the remaining properties anchored in the file, skipping the checks already run.

usage: tools/mutants_reroute.py [--in /tmp/acn_mutants/results.jsonl] [--out /tmp/acn_mutants/reroute.jsonl] [--jobs J] [--max-checks K]
"""
import ast
import importlib.util
import json
import os
import re
import subprocess
import sys
import threading
from concurrent.futures import ThreadPoolExecutor

HERE = os.path.dirname(os.path.dirname(os.path.abspath(__file__)))
REPO = "/repo"
a = sys.argv[1:]
opt = lambda k, d: a[a.index(k) + 1] if k in a else d
IN = opt("--in", "/tmp/acn_mutants/results.jsonl")
OUT = opt("--out", "/tmp/acn_mutants/reroute.jsonl")
JOBS = int(opt("--jobs", "4"))
KMAX = int(opt("--max-checks", "5"))

# the generator of the first pass (same positions, same texts)
spec = importlib.util.spec_from_file_location("_mut", os.path.join(HERE, "tools", "mutants.py"))
src = open(os.path.join(HERE, "tools", "mutants.py")).read()
ns = {"__file__": os.path.join(HERE, "tools", "mutants.py"), "__name__": "mutants_head"}
_argv, sys.argv = sys.argv, [sys.argv[0]]
exec(compile(src.split("\nallm = []")[0], "mutants_head", "exec"), ns)  # definitions only, no run
sys.argv = _argv
mutants_of = ns["mutants_of"]

file_anch = {}
for line in open(os.path.join(HERE, "properties.jsonl")):
    r = json.loads(line)
    for f in r["anchors"]["files"]:
        file_anch.setdefault(f, []).append(r["id"])
func_anch = {}   # (file, qualname) -> [props]
for n in range(1, 21):
    s = open(os.path.join(HERE, "props", f"c{n:02d}.py")).read()
    m = re.search(r"ANCHORS\s*=\s*\[(.*?)\]", s, re.S)
    for item in re.findall(r'"([^"]+)"', m.group(1)) if m else []:
        mod, _, qual = item.partition(":")
        func_anch.setdefault((mod.replace(".", "/") + ".py", qual), []).append(f"C{n:02d}")


def enclosing(path, lineno):
    tree = ast.parse(open(os.path.join(REPO, path)).read())
    best = []

    def walk(node, chain):
        nonlocal best
        for ch in ast.iter_child_nodes(node):
            if isinstance(ch, (ast.FunctionDef, ast.AsyncFunctionDef, ast.ClassDef)):
                if ch.lineno <= lineno <= (ch.end_lineno or ch.lineno):
                    c2 = chain + [ch.name]
                    if len(c2) > len(best):
                        best = c2
                    walk(ch, c2)
            else:
                walk(ch, chain)

    walk(tree, [])
    return best


def route(path, lineno, already):
    chain = enclosing(path, lineno)
    first = []
    for (f, qual), props in func_anch.items():
        if f != path:
            continue
        q = qual.split(".")
        # the anchored function itself, its class, or a method of the anchored class
        if chain[:len(q)] == q or q[:len(chain)] == chain and chain:
            first += props
    rest = file_anch.get(path, [])
    out = []
    for p in first + rest:
        if p not in out and p not in already:
            out.append(p)
    return out[:KMAX], ".".join(chain)


recs = [json.loads(l) for l in open(IN)]
done = set()
if os.path.exists(OUT):
    for l in open(OUT):
        r = json.loads(l)
        done.add((r["file"], r["line"], r["what"], r["orig_line"]))
todo = [r for r in recs if r.get("verdict") == "MISSED" and (r["file"], r["line"], r["what"], r["orig_line"]) not in done]
print(f"{len(todo)} first-pass MISSED survivors to re-route", flush=True)
cache = {}


def sources(r):
    if r["file"] not in cache:
        cache[r["file"]] = mutants_of(r["file"])
    return [m for m in cache[r["file"]] if m["line"] == r["line"] and m["what"] == r["what"] and m["orig_line"] == r["orig_line"]]


wts = []
for j in range(JOBS):
    wt = f"/tmp/acn_mutwt2_{os.getpid()}_{j}"
    subprocess.run(["git", "-C", REPO, "worktree", "add", "-q", "--detach", wt, "HEAD"], check=True)
    wts.append(wt)
free = list(wts)
lock = threading.Lock()
outf = open(OUT, "a")


def run_one(r):
    with lock:
        wt = free.pop()
    try:
        ms = sources(r)
        checks, where = route(r["file"], r["line"], set(r.get("checks", {})))
        rec = dict(r, function=where, rerouted={}, variants=len(ms))
        for m in ms[:1]:
            target = os.path.join(wt, m["file"])
            orig = open(target).read()
            open(target, "w").write(m["src"])
            try:
                for p in checks:
                    c = subprocess.run([os.path.join(HERE, "check"), p, "quick"], env=dict(os.environ, VERIF_REPO=wt, VERIF_NPROC="6"),
                                       cwd=HERE, capture_output=True, text=True)
                    rec["rerouted"][p] = {0: "MISSED", 1: "CAUGHT", 2: "INCONCLUSIVE"}.get(c.returncode, str(c.returncode))
                    if c.returncode == 1:
                        kinds = re.findall(r"kind=(\S+)", c.stdout)
                        rec["kinds"] = sorted(set(kinds))[:4]
                        break
            finally:
                open(target, "w").write(orig)
        rec["verdict2"] = "CAUGHT" if "CAUGHT" in rec["rerouted"].values() else "MISSED"
        with lock:
            outf.write(json.dumps(rec) + "\n")
            outf.flush()
        print(r["file"].split("/")[-1], r["line"], r["what"], where, rec["verdict2"], rec["rerouted"], flush=True)
        return rec
    finally:
        with lock:
            free.append(wt)


try:
    with ThreadPoolExecutor(JOBS) as ex:
        out = list(ex.map(run_one, todo))
finally:
    for wt in wts:
        subprocess.run(["git", "-C", REPO, "worktree", "remove", "--force", wt])
print(f"SUMMARY: {len(out)} re-routed, {sum(r['verdict2'] == 'CAUGHT' for r in out)} caught by a better-fitting check, "
      f"{sum(r['verdict2'] == 'MISSED' for r in out)} still missed")
