#!/bin/sh
# Run the repository's pinned offline baseline (guard OFF) and print the summary line.
# usage: tools/run_suite.sh [repo_dir]
REPO=${1:-/repo}
cd "$REPO" || exit 2
env -u ACNPORTAL_VERIF PYTHONDONTWRITEBYTECODE=1 /venv/bin/python -m pytest -q -p no:cacheprovider --timeout=900 \
  --continue-on-collection-errors -x --deselect tests/test_integration.py::TestIntegration 2>&1 | tail -5
