#!/venv/bin/python
"""Round l: final verdicts (from a tools/seedregress.py log) and what was added, into each kept seed's meta.json."""
import json, os, re, sys
HERE = os.path.dirname(os.path.dirname(os.path.abspath(__file__)))
NOTES = {
 "C06_l": "C06: schedules containing a NaN must be infeasible for every checker in both modes",
 "C12_l": "C12: an existing constraint updated with a Current naming an unregistered station (refused; what remains stays aligned)",
 "C13_l": "C13: advertised limits read after an algorithm derated its copy of the infrastructure description in place (C05 / C09 caught the mechanism already)",
 "C20_l": "C20: one request of a download answered with HTTP 429; prefix / exactly-once whether the client raises or retries (and the harness's own logging wrapper made tolerant of error documents)",
}
final = {}
for line in open(sys.argv[1]):
    m = re.match(r"(\S+) (CAUGHT|MISSED|INCONCLUSIVE) (\S+) (\S+) \S+ (\d+)s kinds=(.*)", line)
    if m:
        final[m.group(1)] = {"property": m.group(3), "tier": m.group(4), "verdict": m.group(2), "kinds": eval(m.group(6))[:8], "wall_s": int(m.group(5))}
n = 0
for name, f in final.items():
    if not name.endswith("_l"):
        continue
    mp = os.path.join(HERE, "seeded", name, "meta.json")
    if not os.path.exists(mp):
        continue
    meta = json.load(open(mp))
    c = meta.setdefault("confirmed_here", {})
    if "first_pass_before_the_round" not in c:
        c["first_pass_before_the_round"] = c.get("checks", [])
    c["checks"] = [f]
    if name in NOTES:
        meta["strengthened"] = NOTES[name]
    json.dump(meta, open(mp, "w"), indent=1)
    n += 1
print(n, "metas updated")
