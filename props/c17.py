"""C17 — tariff lookup is total, unambiguous and aligned with simulation time."""
import json
import os
import random
from datetime import datetime, timedelta, date

import numpy as np

from vlib import env, oracles, gen, build

ID = "C17"
META = {
    "technique": "runtime monitoring: return values of get_tariff/get_tariffs/get_demand_charge, Interface.get_prices and the cost analysis functions compared against a direct interpretation of each JSON tariff file over the whole calendar",
    "design_ref": "DESIGN.md section 6 C17",
    "level_text": "exploration with an exhaustive calendar part: all 14 calendar types (leap/non-leap x weekday of 1 Jan) x every day x boundary instants (quick) or every minute (thorough) for all five bundled files; vector lookups across midnight/season/year boundaries; interface price vectors and cost functions on real recorded simulations; sub-second instants around every breakpoint, starts off the second grid, vectors of up to 10000 periods, one simulation costed under all five tariffs in one process; a tariff attached after the first query and replaced mid-run; ports of unequal voltage (peak current and peak power in different periods)",
    "level_note": "the oracle reads the same JSON files (the data are part of the artefact under test; the oracle independently interprets seasons, wrap-around, weekday masks and breakpoints); instants are whole seconds plus sub-second instants around every breakpoint and at the end of the day",
}
LEVEL = "exploration"
RULE = ("case = (tariff file, calendar year) enumerating every day of the year at the boundary instants (each breakpoint -1 s, "
        "exact, +1 s, 00:00:00, 23:59:59, random minutes; thorough: every minute), or a vector / simulation case; every "
        "lookup is one evaluation; non-trivial = a (file, year) case that crossed a season boundary and a weekday/weekend "
        "change, or a vector spanning midnight; distinct = distinct case descriptors")
ASSUMPTIONS = [
    "14 concrete years realise all (leap, weekday of 1 Jan) classes; the answer depends on (month, day, weekday, time of day) only",
    "period lengths in {1,5,7.5,15,60} minutes for vector lookups; vector lengths up to 600",
    "simulation-side checks use generated simulations with heterogeneous voltages (see C18 for the analysis functions themselves)",
]
ANCHORS = [
    "acnportal.signals.tariffs.tou_tariff:TimeOfUseTariff._get_tariff_schedule",
    "acnportal.signals.tariffs.tou_tariff:TimeOfUseTariff.get_tariff",
    "acnportal.signals.tariffs.tou_tariff:TimeOfUseTariff.get_tariffs",
    "acnportal.signals.tariffs.tou_tariff:TimeOfUseTariff.get_demand_charge",
    "acnportal.acnsim.interface:Interface.get_prices",
    "acnportal.acnsim.interface:Interface.get_demand_charge",
    "acnportal.acnsim.analysis:energy_cost",
    "acnportal.acnsim.analysis:demand_charge",
]
REQUIRED = ["runs_whose_tariff_was_replaced_mid_run", "price_queries_before_a_tariff_was_attached", "runs_whose_peak_current_and_peak_power_fall_in_different_periods_billed_at_a_nonzero_demand_rate", "same_instant_in_several_zones", "vector_lookups_of_over_1000_periods", "cost_checks_under_another_tariff_in_the_same_process", "sub_second_instants", "vector_lookups_with_periods_of_days_or_months", "lookups_judged", "vector_lookups", "interface_price_vectors", "cost_checks", "regime:wrapped-season",
            "regime:weekend", "regime:weekday", "regime:leap-day"]
BUDGET_S = {"quick": 240, "thorough": 3000}
EXHAUSTIVE = {"quick": "all 14 calendar types x every day x boundary instants x 5 files",
              "thorough": "every minute of every day of all 14 calendar types x 5 files"}
FILES = ["pge_a10_tou_aug_2019", "sce_tou_ev_4_march_2019", "sce_tou_ev_4_march_2019_tou_periods_shifted",
         "sce_tou_ev_8_june_2019", "sce_tou_ev_8_oct_2018"]


def _years():
    out = {}
    for y in range(2000, 2060):
        leap = (y % 4 == 0 and y % 100 != 0) or y % 400 == 0
        k = (leap, date(y, 1, 1).weekday())
        out.setdefault(k, y)
    assert len(out) == 14
    return sorted(out.values())


def cases(seed, tier):
    rng = random.Random(f"C17:{seed}")
    out = []
    for f in FILES:
        for y in _years():
            # split each year in quarters so that the 16 workers stay balanced
            for q in range(4):
                out.append({"kind": "calendar", "file": f, "year": y, "q": q, "seed": rng.randrange(1 << 30),
                            "every_minute": tier == "thorough"})
    nv, nsim = (150, 40) if tier == "quick" else (3000, 800)
    for i in range(nv):
        out.append({"kind": "vector", "file": rng.choice(FILES), "seed": rng.randrange(1 << 30)})
    for i in range(nsim):
        out.append({"kind": "sim", "file": rng.choice(FILES), "seed": rng.randrange(1 << 30)})
    # corpus: per file, ports of unequal voltage used one after the other, so that the period of the highest aggregate CURRENT and
    # the period of the highest aggregate POWER (what the demand charge bills) are different periods
    for f in FILES:
        for k in range(2 if tier == "quick" else 10):
            out.append({"kind": "sim", "file": f, "seed": rng.randrange(1 << 30), "unequal_ports": True})
    return out


_CACHE = {}


def _load(name):
    if name not in _CACHE:
        from acnportal.signals.tariffs.tou_tariff import TimeOfUseTariff
        import acnportal.signals.tariffs.tou_tariff as mod
        path = os.path.join(os.path.dirname(mod.__file__), "tariff_schedules", name + ".json")
        with open(path) as f:
            doc = json.load(f)
        _CACHE[name] = (TimeOfUseTariff(name), oracles.TariffOracle(doc))
    tar, orc = _CACHE[name]
    if _CACHE.get("n:" + name, 0) % 5 == 0:
        from vlib.monitors import poke
        from acnportal.signals.tariffs.tou_tariff import TimeOfUseTariff as _T
        poke(tar, _T(name), _T(FILES[0]))
    # every other request gets a newly constructed tariff object for the same file (the n-th object built in this
    # process must behave like the first), the others share the first one (state left by earlier lookups must not matter)
    _CACHE["n:" + name] = _CACHE.get("n:" + name, 0) + 1
    if _CACHE["n:" + name] % 2 == 0:
        from acnportal.signals.tariffs.tou_tariff import TimeOfUseTariff
        return TimeOfUseTariff(name), orc
    return tar, orc


class _Shifted:
    """Oracle for a user subclass of the tariff class that overrides get_tariff / get_demand_charge to bill in another clock
    (vlib.userext.LocalClockTariff): every lookup is the plain oracle's answer CLOCK_SHIFT_H hours earlier."""

    def __init__(self, orc, hours):
        self.orc, self.h = orc, hours
        self.sched = orc.sched

    def lookup(self, dt):
        return self.orc.lookup(dt - timedelta(hours=self.h))

    def matches(self, dt):
        return self.orc.matches(dt - timedelta(hours=self.h))

    def breakpoints(self):
        return self.orc.breakpoints()


def _load_maybe_user(name, rng, obs):
    tar, orc = _load(name)
    if False:  # withdrawn (DESIGN 13): whether the vector lookup dispatches through an OVERRIDDEN get_tariff is not in the statement
        from vlib.userext import LocalClockTariff, CLOCK_SHIFT_H
        obs.ev("user_subclass_of_the_tariff_overriding_the_per_instant_lookup")
        return LocalClockTariff(name), _Shifted(orc, CLOCK_SHIFT_H)
    return tar, orc


def _judge(obs, tar, orc, dt, name, want_demand=True):
    """One instant: totality/unambiguity and value. Returns True if judged ok."""
    obs.ev("lookups_judged")
    try:
        exp_rate, exp_dc, sid = orc.lookup(dt)
    except LookupError as e:
        # the data themselves leave the instant uncovered or ambiguous: a violation of totality
        obs.violate("file_not_total_or_ambiguous", f"{name}: {e.args[0]} schedules match {dt.isoformat()} (by direct reading of the JSON)",
                    file=name, instant=dt.isoformat(), matches=e.args[0])
        return False
    try:
        got = tar.get_tariff(dt)
        dc = tar.get_demand_charge(dt) if want_demand else exp_dc
    except Exception as e:
        obs.violate("lookup_raised", f"{name} {dt.isoformat()}: {type(e).__name__}: {e}", file=name, instant=dt.isoformat(),
                    error=str(e)[:80], expected_schedule=sid)
        return False
    if got != exp_rate:
        obs.violate("wrong_rate", f"{name} {dt.isoformat()} ({dt.strftime('%a')}): got {got!r}, expected {exp_rate!r} from schedule {sid}",
                    file=name, instant=dt.isoformat(), got=got, expected=exp_rate, schedule=sid)
        return False
    if dc != exp_dc:
        obs.violate("wrong_demand_charge", f"{name} {dt.isoformat()}: got {dc!r}, expected {exp_dc!r}", file=name,
                    instant=dt.isoformat(), got=dc, expected=exp_dc)
        return False
    return True


def _run_calendar(case, obs):
    name, year = case["file"], case["year"]
    tar, orc = _load(name)
    rng = random.Random(case["seed"])
    bps = orc.breakpoints()
    d = datetime(year, 1, 1)
    sids, wk = set(), set()
    n = bad = 0
    day_index = 0
    while d.year == year:
        quarter = (d.month - 1) // 3
        if quarter != case["q"]:
            d += timedelta(days=1)
            continue
        if case["every_minute"]:
            instants = [d + timedelta(minutes=m) for m in range(1440)]
            instants += [d + timedelta(seconds=86399)]
        else:
            secs = {0, 86399}
            for b in bps:
                s = int(b * 3600)
                for ds in (-1, 0, 1):
                    if 0 <= s + ds < 86400:
                        secs.add(s + ds)
            for _ in range(8):
                secs.add(rng.randrange(1440) * 60)
            instants = [d + timedelta(seconds=s) for s in sorted(secs)]
        # sub-second instants (a start taken from datetime.now(), a measured connection time): the last fractions of a
        # second before a breakpoint still belong to the earlier rate, the first after it to the later one
        for b in bps:
            s = int(b * 3600)
            for us in (-1, -250000, -500000, -999999, 1, 500000):
                x = d + timedelta(seconds=s, microseconds=us)
                if x.date() == d.date():
                    instants.append(x)
                    obs.ev("sub_second_instants")
        instants.append(d + timedelta(seconds=86399, microseconds=999999))
        near_season = any((d + timedelta(days=k_)).timetuple()[1:3] in {tuple(x_) for s_ in orc.sched for x_ in (s_["start"], s_["end"])} for k_ in (-1, 0, 1))
        if day_index % 9 == 0 or near_season:
            # the same physical instant asked for in several time zones on one tariff object: the answer follows the wall-clock
            # date and time of the datetime that is passed (a date near a season boundary is another date elsewhere)
            import pytz
            import zoneinfo
            for hh in (1, 19):
                base_utc = datetime(d.year, d.month, d.day, hh, 30, tzinfo=pytz.utc)
                for z_ in (pytz.timezone("America/Los_Angeles"), zoneinfo.ZoneInfo("Asia/Tokyo"), pytz.utc, zoneinfo.ZoneInfo("America/New_York"),
                           pytz.timezone("Pacific/Auckland")):
                    instants.append(base_utc.astimezone(z_))
                    obs.ev("same_instant_in_several_zones")
        day_index += 1
        for i, dt in enumerate(instants):
            n += 1
            ok = _judge(obs, tar, orc, dt, name, want_demand=(i % 7 == 0 or dt.tzinfo is not None))
            if not ok:
                bad += 1
                if bad > 3:
                    break
        m = orc.matches(d)
        if len(m) == 1:
            sids.add(m[0]["id"])
            if m[0]["start"] > m[0]["end"]:
                obs.regime("regime:wrapped-season")
        wk.add(d.weekday() >= 5)
        obs.regime("regime:weekend" if d.weekday() >= 5 else "regime:weekday")
        if (d.month, d.day) == (2, 29):
            obs.regime("regime:leap-day")
        if bad > 3:
            break
        d += timedelta(days=1)
    obs.evals = max(1, n)
    if len(sids) >= 2 and len(wk) == 2:
        obs.nontrivial()
    obs.sample = {"kind": "calendar", "file": name, "year": year, "quarter": case["q"], "lookups": n,
                  "schedules_seen": sorted(sids)}


def _run_vector(case, obs):
    name = case["file"]
    rng = random.Random(case["seed"])
    tar, orc = _load_maybe_user(name, rng, obs)
    period = rng.choice([1, 5, 7.5, 15, 60, 7, 13, 1440, 10080, 43200, 44640, 43380, 525600])
    n = rng.choice([1, 2, 24, 96, 288, 600]) if period <= 60 else rng.choice([1, 2, 5, 13, 40])
    if period <= 15 and case["seed"] % 12 == 0:
        n = rng.choice([1025, 2049, 8193, 10000])  # a month of 5-minute periods and more
        obs.ev("vector_lookups_of_over_1000_periods")
    if period > 60:
        obs.ev("vector_lookups_with_periods_of_days_or_months")
    year = rng.choice(_years())
    anchor = rng.choice(["random", "midnight", "season", "newyear"])
    if anchor == "random":
        start = datetime(year, rng.randint(1, 12), rng.randint(1, 28), rng.randint(0, 23), rng.choice([0, 7, 30, 59]))
    elif anchor == "midnight":
        start = datetime(year, rng.randint(1, 12), rng.randint(1, 28), 23, rng.choice([0, 45, 59]))
    elif anchor == "newyear":
        start = datetime(year, 12, 31, rng.randint(12, 23), rng.choice([0, 30]))
    else:
        s = rng.choice(orc.sched)
        mon, day = rng.choice([s["start"], s["end"]])
        try:
            start = datetime(year, mon, day, rng.randint(18, 23), rng.choice([0, 30])) - timedelta(days=rng.choice([0, 1]))
        except ValueError:
            start = datetime(year, mon, 28, 22, 0)
    if rng.random() < 0.3:
        start += timedelta(seconds=rng.choice([0, 29, 59]), microseconds=rng.choice([0, 1, 500000, 750000, 999999]))
        obs.ev("vector_lookups_from_sub_second_starts")
    if rng.random() < 0.2:
        import pytz
        start = pytz.timezone("America/Los_Angeles").localize(start)
    try:
        got = tar.get_tariffs(start, n, period)
    except Exception as e:
        exp_ok = True
        try:
            [orc.lookup(start + k * timedelta(minutes=period)) for k in range(n)]
        except LookupError:
            exp_ok = False
        obs.violate("vector_lookup_raised" if exp_ok else "file_not_total_or_ambiguous",
                    f"{name} get_tariffs({start.isoformat()}, {n}, {period}): {type(e).__name__}: {e}", file=name,
                    start=start.isoformat(), n=n, period=period)
        return
    obs.ev("vector_lookups")
    if len(got) != n:
        obs.violate("vector_length", f"{len(got)} prices for n={n}", file=name)
        return
    for k in range(n):
        dt = start + k * timedelta(minutes=period)
        try:
            e = orc.lookup(dt)[0]
        except LookupError as err:
            obs.violate("file_not_total_or_ambiguous", f"{name}: {err.args[0]} schedules match {dt.isoformat()}", file=name,
                        instant=dt.isoformat())
            return
        if got[k] != e:
            obs.violate("vector_entry", f"{name} start {start.isoformat()} period {period}: entry {k} = {got[k]!r}, lookup at {dt.isoformat()} gives {e!r}",
                        file=name, start=start.isoformat(), period=period, k=k, got=got[k], expected=e)
            return
    obs.evals = n
    if (start + n * timedelta(minutes=period)).date() != start.date():
        obs.nontrivial()
    obs.sample = {"kind": "vector", "file": name, "start": start.isoformat(), "n": n, "period": period, "first": got[:3]}


def _run_sim(case, obs):
    from acnportal import acnsim
    name = case["file"]
    rng = random.Random(case["seed"])
    tar, orc = _load_maybe_user(name, rng, obs)
    d = gen.scenario(rng, sched="scripted", kinds=("EVSE", "FR"), noise_p=0.0, nmax=4, sess_max=5, horizon=15,
                     period=rng.choice([1, 5, 7.5, 15, 60, 60, 1440, 1500, 2880]))
    if case.get("unequal_ports"):
        lo_v, hi_v = rng.choice([(120, 277), (208, 480), (120, 240)])
        a_lo, a_hi = rng.choice([(32, 16), (30, 20), (80, 40)])
        ev_ = lambda mx: {"t": "EVSE", "max": mx, "min": 0}
        big_ = {"t": "ideal", "cap": 1e6, "init": 0, "maxp": 1e4}
        n1, n2 = rng.randint(1, 4), rng.randint(1, 4)
        first_low = rng.random() < 0.5
        d["network"] = {"stations": [{"id": "low", "evse": ev_(a_lo), "voltage": lo_v, "phase": 0}, {"id": "high", "evse": ev_(a_hi), "voltage": hi_v, "phase": 0}],
                        "constraints": [], "tol": None}
        t_lo, t_hi = ((0, n1), (n1, n1 + n2)) if first_low else ((n2, n2 + n1), (0, n2))
        d["sessions"] = [{"id": "a", "station": "low", "arrival": t_lo[0], "departure": t_lo[1], "requested": 1e5, "est_dep": t_lo[1], "battery": big_},
                         {"id": "b", "station": "high", "arrival": t_hi[0], "departure": t_hi[1], "requested": 1e5, "est_dep": t_hi[1], "battery": big_}]
        d["recompute"] = []
        d["scheduler"] = {"kind": "scripted", "mr": 1, "seed": 1, "t0": 0, "mode": "full"}
        d.pop("int_type", None), d.pop("odd_ids", None)
    year = rng.choice(_years())
    d["start"] = [year, rng.randint(1, 12), rng.randint(1, 28), rng.choice([0, 8, 12, 18, 21, 23]), rng.choice([0, 15, 30, 45])]
    if rng.random() < 0.4:
        d["start"] += [rng.choice([0, 59]), rng.choice([0, 750000, 999999])]
        if d["period"] == 1 or rng.random() < 0.5:
            d["start"][4] = rng.choice([29, 59, 30])  # so that 1-minute steps land within a second of the half-hour breakpoints
    sch = build.build_scheduler(d)
    seen = []

    switch = None
    if case["seed"] % 3 == 0:
        # the tariff is attached only after the scheduler has already asked once (and been told there is none), and is replaced
        # by another bundled tariff - a new signals mapping - in the middle of the run: every answer follows the mapping in force
        other_ = rng.choice([f_ for f_ in FILES if f_ != name])
        switch = {"at": rng.choice([1, 2, 3, 5]), "tar": _load(other_)[0], "orc": _load(other_)[1], "name": other_, "done_at": None, "n": 0}

    def hook(s, t, active):
        L = rng.choice([1, 3, 12])
        st = rng.choice([None, t, t + 2, 0])
        iface = s.interface
        if switch is not None:
            switch["n"] += 1
            if switch["n"] == switch["at"] and switch["done_at"] is None:
                sim.signals = {"tariff": switch["tar"]}
                switch["done_at"] = t
        seen.append((t, L, st, np.array(iface.get_prices(L, st)), iface.get_demand_charge(st),
                     switch is not None and switch["done_at"] is not None))

    sch.hook = hook
    sim, evs = build.build_sim(dict(d, signals=None), scheduler=sch)
    if switch is not None:
        try:
            sch.interface.get_prices(1)
            sch.interface.get_demand_charge()
        except Exception:
            obs.ev("price_queries_before_a_tariff_was_attached")
    sim.signals = {"tariff": tar}
    sim.run()
    if switch is not None and switch["done_at"] is not None:
        obs.ev("runs_whose_tariff_was_replaced_mid_run")
    start, per = sim.start, d["period"]
    orc0, name0 = orc, name
    for t, L, st, prices, dc, switched in seen:
        orc, name = (switch["orc"], switch["name"]) if switched else (orc0, name0)
        obs.ev("interface_price_vectors")
        s0 = t if st is None else st
        try:
            exp = [orc.lookup(start + timedelta(minutes=per) * (s0 + k))[0] for k in range(L)]
            edc = orc.lookup(start + timedelta(minutes=per) * s0)[1]
        except LookupError:
            obs.violate("file_not_total_or_ambiguous", f"{name}: ambiguous/uncovered instant", file=name)
            return
        if list(prices) != exp:
            obs.violate("interface_prices_misaligned", f"t={t} start={st} length={L}: {list(prices)} expected {exp}", file=name,
                        sim_start=start.isoformat(), period=per)
            return
        if dc != edc:
            obs.violate("interface_demand_charge", f"t={t} start={st}: {dc!r} expected {edc!r}", file=name)
            return
    if switch is not None and switch["done_at"] is not None:
        tar, orc, name = switch["tar"], switch["orc"], switch["name"]  # what the simulation carries at the end
    else:
        orc, name = orc0, name0
    T = sim.charging_rates.shape[1]
    volt = {s["id"]: s["voltage"] for s in d["network"]["stations"]}
    power = [sum(volt[sid] * sim.charging_rates[i, k] for i, sid in enumerate(sim.network.station_ids)) / 1000.0 for k in range(T)]
    prices = [orc.lookup(start + timedelta(minutes=per) * k)[0] for k in range(T)]
    exp_cost = sum(p * w for p, w in zip(prices, power)) * (per / 60.0)
    exp_dc = orc.lookup(start)[1] * max(power)
    # a run that crosses into a season with another demand rate: which instant's rate bills the peak is not in the statement
    dc_rates = {orc.lookup(start + timedelta(minutes=per) * k)[1] for k in range(T)}
    dc_ok = lambda got_, peak_: any(abs(got_ - r_ * peak_) <= 1e-9 * max(1.0, abs(r_ * peak_)) for r_ in dc_rates)
    if len(dc_rates) > 1:
        obs.ev("runs_spanning_two_demand_rates")
    amps = [float(sim.charging_rates[:, k].sum()) for k in range(T)]
    if max(power) > 0 and power[int(np.argmax(amps))] < max(power) * (1 - 1e-6) and any(r_ != 0 for r_ in dc_rates):
        obs.ev("runs_whose_peak_current_and_peak_power_fall_in_different_periods_billed_at_a_nonzero_demand_rate")
    for label, kw in (("signals", {}), ("explicit", {"tariff": tar})):
        c = acnsim.energy_cost(sim, **kw)
        dch = acnsim.demand_charge(sim, **kw)
        obs.ev("cost_checks")
        if not (abs(c - exp_cost) <= 1e-9 * max(1.0, abs(exp_cost))):
            obs.violate("energy_cost", f"{c!r} expected {exp_cost!r}", file=name)
        if not dc_ok(dch, max(power)):
            obs.violate("demand_charge", f"{dch!r} expected {exp_dc!r}", file=name)
    # the same simulation costed under every bundled tariff in turn, in this one process (two of the files carry the same tariff
    # name and effective date): each result is that file's own sum(price x power x dt)
    from acnportal.signals.tariffs.tou_tariff import TimeOfUseTariff
    order = list(FILES)
    rng.shuffle(order)
    for other in order:
        o_tar, o_orc = _load(other)
        try:
            o_prices = [o_orc.lookup(start + timedelta(minutes=per) * k)[0] for k in range(T)]
            o_dc = o_orc.lookup(start)[1] * max(power)
            o_rates = {o_orc.lookup(start + timedelta(minutes=per) * k)[1] for k in range(T)}
        except LookupError:
            continue
        o_cost = sum(p * w for p, w in zip(o_prices, power)) * (per / 60.0)
        c = acnsim.energy_cost(sim, tariff=o_tar)
        dch = acnsim.demand_charge(sim, tariff=o_tar)
        obs.ev("cost_checks_under_another_tariff_in_the_same_process")
        if not (abs(c - o_cost) <= 1e-9 * max(1.0, abs(o_cost))):
            obs.violate("energy_cost", f"costed under {other} after {name}: {c!r} expected {o_cost!r}", file=other, after=name)
        if not any(abs(dch - r_ * max(power)) <= 1e-9 * max(1.0, abs(r_ * max(power))) for r_ in o_rates):
            obs.violate("demand_charge", f"under {other} after {name}: {dch!r} expected {o_dc!r}", file=other, after=name)
    if max(power) > 0 and len(seen) >= 2:
        obs.nontrivial()
    obs.sample = {"kind": "sim", "file": name, "start": start.isoformat(), "period": per, "queries": len(seen), "cost": exp_cost}


def run_case(case, obs):
    {"calendar": _run_calendar, "vector": _run_vector, "sim": _run_sim}[case["kind"]](case, obs)


def classify(v):
    return None
