"""C13 — EVSEs accept exactly their allowable pilots and advertise truthful limits."""
import json
import math
import random
import warnings
from datetime import datetime
from fractions import Fraction as F

import numpy as np

from vlib import build, gen, oracles
from vlib.monitors import Wrap, defining_classes, json_attrs, ev_battery_json

ID = "C13"
META = {
    "technique": "runtime monitoring: accept/reject post-condition wrapper on every BaseEVSE.set_pilot call, membership decided in exact rationals; advertised limits fed back to set_pilot",
    "design_ref": "DESIGN.md section 6 C13",
    "level_text": "exploration: every set_pilot call of the workload (1e5 quick / 1e7 thorough boundary-focused pilots over all EVSE classes and parameters, with and without a connected EV) is judged against an exact-rational membership oracle; every value advertised by the EVSE, the network cache and the Interface is applied and must be accepted, also after a JSON round trip; NaN/+inf/-inf pilots, astronomically large and tiny levels, lists of thousands of levels, advertised limits compared with the station's own; station limits compared with the set the station was built from; ranges 0..0, degenerate, bidirectional; ChargingNetwork.plugin on a space whose occupant is satisfied; a rejection in the middle of a network batch; finite-rate stations re-rated through the public attribute",
    "level_note": "pilots whose exact distance from an acceptance boundary is below 1e-9 A are counted, not judged (the code adds the tolerance in floating point); rejection side effects observed through public attributes and a fresh JSON dump of the EV",
}
LEVEL = "exploration"
RULE = ("case = one EVSE configuration with a batch of pilots placed at every acceptance boundary +-{0,1e-6,5e-4,9.99e-4,1.001e-3,2e-3,0.5,3} A, "
        "with or without a connected EV, or one generated network whose advertised values are applied; every set_pilot call is one "
        "evaluation; non-trivial = a batch with both accepted and rejected pilots within 2e-3 A of a boundary; distinct = distinct descriptors")
ASSUMPTIONS = [
    "non-finite pilots (NaN, -inf: never allowable; +inf: allowable exactly for a continuous range without upper end) are offered in 3% of the direct calls; an advertised infinite maximum is applied like any other advertised value",
    "guard band 1e-9 A around each acceptance boundary",
    "EV attached for rejection side-effect checks has a two-stage battery; energy and battery compared exactly (no charge may happen on rejection)",
]
ANCHORS = [
    "acnportal.acnsim.models.evse:BaseEVSE.set_pilot",
    "acnportal.acnsim.models.evse:BaseEVSE.plugin",
    "acnportal.acnsim.models.evse:EVSE._valid_rate",
    "acnportal.acnsim.models.evse:DeadbandEVSE._valid_rate",
    "acnportal.acnsim.models.evse:FiniteRatesEVSE._valid_rate",
    "acnportal.acnsim.models.evse:FiniteRatesEVSE.__init__",
    "acnportal.acnsim.network.charging_network:ChargingNetwork._update_info_store",
    "acnportal.acnsim.interface:Interface.allowable_pilot_signals",
]
REQUIRED = ["set_pilot_judged", "advert_after_an_algorithm_edited_its_copy_of_the_infrastructure", "finite_rate_stations_re_rated_through_the_public_attribute", "batches_with_one_invalid_pilot", "accepted", "rejected", "regime:EVSE", "regime:DeadbandEVSE", "regime:FiniteRatesEVSE",
            "rejected_with_ev_state_checked", "advert_with_session_ids_spelled_like_other_stations", "non_finite_pilots_judged", "pilots_of_magnitude_over_1e5_judged", "pilot_equals_current", "pilot_exact_zero", "pilot_repeated", "replug_between_pilots",
            "advertised_values_applied", "suite:set_pilot_judged", "advertised_after_json", "plugin_occupied_refused", "plugin_occupied_same_session_id_refused", "network_plugin_on_occupied:satisfied_occupant", "network_plugin_occupied_refused"]
BUDGET_S = {"quick": 200, "thorough": 2400}
OFFS = [0, 1e-6, 5e-4, 9.99e-4, 1.001e-3, 2e-3, 0.5, 3]

CUR = {"obs": None, "deep": False, "desc": None, "desc_for": None}
_WRAPS = []


def _desc_of(evse):
    """EVSE descriptor from public attributes only."""
    cn = type(evse).__name__
    try:
        if hasattr(evse, "deadband_end"):
            return {"t": "DB", "end": evse.deadband_end, "max": evse.max_rate}  # (max_rate: the documented hook, overridable)
        if getattr(evse, "is_continuous", True) is False:
            return {"t": "FR", "rates": list(evse.allowable_pilot_signals)}
        return {"t": "EVSE", "min": evse.min_rate, "max": evse.max_rate}
    except Exception:
        return None


def _before(evse, a, k):
    obs = CUR["obs"]
    if obs is None:
        return None
    pilot = a[0] if a else k.get("pilot")
    ev = evse.ev
    state = (evse.current_pilot, None if ev is None else ev.energy_delivered,
             None if ev is None else ev.current_charging_rate)
    deep = None
    if CUR["deep"] and ev is not None:
        deep = json.dumps(ev_battery_json(ev), sort_keys=True)
    return (evse, pilot, state, deep)


def _after(ctx, result, exc):
    obs = CUR["obs"]
    if obs is None or ctx is None:
        return
    evse, pilot, state, deep = ctx
    from acnportal.acnsim.models import InvalidRateError
    d = CUR.get("desc") if CUR.get("desc_for") is evse else _desc_of(evse)  # direct cases: what was asked for, not what the object advertises
    try:
        pf = float(pilot)
    except Exception:
        return
    if d is None:
        obs.ev("set_pilot_not_judged")
        return
    if exc is not None and not isinstance(exc, InvalidRateError):
        return  # some other failure (e.g. invalid voltage), not an accept/reject decision
    if not math.isfinite(pf):
        # NaN and -inf lie in no allowable set; +inf lies in a continuous range exactly when that range has no upper end
        ok_exp = pf == math.inf and d["t"] in ("EVSE", "DB") and d["max"] == math.inf
        dist = F(1)
        obs.ev("non_finite_pilots_judged")
    else:
        ok_exp, dist = oracles.evse_accepts(d, pf)
    # guard band: 1e-9 A, widened to a few units in the last place for pilots of astronomical size (the code adds the
    # tolerance in floating point)
    if dist < max(F(1, 10 ** 9), abs(F(pf)) / 2 ** 49 if math.isfinite(pf) else 0):
        obs.boundary += 1
        return
    if math.isfinite(pf) and abs(pf) >= 1e5:
        obs.ev("pilots_of_magnitude_over_1e5_judged")
    accepted = exc is None
    obs.ev("set_pilot_judged")
    obs.ev("accepted" if accepted else "rejected")
    obs.regime("regime:" + type(evse).__name__)
    wit = dict(evse=d, cls=type(evse).__name__, pilot=pf, accepted=accepted, expected=ok_exp, distance=float(dist))
    if accepted != ok_exp:
        obs.violate("acceptance_mismatch", f"{type(evse).__name__} {d}: pilot {pf!r} accepted={accepted}, allowable-set membership={ok_exp}", **wit)
        return
    ev = evse.ev
    if accepted:
        cp_ = evse.current_pilot
        # stored as given, or snapped to the allowable value it was accepted for (within the acceptance tolerance)
        if not (cp_ == pilot or abs(float(cp_) - pf) <= 1e-3 * (1 + 1e-9)):
            obs.violate("accepted_pilot_not_stored", f"current_pilot {evse.current_pilot!r} after accepting {pf!r}", **wit)
    else:
        now = (evse.current_pilot, None if ev is None else ev.energy_delivered,
               None if ev is None else ev.current_charging_rate)
        if now != state:
            obs.violate("rejection_changed_state", f"(pilot, energy, rate) {state} -> {now}", **wit)
        if deep is not None:
            obs.ev("rejected_with_ev_state_checked")
            if json.dumps(ev_battery_json(ev), sort_keys=True) != deep:
                obs.violate("rejection_changed_battery", "battery dump differs after a rejected pilot", **wit)


def worker_init():
    from acnportal.acnsim.models import BaseEVSE
    if _WRAPS:
        return
    for cls in defining_classes(BaseEVSE, "set_pilot"):
        _WRAPS.append(Wrap(cls, "set_pilot", before=_before, after=_after).install())


# ------------------------------------------------------------------ cases
def _rand_evse(rng, long_ok=False):
    k = rng.choice(["EVSE", "DB", "FR"])
    if k == "EVSE":
        if rng.random() < 0.12:
            # ranges examples never use: a disabled station (0..0), a degenerate range, a bidirectional one, a negative-only one
            return rng.choice([{"t": "EVSE", "min": 0, "max": 0}, {"t": "EVSE", "min": 0.0, "max": 0.0}, {"t": "EVSE", "min": 16, "max": 16},
                               {"t": "EVSE", "min": -32, "max": 32}, {"t": "EVSE", "min": -16, "max": 0}, {"t": "EVSE", "min": -80, "max": -6},
                               {"t": "EVSE", "min": 0, "max": 0.004}, {"t": "EVSE", "min": -0.0, "max": 32}])
        return {"t": "EVSE", "min": rng.choice([0, 0, 6, 2.5]), "max": rng.choice([16, 32, 80, float("inf"), 7.3, 4e6, 1e9])}
    if k == "DB":
        if rng.random() < 0.12:
            # a user subclass of DeadbandEVSE that overrides only the documented max_rate hook ("max" is the value it reports)
            return {"t": "DB", "end": rng.choice([6, 4.5, 8]), "max": rng.choice([16, 20, 12.5]), "user": "derated"}
        return {"t": "DB", "end": rng.choice([6, 4.5, 8]), "max": rng.choice([16, 32, float("inf"), 2.5e6])}
    r = rng.random()
    if rng.random() < 0.06:
        # a user subclass of FiniteRatesEVSE: levels up to 32 A stay listed (and accepted), max_rate reports the cable rating (24 A)
        return {"t": "FR", "rates": rng.choice([[0, 8, 16, 24, 32], [32, 24, 6, 12], [0, 12, 24, 36]]), "user": "cable", "form": "list"}
    if r < 0.02 and long_ok:
        # hundreds to thousands of allowable levels (a fine-grained charger), in shuffled order
        n_ = rng.choice([300, 1025, 2500])
        rates = [round(0.05 * k_, 2) for k_ in range(n_)]
        rng.shuffle(rates)
        return {"t": "FR", "rates": rates, "form": rng.choice(["list", "array", "tuple"])}
    if r < 0.06:
        # stand-ins for "unlimited" in an on/off list, very small rates: the 1e-3 A band is absolute at every magnitude
        rates = rng.choice([[0, 4e6], [0, 1e9], [1e7, 32, 0], [0.002, 0.0045, 6], [0, 123456.789]])
    elif r < 0.25:
        rates = [0, 8, 16, 24, 32]
    elif r < 0.4:
        rates = [32, 8, 8, 16]
    elif r < 0.55:
        rates = [6.5, 7.25]
    elif r < 0.7:
        rates = list(range(6, 33))
    else:
        rates = [round(rng.uniform(1, 60), rng.choice([0, 2, 3])) for _ in range(rng.randint(1, 6))]
        if rng.random() < 0.5:
            rates += [rates[0]]
        rng.shuffle(rates)
    form = rng.choice(["list", "list", "generator", "map", "iter", "tuple", "array"])
    return {"t": "FR", "rates": rates, "form": form}


def _boundaries(e):
    if e["t"] == "EVSE":
        return [e["min"]] + ([e["max"]] if e["max"] != float("inf") else [1e4])
    if e["t"] == "DB":
        return [0, e["end"]] + ([e["max"]] if e["max"] != float("inf") else [1e4])
    return sorted(set(e["rates"]) | {0})


def cases(seed, tier):
    rng = random.Random(f"C13:{seed}")
    nb, nn = (1500, 150) if tier == "quick" else (100000, 6000)
    out = []
    for i in range(nb):
        e = _rand_evse(rng, long_ok=True)
        out.append({"kind": "direct", "evse": e, "with_ev": rng.random() < 0.5, "n": 60, "seed": rng.randrange(1 << 30)})
    for i in range(nn):
        out.append({"kind": "advert", "seed": rng.randrange(1 << 30)})
    for i in range(nn):
        out.append({"kind": "batch", "seed": rng.randrange(1 << 30)})
    out.append({"kind": "suite"})  # the repository's own tests as one more workload under the same monitor
    return out


def _run_direct(case, obs):
    from acnportal.acnsim.models import InvalidRateError, StationOccupiedError, EV, Linear2StageBattery
    e = case["evse"]
    rng = random.Random(case["seed"])
    evse = build.build_evse("s", e)
    CUR["desc"], CUR["desc_for"] = e, evse
    car = None
    if case["with_ev"]:
        car = EV(0, 10, 20, "s", "x", Linear2StageBattery(60, 30, 7, transition_soc=0.6))
        evse.plugin(car)
        # plugging into an occupied station is refused and leaves the occupant in place
        other = EV(0, 10, 5, "s", "y", Linear2StageBattery(60, 30, 7))
        try:
            evse.plugin(other)
            obs.violate("plugin_occupied_allowed", "plugin on an occupied EVSE succeeded", evse=e)
        except StationOccupiedError:
            obs.ev("plugin_occupied_refused")
        if evse.ev is not car:
            obs.violate("plugin_occupied_replaced_occupant", f"occupant is {getattr(evse.ev, 'session_id', None)}", evse=e)
            return
        # ... also when the newcomer carries the occupant's session id (a copy, a replayed plug-in event)
        import copy
        for twin in (EV(0, 10, 20, "s", "x", Linear2StageBattery(60, 30, 7)), copy.deepcopy(car)):
            try:
                evse.plugin(twin)
                obs.violate("plugin_occupied_allowed", "plugin on an occupied EVSE succeeded for a different EV object with the occupant's session id", evse=e)
            except StationOccupiedError:
                obs.ev("plugin_occupied_same_session_id_refused")
            if evse.ev is not car:
                obs.violate("plugin_occupied_replaced_occupant", "occupant object replaced by a same-id newcomer", evse=e)
                return
    if case["with_ev"]:
        # the same refusal through the network's own plugin(), whatever the occupant still needs: a car that needs nothing more
        # (request 0, or satisfied a moment ago) occupies its space like any other
        from acnportal.acnsim.network import ChargingNetwork
        from acnportal.acnsim.models import Battery
        net = ChargingNetwork()
        ev2 = build.build_evse("n0", dict(e, form="list") if e["t"] == "FR" else e)
        net.register_evse(ev2, 208, 0)
        need = rng.choice([0.0, 0.0, 1e-4, 5.0])
        occ = EV(0, 10, need, "n0", "occ", Battery(50, 0, 7))
        net.plugin(occ)
        if need == 1e-4:
            occ.charge(16, 208, 5)  # (directly on the car: whatever the station's range, the car ends up satisfied)
        obs.ev("network_plugin_on_occupied:" + ("satisfied_occupant" if occ.fully_charged else "unsatisfied_occupant"))
        for newcomer in (EV(0, 10, 5, "n0", "new", Battery(50, 0, 7)), EV(0, 10, 5, "n0", "occ", Battery(50, 0, 7))):
            try:
                net.plugin(newcomer)
                obs.violate("plugin_occupied_allowed", f"ChargingNetwork.plugin on an occupied station succeeded (occupant fully charged: {occ.fully_charged})", evse=e)
            except StationOccupiedError:
                obs.ev("network_plugin_occupied_refused")
            except Exception as ex_:
                obs.ev("network_plugin_occupied_refused_with:" + type(ex_).__name__)
            if net.get_ev("n0") is not occ:
                obs.violate("plugin_occupied_replaced_occupant", f"after ChargingNetwork.plugin on an occupied station the occupant is "
                            f"{getattr(net.get_ev('n0'), 'session_id', None)!r} (was 'occ', fully charged: {occ.fully_charged})", evse=e)
                break
    if case["seed"] % 4 == 0:
        from vlib.monitors import poke
        poke(evse, build.build_evse("s", dict(e, form="list") if e["t"] == "FR" else e), car)
        obs.ev("objects_printed_compared_hashed_before_use")
    bs = _boundaries(e)
    acc0, rej0 = obs.events["accepted"], obs.events["rejected"]
    near = 0
    last = None
    CUR["deep"] = case["with_ev"]
    for _ in range(case["n"]):
        b = rng.choice(bs)
        off = rng.choice(OFFS)
        p = b + rng.choice([-1, 1]) * off
        if rng.random() < 0.1:
            p = rng.uniform(-5, 90)
        # history-sensitive pilots: acceptance must be a function of (EVSE, pilot) alone
        h = rng.random()
        if h < 0.10:
            p = evse.current_pilot  # exactly the value the station already holds (0 on a fresh / just vacated station)
            obs.ev("pilot_equals_current")
        elif h < 0.16:
            p = 0
            obs.ev("pilot_exact_zero")
        elif h < 0.22 and last is not None:
            p = last  # the previous attempt again, accepted or not
            obs.ev("pilot_repeated")
        elif h < 0.27 and car is not None:
            # vacate and re-occupy the station between pilots (the stored pilot is reset on unplug)
            evse.unplug()
            if rng.random() < 0.7:
                evse.plugin(car)
            obs.ev("replug_between_pilots")
        if e["t"] == "FR" and not e.get("user") and rng.random() < 0.02:
            # the charger is re-rated in the middle of a study through the documented public attribute (a list of rates in
            # increasing order that includes 0): from now on the new list decides what is accepted and what is advertised
            _ = (evse.max_rate, evse.min_rate, list(evse.allowable_pilot_signals))  # (the limits had been read before the edit)
            new_rates = sorted(set(rng.choice([[8, 16], [6, 12, 18, 24], [10], [48, 64], [round(rng.uniform(1, 60), 1) for _k in range(3)]])) | {0})
            evse.allowable_rates = list(new_rates)
            e = dict(e, rates=list(new_rates), form="list")
            CUR["desc"] = e
            bs = _boundaries(e)
            obs.ev("finite_rate_stations_re_rated_through_the_public_attribute")
            for src_, v_ in [("evse.max_rate after re-rating", evse.max_rate), ("evse.min_rate after re-rating", evse.min_rate)] + \
                    [("evse.allowable_pilot_signals after re-rating", x_) for x_ in evse.allowable_pilot_signals]:
                _apply(obs, evse, v_, src_, None)
            if float(evse.max_rate) != float(max(new_rates)):
                obs.violate("station_limit_not_truthful", f"re-rated to {new_rates}: max_rate reports {evse.max_rate!r}", evse=e)
        last = p
        if rng.random() < 0.03:
            p = rng.choice([math.nan, math.nan, math.inf, -math.inf])  # what 0/0 or x/0 in a sharing rule hands to a station
        if rng.random() < 0.15:
            p = np.float64(p)
        if abs(off) <= 2e-3:
            near += 1
        try:
            evse.set_pilot(p, rng.choice([120, 208, 240]), rng.choice([1, 5, 15]))
        except InvalidRateError:
            pass
        except Exception:
            if math.isfinite(float(p)):
                raise
            obs.ev("non_finite_pilots_refused_with_other_error")  # NaN / inf turned away by some other validation: a rejection
    CUR["deep"] = False
    obs.evals = case["n"]
    if obs.events["accepted"] > acc0 and obs.events["rejected"] > rej0 and near > 0:
        obs.nontrivial()
    obs.sample = {"kind": "direct", "evse": e, "with_ev": case["with_ev"], "calls": case["n"]}


def _apply(obs, evse, value, src, nd):
    from acnportal.acnsim.models import InvalidRateError
    try:
        v = float(value)
    except Exception:
        obs.violate("advertised_not_numeric", f"{src}: {value!r}")
        return
    if math.isnan(v) or v == -math.inf:
        obs.violate("advertised_not_a_pilot", f"{src}: {value!r}")
        return
    if v == math.inf:
        obs.ev("advertised_infinite_applied")  # a range without upper end advertises inf, and must then take it
    obs.ev("advertised_values_applied")
    try:
        evse.set_pilot(value, 208, 5)
    except InvalidRateError:
        obs.violate("advertised_value_rejected", f"{src} advertises {v!r} for station {evse.station_id} but set_pilot rejects it",
                    source=src, value=v, evse=_desc_of(evse))


def _run_batch(case, obs):
    """A rejection in the middle of a batch: ChargingNetwork.update_pilots over several stations, one of which is sent a pilot
    outside its allowable set.  The call raises the invalid-rate error; the rejecting station still holds the pilot it held, and
    its car's energy and battery are what they were (the clause on rejected pilots, reached through the network's own loop)."""
    from acnportal.acnsim.models import InvalidRateError, EV, Battery
    rng = random.Random(case["seed"])
    n = rng.randint(2, 6)
    stations = [{"id": f"s{i}", "evse": _rand_evse(rng), "voltage": rng.choice([208, 240]), "phase": 0} for i in range(n)]
    for st_ in stations:
        st_["evse"].pop("user", None)
        if st_["evse"]["t"] == "FR":
            st_["evse"]["form"] = "list"
    net = build.build_network({"stations": stations, "constraints": [], "tol": None})
    evses = dict(build.LAST_EVSES)
    cars = {}
    for st_ in stations:
        if rng.random() < 0.8:
            cars[st_["id"]] = EV(0, 50, 40.0, st_["id"], "c-" + st_["id"], Battery(80, 0, 11))
            net.plugin(cars[st_["id"]])

    def valid(e):
        if e["t"] == "EVSE":
            hi = e["max"] if e["max"] != float("inf") else 64.0
            return rng.choice([e["min"], hi, (e["min"] + hi) / 2.0])
        if e["t"] == "DB":
            hi = e["max"] if e["max"] != float("inf") else 64.0
            return rng.choice([0, e["end"], hi, (e["end"] + hi) / 2.0])
        return rng.choice(sorted(set(e["rates"]) | {0}))

    def invalid(e):
        if e["t"] == "EVSE":
            return (e["max"] + 5) if e["max"] != float("inf") else (e["min"] - 5)
        if e["t"] == "DB":
            return e["end"] / 2.0
        rs = sorted(set(float(r_) for r_ in e["rates"]) | {0.0})
        return max(rs) + 7.0

    ids = list(net.station_ids)
    for t in range(rng.randint(1, 4)):
        # first some fully valid periods ...
        col = np.array([[float(valid(next(s_["evse"] for s_ in stations if s_["id"] == i_)))] for i_ in ids])
        net.update_pilots(col, 0, 5)
    k = rng.randrange(n)
    before = {i_: (evses[i_].current_pilot, None if i_ not in cars else cars[i_].energy_delivered,
                   None if i_ not in cars else json.dumps(ev_battery_json(cars[i_]), sort_keys=True)) for i_ in ids}
    col = np.array([[float(valid(next(s_["evse"] for s_ in stations if s_["id"] == i_)))] for i_ in ids])
    bad_e = next(s_["evse"] for s_ in stations if s_["id"] == ids[k])
    col[k, 0] = float(invalid(bad_e))
    ok_, dist_ = oracles.evse_accepts(bad_e, float(col[k, 0]))
    if ok_ or dist_ < F(1, 10 ** 6):
        obs.ev("batch_case_without_a_clearly_invalid_pilot_not_judged")
        return
    obs.ev("batches_with_one_invalid_pilot")
    obs.evals = 1
    wit = dict(stations=stations, rejecting=ids[k], position=k, pilots=[float(x) for x in col[:, 0]])
    try:
        net.update_pilots(col, 0, 5)
        obs.violate("acceptance_mismatch", f"update_pilots accepted {float(col[k, 0])!r} for station {ids[k]} ({bad_e})", **wit)
        return
    except InvalidRateError:
        pass
    except Exception as e_:
        obs.ev("batch_refused_with_other_error:" + type(e_).__name__)
    now = (evses[ids[k]].current_pilot, None if ids[k] not in cars else cars[ids[k]].energy_delivered,
           None if ids[k] not in cars else json.dumps(ev_battery_json(cars[ids[k]]), sort_keys=True))
    if now != before[ids[k]]:
        what = [n_ for n_, a_, b_ in zip(["pilot", "energy", "battery"], before[ids[k]], now) if a_ != b_]
        obs.violate("rejection_changed_state", f"update_pilots: station {ids[k]} (position {k} of {n}) rejected {float(col[k, 0])!r}; its {what} changed: "
                    f"{before[ids[k]][:2]} -> {now[:2]}", **wit)
    obs.nontrivial()
    obs.sample = {"kind": "batch", "stations": n, "rejecting_position": k}


def _run_advert(case, obs):
    from acnportal.acnsim import Simulator
    from acnportal.acnsim.events import EventQueue
    from acnportal.acnsim.interface import Interface
    from acnportal.acnsim.network import ChargingNetwork
    from acnportal.algorithms import UncontrolledCharging
    rng = random.Random(case["seed"])
    n = rng.randint(1, 6)
    stations = [{"id": f"s{i}", "evse": _rand_evse(rng), "voltage": 208, "phase": 0} for i in range(n)]
    nd = {"stations": stations, "constraints": [], "tol": None}
    if rng.random() < 0.7:
        nd["constraints"] = [{"name": "agg", "coeffs": {s["id"]: 1 for s in stations}, "limit": 1e6}]
    net = build.build_network(nd)
    with warnings.catch_warnings():
        warnings.simplefilter("ignore")
        net2 = ChargingNetwork.from_json(net.to_json())
    if n >= 2 and rng.random() < 0.5:
        # cars are connected whose session ids are spelled like OTHER stations' ids (ids share one namespace at real sites):
        # what the interface advertises for a station is that station's, whoever is plugged in elsewhere
        from acnportal.acnsim.models import EV, Battery
        ids_ = [s_["id"] for s_ in stations]
        perm_ = ids_[1:] + ids_[:1]
        for st_id, sess_id in zip(ids_, perm_):
            if rng.random() < 0.7:
                net.plugin(EV(0, 10, 5.0, st_id, sess_id, Battery(50, 0, 7)))
        obs.ev("advert_with_session_ids_spelled_like_other_stations")
        with warnings.catch_warnings():
            warnings.simplefilter("ignore")
            net2 = ChargingNetwork.from_json(net.to_json())
    for tag, nw in (("network", net), ("network-after-json", net2)):
        sim = Simulator(nw, UncontrolledCharging(), EventQueue(), datetime(2020, 1, 1), verbose=False)
        iface = Interface(sim)
        if rng.random() < 0.5:
            # an algorithm derates "its copy" of the infrastructure description in place before anybody asks for limits (a site
            # cap of 15/16 of every maximum, minimum pilots raised by 1 A, level lists scaled): what the interface advertises
            # afterwards is still the stations' own
            mine = iface.infrastructure_info()
            try:
                np.multiply(mine.max_pilot, 0.9375, out=mine.max_pilot, casting="unsafe")
                np.add(mine.min_pilot, 1, out=mine.min_pilot, casting="unsafe")
                for a_ in mine.allowable_pilots:
                    if isinstance(a_, np.ndarray) and a_.dtype.kind == "f":
                        a_ *= 0.9375
                    elif isinstance(a_, list):
                        a_[:] = [x_ * 0.9375 for x_ in a_]
            except Exception:
                pass
            obs.ev("advert_after_an_algorithm_edited_its_copy_of_the_infrastructure")
        info = iface.infrastructure_info()
        for i, sid in enumerate(nw.station_ids):
            evse = nw._EVSEs[sid] if hasattr(nw, "_EVSEs") else None
            if evse is None:
                obs.ev("evse_object_unreachable")
                continue
            vals = [("evse.max_rate", evse.max_rate), ("evse.min_rate", evse.min_rate)]
            vals += [("evse.allowable_pilot_signals", v) for v in evse.allowable_pilot_signals]
            # truthful: the station's own limits are those of the set it was built with (library classes; a user subclass that
            # overrides a hook reports what it likes): largest allowable value, smallest non-zero allowable value
            de_ = next((s_["evse"] for s_ in stations if s_["id"] == sid), None)
            if de_ is not None and not de_.get("user") and de_["t"] in ("EVSE", "FR"):
                if de_["t"] == "FR":
                    pos_ = [float(r_) for r_ in de_["rates"] if float(r_) > 0]
                    t_max, t_min = max([float(r_) for r_ in de_["rates"]] + [0.0]), (min(pos_) if pos_ else 0.0)
                else:
                    t_max, t_min = float(de_["max"]), float(de_["min"])
                obs.ev("station_limits_compared_with_the_construction_values")
                # ("minimum": the smallest non-zero level - the library's reading - or 0 where 0 itself is allowable)
                min_ok = {t_min} | ({0.0} if (de_["t"] == "FR" and any(float(r_) == 0 for r_ in de_["rates"])) else set())
                if float(evse.max_rate) != t_max or float(evse.min_rate) not in min_ok:
                    obs.violate("station_limit_not_truthful", f"station {sid} built with {de_}: reports max_rate {evse.max_rate!r}, min_rate {evse.min_rate!r}; "
                                f"largest / smallest non-zero allowable value {t_max!r} / {t_min!r}", evse=de_)
            vals += [(f"{tag}.max_pilot_signals", nw.max_pilot_signals[i]), (f"{tag}.min_pilot_signals", nw.min_pilot_signals[i])]
            vals += [(f"{tag}.allowable_rates", v) for v in nw.allowable_rates[i]]
            cont, allow = iface.allowable_pilot_signals(sid)
            vals += [("Interface.allowable_pilot_signals", v) for v in allow]
            vals += [("Interface.max_pilot_signal", iface.max_pilot_signal(sid)),
                     ("Interface.min_pilot_signal", iface.min_pilot_signal(sid))]
            vals += [("InfrastructureInfo.max_pilot", info.max_pilot[i]), ("InfrastructureInfo.min_pilot", info.min_pilot[i])]
            vals += [("InfrastructureInfo.allowable_pilots", v) for v in info.allowable_pilots[i]]
            if cont and len(allow) == 2 and all(math.isfinite(float(x)) for x in allow):
                lo, hi = float(allow[0]), float(allow[1])
                # a continuous station advertises a range: its interior is advertised too
                vals += [("interior of Interface.allowable_pilot_signals range", x) for x in
                         ((lo + hi) / 2, lo + (hi - lo) * rng.random(), lo + (hi - lo) * 0.01)]
            # the limits the network cache and the interface advertise are the station's own (also after the JSON round trip)
            for src, v in vals:
                if src.endswith(("max_pilot_signals", "max_pilot_signal", ".max_pilot")) and not float(v) == float(evse.max_rate):
                    obs.violate("advertised_limit_differs_from_station", f"{src} = {v!r}, station {sid} max_rate {evse.max_rate!r}", source=src)
                if src.endswith(("min_pilot_signals", "min_pilot_signal", ".min_pilot")) and not float(v) == float(evse.min_rate):
                    obs.violate("advertised_limit_differs_from_station", f"{src} = {v!r}, station {sid} min_rate {evse.min_rate!r}", source=src)
            for src, v in vals:
                _apply(obs, evse, v, src, nd)
                if tag != "network":
                    obs.ev("advertised_after_json")
            d = stations[[s["id"] for s in stations].index(sid)]["evse"]
            if bool(cont) != (d["t"] != "FR"):
                obs.violate("advertised_continuity", f"station {sid} ({d['t']}) advertised continuous={cont}")
            if d["t"] == "FR" and sorted(float(x) for x in allow) != sorted({float(r) for r in d["rates"]} | {0.0}):
                obs.violate("finite_set_advertised", f"station {sid}: advertised {allow} for rates {d['rates']} (0 always included)")
    obs.nontrivial()
    obs.evals = max(1, obs.events["advertised_values_applied"])
    obs.sample = {"kind": "advert", "stations": [s["evse"] for s in stations]}


def run_case(case, obs):
    CUR["obs"] = obs
    try:
        if case["kind"] == "direct":
            _run_direct(case, obs)
        elif case["kind"] == "suite":
            CUR["obs"] = None  # the monitors live in the pytest subprocess
            from vlib import simrun
            simrun.run_repo_suite_monitored("C13", obs)
            obs.evals = max(1, obs.events.get("suite:set_pilot_judged", 0))
            obs.sample = {"kind": "suite", "set_pilot_judged": obs.events.get("suite:set_pilot_judged", 0)}
        elif case["kind"] == "batch":
            _run_batch(case, obs)
        else:
            _run_advert(case, obs)
    finally:
        CUR["obs"] = None
        CUR["deep"] = False
        CUR["desc"] = CUR["desc_for"] = None


def classify(v):
    return None
