"""C10 — results are deterministic and independent of incidental ordering (metamorphic pairs of runs)."""
import random
import warnings

import numpy as np

from vlib import build, gen, simrun
from vlib.monitors import SimProbe

ID = "C10"
META = {
    "technique": "runtime monitoring: metamorphic monitor over pairs of complete runs of the real simulator — identical rebuild, permuted station registration, permuted constraint order, permuted session list, all three at once, and a k-period time shift; outputs recorded per station id / session id and compared with the base run; a tie detector on the sort keys excludes runs whose decisions hinge on ties",
    "design_ref": "DESIGN.md section 6 C10",
    "level_text": "exploration: hundreds (quick) / tens of thousands (thorough) of generated scenarios x 6 relations, scripted, uncontrolled and finite-rate sorted schedulers (both algorithms, five orders, estimator and uninterrupted options), heterogeneous voltages, mixed-sign three-phase constraints; identical rebuilds must be bit-identical, permuted and shifted runs equal per station id / session id to 1e-9; relation rerun: the same EV objects after reset() reproduce the first run; event batches failing part-way and completed by hand",
    "level_note": "sorted runs in which two simultaneously active sessions have priority keys closer than 1e-9 (or, with uninterrupted charging, equal remaining times, which order the reservation of minimum pilots) at any invocation are counted and not judged for the permutation relations (the property excludes schedulers whose decisions hinge on ties); noisy batteries draw from numpy's global RNG in station order, so cases with noise are judged for the rebuild relation only; the shift relation is applied when the periodic-recompute phase cannot move relative to the events (max_recompute in {None,1} or first event at period 0)",
}
LEVEL = "exploration"
RULE = ("case = one scenario run under up to 6 relations (each relation = one evaluation: a pair of complete runs); non-trivial = a "
        "non-identity permutation on a network with >=2 stations and (heterogeneous voltages or >=1 constraint), or a shift k>=1; "
        "distinct = distinct (scenario, relation) pairs")
ASSUMPTIONS = [
    "sorted schedulers run on finite-rate EVSEs (the property's quantifier) and are judged only when no two active sessions tie on the sort key",
    "scripted schedulers are pure functions of (descriptor, period relative to the scenario origin, station id)",
    "comparison tolerance rtol 1e-9 / atol 1e-9 for permuted and shifted runs (summation order may differ); identical rebuilds must be bit-identical",
]
ANCHORS = [
    "acnportal.acnsim.network.charging_network:ChargingNetwork.register_evse",
    "acnportal.acnsim.network.charging_network:ChargingNetwork.add_constraint",
    "acnportal.acnsim.network.charging_network:ChargingNetwork.update_pilots",
    "acnportal.acnsim.network.charging_network:ChargingNetwork.constraint_current",
    "acnportal.acnsim.simulator:Simulator._update_schedules",
    "acnportal.acnsim.interface:Interface.is_feasible",
    "acnportal.algorithms.utils:infrastructure_constraints_feasible",
]
REQUIRED = ["cases_whose_event_batch_fails_part_way_and_is_completed_by_hand", "cases_with_astronomically_large_demands", "rel:rebuild", "rel:stations", "rel:constraints", "rel:sessions", "rel:all", "rel:shift", "sched:scripted",
            "sched:uncontrolled", "sched:sorted", "sorted_runs_judged", "as_df_accessors_checked", "regime:binding-or-mixed-sign", "regime:hetero-voltage"]
BUDGET_S = {"quick": 240, "thorough": 3000}


def cases(seed, tier):
    rng = random.Random(f"C10:{seed}")
    n = 700 if tier == "quick" else 16000
    out = []
    for i in range(n):
        r = rng.random()
        if r < 0.4:
            d = gen.scenario(rng, sched="scripted", noise_p=0.0, nmax=7)
        elif r < 0.5:
            d = gen.scenario(rng, sched="scripted", noise_p=0.6, nmax=5)
            d["noisy"] = True
        elif r < 0.65:
            d = gen.scenario(rng, sched="uncontrolled", noise_p=0.0, nmax=7)
        else:
            d = gen.scenario(rng, sched="sorted", kinds=("FR",), noise_p=0.0, constraint_free_p=0.1, nmax=7,
                             seed=rng.randrange(1 << 20))
            cons_ = d["network"]["constraints"]
            if cons_ and rng.random() < 0.35 and not any(c_["limit"] == float("inf") for c_ in cons_):
                # a monitoring-only constraint (limit inf) registered FIRST, ahead of the constraints that bind
                ids_ = [s_["id"] for s_ in d["network"]["stations"]]
                cons_.insert(0, {"name": "monitor0", "coeffs": {i_: 1 for i_ in rng.sample(ids_, rng.randint(1, len(ids_)))}, "limit": float("inf")})
            # spread arrivals / estimated departures so that most runs are tie-free
            used_a, used_e = set(), set()
            for s in sorted(d["sessions"], key=lambda s: (s["station"], s["arrival"])):
                while s["est_dep"] in used_e:
                    s["est_dep"] += 1
                used_e.add(s["est_dep"])
        if rng.random() < 0.35:
            d["network"]["arith"] = True  # constraints assembled by Current arithmetic over the same station set (see build_network)
            ids_w = [s_["id"] for s_ in d["network"]["stations"]]
            if len(ids_w) >= 2 and rng.random() < 0.7:
                # ... one of them a weighted feeder with unequal coefficients that binds (a metering point that sees some stations
                # through a transformer tap): attaching a coefficient to the wrong station changes who gets what
                co_ = {i_: rng.choice([1, 0.5, 0.25, 2]) for i_ in ids_w}
                if len(set(co_.values())) == 1:
                    co_[ids_w[0]] = 0.5 if co_[ids_w[0]] != 0.5 else 2
                d["network"]["constraints"].append({"name": "weighted", "coeffs": co_, "limit": round(0.45 * sum(c_ * 16 for c_ in co_.values()), 2) + 0.37})
        out.append({"desc": d, "pseed": rng.randrange(1 << 30)})
    # corpus: a tight branch under a roomy main feeder, finite-rate stations with a non-zero minimum pilot, uninterrupted
    # charging: some session cannot get its minimum while later ones can; distinct arrivals, departures and estimates (no ties)
    for i in range(40 if tier == "quick" else 1200):
        ns = rng.randint(4, 6)
        rates = rng.choice([[0, 8, 16, 24, 32], [0] + list(range(6, 33)), [0, 10, 20, 30]])
        stations = [{"id": f"s{k}", "evse": {"t": "FR", "rates": list(rates)}, "voltage": 208, "phase": 0} for k in range(ns)]
        rng.shuffle(stations)
        ids = [s_["id"] for s_ in stations]
        nb = rng.randint(2, 3)
        mn = min(r_ for r_ in rates if r_ > 0)
        cons = [{"name": "branch", "coeffs": {k_: 1 for k_ in ids[:nb]}, "limit": rng.choice([mn + 2.37, 2 * mn - 1.63, 2 * mn + 1.37])},
                {"name": "main", "coeffs": {k_: 1 for k_ in ids}, "limit": rng.choice([40.37, 64.37, 90.37])}]
        if rng.random() < 0.5:
            cons.reverse()
        order = list(range(ns))
        rng.shuffle(order)
        sessions = []
        for q_, k in enumerate(order):
            a = q_ if rng.random() < 0.8 else 0
            dep = 14 + 2 * rng.sample(range(ns), ns)[q_] + q_ % 2
            sessions.append({"id": f"x{k}", "station": ids[k], "arrival": a, "departure": dep + 20 * 0, "requested": rng.choice([6, 14, 30]),
                             "est_dep": dep, "battery": {"t": "ideal", "cap": 100, "init": 0, "maxp": 20}})
        deps = set()
        for s_ in sessions:
            while s_["departure"] in deps:
                s_["departure"] += 1
            deps.add(s_["departure"])
            s_["est_dep"] = s_["departure"]
        d = {"period": 5, "start": [2020, 2, 3, 9, 0], "network": {"stations": stations, "constraints": cons, "tol": None}, "sessions": sessions,
             "recompute": [], "np_seed": 3,
             "scheduler": {"kind": "sorted", "algo": ("greedy", "rr")[i % 2], "sort": gen.SORTS[i % 5], "est": None, "unint": True, "inc": 1,
                           "seed": rng.randrange(1 << 20)}}
        out.append({"desc": d, "pseed": rng.randrange(1 << 30)})
    # corpus: sessions whose demand is astronomically large but representable (placeholders such as 1e304 kWh for "charge as much
    # as you can"), distinct from each other, next to an everyday one, competing for one feeder under every sort order
    for i in range(10 if tier == "quick" else 100):
        big = rng.sample([1e304, 5e304, 2e303, 7e304, 1e300, 3e302], 2)
        reqs = big + [rng.choice([9, 20])]
        stations = [{"id": f"g{k}", "evse": {"t": "EVSE", "max": 32, "min": 0}, "voltage": rng.choice([208, 240]), "phase": 0} for k in range(3)]
        sessions = [{"id": f"y{k}", "station": f"g{k}", "arrival": k, "departure": 12 + 3 * k, "requested": reqs[k], "est_dep": 12 + 3 * k,
                     "battery": {"t": "ideal", "cap": 1e306, "init": 0, "maxp": 1e4}} for k in range(3)]
        d = {"period": rng.choice([5, 15]), "start": [2020, 2, 3, 9, 0], "recompute": [], "np_seed": 3,
             "network": {"stations": stations, "constraints": [{"name": "feeder", "coeffs": {f"g{k}": 1 for k in range(3)}, "limit": 40.37}], "tol": None},
             "sessions": sessions, "huge_demands": True,
             "scheduler": {"kind": "sorted", "algo": ("greedy", "rr")[i % 2], "sort": gen.SORTS[i % 5], "est": None, "unint": False, "inc": 1,
                           "seed": rng.randrange(1 << 20)}}
        out.append({"desc": d, "pseed": rng.randrange(1 << 30)})
    return out


class TieWatch:
    """Sort-function wrapper: detects priority ties among the sessions handed to the sort."""

    def __init__(self, unint=False, desc=None):
        self.tie = False
        self.calls = 0
        self.unint = unint  # uninterrupted charging reserves minimum pilots in order of remaining time: ties there matter too
        # the keys are recomputed from the descriptor's own voltages, station maxima and period (not read back through the
        # interface under test: a conversion that goes wrong there must not be able to declare its own victims "tied")
        self.volt = {s_["id"]: float(s_["voltage"]) for s_ in desc["network"]["stations"]} if desc else None
        self.smax = {s_["id"]: float(gen.evse_max(s_["evse"])) for s_ in desc["network"]["stations"]} if desc else None
        self.period = float(desc["period"]) if desc else None

    def __call__(self, fn, name):
        watch = self

        def wrapped(evs, iface):
            watch.calls += 1
            if len(evs) > 1 and watch.unint:
                rts = sorted(int(e.remaining_time) for e in evs)
                if any(a == b for a, b in zip(rts, rts[1:])):
                    watch.tie = True
            if len(evs) > 1:
                if name in ("fcfs", "lcfs"):
                    keys = [float(e.arrival) for e in evs]
                elif name == "edf":
                    keys = [float(e.estimated_departure) for e in evs]
                else:
                    if watch.volt is not None and all(e.station_id in watch.volt for e in evs):
                        rpt = [(float(e.requested_energy) - float(e.energy_delivered)) * 1000.0 / watch.volt[e.station_id] * 60.0 / watch.period
                               / watch.smax[e.station_id] for e in evs]
                    else:
                        rpt = [iface.remaining_amp_periods(e) / iface.max_pilot_signal(e.station_id) for e in evs]
                    keys = rpt if name == "lrpt" else [(e.estimated_departure - iface.current_time) - r for e, r in zip(evs, rpt)]
                ks = sorted(keys)
                if any(b - a <= 1e-9 * max(1.0, abs(a)) for a, b in zip(ks, ks[1:])):
                    watch.tie = True
            return fn(evs, iface)

        return wrapped


class _Fork(Exception):
    pass


def run_one(d, order=None, cons_order=None, session_order=None, shift=0, fork_at=None, peek=False, rerun=False):
    watch = TieWatch(unint=bool(d["scheduler"].get("unint")), desc=d)
    sch = build.build_scheduler(d, sort_wrapper=watch)
    evs_again = None
    if rerun:
        # the study is repeated with the SAME EV objects after their public reset() (fresh network, queue, scheduler and simulator):
        # what the second run produces is what is compared
        sim0, evs_again = build.build_sim(d)
        with warnings.catch_warnings():
            warnings.simplefilter("ignore")
            try:
                sim0.run()
            except Exception:
                pass
        for e_ in evs_again:
            e_.reset()
    sim, evs = build.build_sim(d, scheduler=sch, order=order, cons_order=cons_order, session_order=session_order, shift=shift, evs=evs_again)
    if peek:
        # a read-only look through the scheduler's own interface before run() (logging the initial state): equal inputs still
        with warnings.catch_warnings():
            warnings.simplefilter("ignore")
            try:
                i_ = sim.scheduler.interface
                i_.active_sessions(); i_.last_applied_pilot_signals; i_.last_actual_charging_rate; i_.current_time; i_.infrastructure_info()
                i_.get_prev_peak()
            except Exception:
                pass
    if fork_at is not None:
        # the run is paused by a scheduler exception at its fork_at-th invocation, the WHOLE simulator is deep-copied, and the copy is
        # run to the end (the original too): equal state must give equal outputs
        import copy as _copy
        st_ = {"n": 0, "fired": False}
        orig_run = sch.run

        def flaky():
            if not st_["fired"] and st_["n"] == fork_at:
                st_["fired"] = True
                raise _Fork()
            st_["n"] += 1
            return orig_run()

        sch.run = flaky
        with warnings.catch_warnings():
            warnings.simplefilter("ignore")
            try:
                sim.run()
            except _Fork:
                pass
            except Exception:
                pass
            if st_["fired"]:
                del sch.run  # back to the class's method, so that the copy's scheduler is an ordinary one bound to the copy
                twin = _copy.deepcopy(sim)
                rs = np.random.get_state()  # battery noise draws from numpy's global stream: both branches continue from the same state
                try:
                    sim.run()
                except Exception:
                    pass
                np.random.set_state(rs)
                sim = twin
    probe = SimProbe(sim, snapshots=False)
    probe.step_limit = simrun.last_event_ts(d, shift) + 4
    probe.attach()
    probe.run()
    probe.detach()
    T = sim.iteration
    ids = list(sim.network.station_ids)
    # the labelled accessors must agree with the matrices, station by station
    df_bad = None
    try:
        dfp, dfr = sim.pilot_signals_as_df(), sim.charging_rates_as_df()
        for i, s in enumerate(ids):
            if not (np.array_equal(np.asarray(dfp[s])[:T], sim.pilot_signals[i, :T]) and
                    np.array_equal(np.asarray(dfr[s])[:T], sim.charging_rates[i, :T])):
                df_bad = f"station {s}: *_as_df() column differs from the matrix row of that station (registration order {ids})"
                break
    except Exception as e:  # a raising accessor is reported by the caller as well
        df_bad = f"as_df accessor raised {type(e).__name__}: {e}"
    out = {
        "df_bad": df_bad,
        "T": T, "exc": repr(probe.exception) if probe.exception is not None else None,
        "pilots": {s: sim.pilot_signals[i, :T].copy() for i, s in enumerate(ids)},
        "rates": {s: sim.charging_rates[i, :T].copy() for i, s in enumerate(ids)},
        "energy": {sid: float(ev.energy_delivered) for sid, ev in sim.ev_history.items()},
        "peak": float(sim.peak), "tie": watch.tie, "sort_calls": watch.calls,
        "warn": sum(1 for w in probe.warnings if "Invalid schedule" in str(w.message)),
    }
    return out


def compare(base, alt, exact=False, shift=0):
    """None if equal, else a description of the first difference."""
    if base["exc"] or alt["exc"]:
        if base["exc"] != alt["exc"]:
            return f"exception differs: {base['exc']} vs {alt['exc']}"
    if alt["T"] != base["T"] + shift:
        return f"iteration {alt['T']} vs {base['T']} + shift {shift}"
    if set(base["pilots"]) != set(alt["pilots"]):
        return "station id sets differ"
    for name in ("pilots", "rates"):
        for s in base[name]:
            a, b = base[name][s], alt[name][s]
            if shift:
                if np.any(b[:shift] != 0):
                    return f"{name}[{s}] non-zero before the shifted origin: {b[:shift].tolist()}"
                b = b[shift:]
            ok = np.array_equal(a, b) if exact else (a.shape == b.shape and np.allclose(a, b, rtol=1e-9, atol=1e-9))
            if not ok:
                idx = [int(i) for i in np.nonzero(~np.isclose(a, b, rtol=1e-9, atol=1e-9))[0][:4]] if a.shape == b.shape else "shape"
                return f"{name}[{s}] differs at periods {idx}: {a[idx].tolist() if idx != 'shape' else a.shape} vs {b[idx].tolist() if idx != 'shape' else b.shape}"
    if set(base["energy"]) != set(alt["energy"]):
        return "session sets differ"
    for sid, e in base["energy"].items():
        f = alt["energy"][sid]
        if (e != f) if exact else not (abs(e - f) <= 1e-9 * max(1.0, abs(e))):
            return f"energy[{sid}] {e} vs {f}"
    if (base["peak"] != alt["peak"]) if exact else not (abs(base["peak"] - alt["peak"]) <= 1e-9 * max(1.0, base["peak"])):
        return f"peak {base['peak']} vs {alt['peak']}"
    return None


def first_diff_period(base, alt, shift=0):
    """Earliest period (base coordinates) at which pilots or rates differ; None if they do not."""
    first = None
    for name in ("pilots", "rates"):
        for st, a in base[name].items():
            b = alt[name].get(st)
            if b is None:
                return 0
            b = b[shift:]
            n = min(len(a), len(b))
            bad = np.nonzero(~np.isclose(a[:n], b[:n], rtol=1e-9, atol=1e-9))[0]
            cand = int(bad[0]) if len(bad) else (n if len(a) != len(b) else None)
            if cand is not None and (first is None or cand < first):
                first = cand
    return first


def run_case(case, obs):
    d = case["desc"]
    rng = random.Random(case["pseed"])
    if case["pseed"] % 5 == 1:
        d = dict(d, bad_batch=True)  # every run of this case is set up through a batch that fails part-way and is repaired by hand
        obs.ev("cases_whose_event_batch_fails_part_way_and_is_completed_by_hand")
    net = d["network"]
    n, m, k = len(net["stations"]), len(net["constraints"]), len(d["sessions"])
    kind = d["scheduler"]["kind"]
    obs.ev("sched:" + kind)
    if d.get("huge_demands"):
        obs.ev("cases_with_astronomically_large_demands")
    base = run_one(d)
    obs.evals = 0
    obs.ev("as_df_accessors_checked")
    if base["df_bad"]:
        obs.violate("as_df_accessor_mislabelled", base["df_bad"], scenario=d)
    if len({s["voltage"] for s in net["stations"]}) > 1:
        obs.regime("regime:hetero-voltage")
    mixed = any(v < 0 for c in net["constraints"] for v in c["coeffs"].values())
    if mixed or base["warn"] or (kind == "sorted" and m):
        obs.regime("regime:binding-or-mixed-sign")
    if base["exc"]:
        obs.ev("base_run_raised")
        # an exception in the base run is other properties' business; the relations still must agree on it

    def perm(x):
        p = list(range(x))
        for _ in range(6):
            rng.shuffle(p)
            if p != list(range(x)) or x < 2:
                break
        return p

    rels = [("rebuild", {}, True)]
    if not d.get("noisy"):
        po, pc, ps = perm(n), perm(m), perm(k)
        rels += [("stations", {"order": po}, False), ("constraints", {"cons_order": pc}, False),
                 ("sessions", {"session_order": ps}, False),
                 ("all", {"order": perm(n), "cons_order": perm(m), "session_order": perm(k)}, False)]
        mr = d["scheduler"].get("mr") if kind == "scripted" else 1
        first = min([s["arrival"] for s in d["sessions"]] + list(d.get("recompute", [])))
        if mr in (None, 1) or first == 0:
            rels.append(("shift", {"shift": rng.choice([1, 2, 3, 7])}, False))
        else:
            obs.ev("shift_skipped_recompute_phase")
    if kind != "sorted" or not d["scheduler"].get("est"):
        rels.append(("fork", {"fork_at": rng.choice([1, 2, 3, 5])}, False))
    rels.append(("peek", {"peek": True}, True))
    if not d.get("noisy") and case["pseed"] % 3 == 0:
        rels.append(("rerun", {"rerun": True}, True))
    tie = base["tie"]
    for name, kw, exact in rels:
        alt = run_one(d, **kw)
        tie = tie or alt["tie"]
        if kind == "sorted" and tie and name not in ("rebuild", "shift", "fork", "peek", "rerun"):
            obs.ev("tie_dependent_not_judged")
            obs.boundary += 1
            continue
        obs.evals += 1
        obs.ev("rel:" + name)
        if kind == "sorted":
            obs.ev("sorted_runs_judged")
        if alt["df_bad"]:
            obs.violate("as_df_accessor_mislabelled", f"{name} {kw}: " + alt["df_bad"], scenario=d, relation=name, params=kw)
        diff = compare(base, alt, exact=exact, shift=kw.get("shift", 0))
        ident = all(list(v) == list(range(len(v))) for kk, v in kw.items() if kk not in ("shift", "fork_at", "peek", "rerun"))
        if (name == "shift") or (not ident and n >= 2 and (m >= 1 or len({s["voltage"] for s in net["stations"]}) > 1)):
            obs.nontrivial([obs.case_hash, name])
        if diff is not None:
            obs.violate("relation:" + name, f"{name} {kw}: {diff}", scenario=d, relation=name, params=kw,
                        first_diff_period=first_diff_period(base, alt, kw.get("shift", 0)))
        if name == "shift" and d["scheduler"].get("est") == "rampdown":
            # the same relation away from the time origin (both runs start at period >= 1): decides shift
            # invariance of the stateful estimator independently of the origin artefact (known finding)
            b1 = run_one(d, shift=1)
            a1 = run_one(d, shift=1 + kw["shift"])
            obs.evals += 1
            obs.ev("rel:shift-away-from-origin")
            diff1 = compare(b1, a1, shift=kw["shift"])
            if diff1 is not None:
                obs.violate("relation:shift-away-from-origin", f"shift 1 vs {1 + kw['shift']}: {diff1}", scenario=d,
                            relation="shift-away-from-origin", params=kw)
    obs.sample = {"stations": n, "constraints": m, "sessions": k, "scheduler": kind, "relations": [r[0] for r in rels],
                  "periods": base["T"], "sort_calls": base["sort_calls"], "tie": tie}


def classify(v):
    """Known finding: Interface.last_applied_pilot_signals is empty at iteration 1 (`i > 0`; pinned by the suite and
    accepted by C05: 'from the third period on'), so SimpleRampdown cannot react in period 1 to a session that
    arrived in period 0, while in a shifted run it can."""
    if v.get("kind") != "relation:shift":
        return None
    d = v["case"]["desc"]
    if d["scheduler"].get("kind") == "sorted" and d["scheduler"].get("est") == "rampdown" and \
            any(s["arrival"] == 0 and s["departure"] >= 2 for s in d["sessions"]) and \
            ((v.get("witness") or {}).get("first_diff_period") or 0) >= 1:
        return "rampdown_blind_in_period_1"
    return None
