"""C08 — priority allocation: greedy grants the max feasible rate; round-robin stops only when blocked; uncontrolled = station max."""
import cmath
import math
import random
from collections import deque

import numpy as np

from vlib import build, gen, oracles, simrun
from vlib.monitors import SimProbe, Wrap

ID = "C08"
META = {
    "technique": "runtime monitoring: wrappers around algorithm.run() and algorithm.run_preprocessing() inside real simulations (states reached by a scripted prefix followed by the algorithm itself); every allocation is judged against an independent reference — priority order from independently computed keys, per-session closed-form maximum of the feasible interval (each phasor constraint is a disc, so a quadratic root) for continuous EVSEs, largest oracle-feasible level for finite-rate EVSEs, a 25-line reference round-robin driven by the phasor oracle, exact station maxima for the uncontrolled baseline",
    "design_ref": "DESIGN.md section 6 C08",
    "level_text": "exploration: thousands (quick) / ~1e5 (thorough) allocations on three-phase mixed-sign networks with unequal voltages and limits, several constraints binding at once, continuous and finite-rate EVSEs, all five sort orders, both algorithms, increments 0.1/0.5/1, with and without uninterrupted charging and fixed estimator bounds, partially served sessions; scenarios on the predefined Caltech/JPL/Office001 networks; allow_overcharging; schedulers built with default options unmentioned; a user subclass promising a minimum current that is not a station level",
    "level_note": "each session's own bounds (lower bound, upper bound before the remaining-demand cap) are taken from the observed output of the algorithm's public preprocessing step (C07 judges those bounds); invocations with two priority keys closer than 1e-6 or with a probed level inside the feasibility guard band are counted, not judged; bisection tolerance eps = 0.01 A",
}
LEVEL = "exploration"
RULE = ("case = one simulation; each scheduler invocation (one allocation over the active sessions) is one evaluation; non-trivial = "
        ">=3 sessions allocated of which >=1 ends strictly between its bounds (a constraint decided it); distinct = distinct (scenario, period)")
ASSUMPTIONS = [
    "priority keys pairwise distinct by > 1e-6 (otherwise not judged)",
    "default network tolerances; EVSE(min 0) and FiniteRatesEVSE stations",
    "a session's own bounds after preprocessing are observed at the algorithm's run_preprocessing() boundary",
]
ANCHORS = [
    "acnportal.algorithms.sorted_algorithms:SortedSchedulingAlgo.sorting_algorithm",
    "acnportal.algorithms.sorted_algorithms:SortedSchedulingAlgo.max_feasible_rate",
    "acnportal.algorithms.sorted_algorithms:SortedSchedulingAlgo.discrete_max_feasible_rate",
    "acnportal.algorithms.sorted_algorithms:RoundRobin.round_robin",
    "acnportal.algorithms.sorted_algorithms:least_laxity_first",
    "acnportal.algorithms.sorted_algorithms:largest_remaining_processing_time",
    "acnportal.algorithms.sorted_algorithms:earliest_deadline_first",
    "acnportal.algorithms.sorted_algorithms:first_come_first_served",
    "acnportal.algorithms.sorted_algorithms:last_come_first_served",
    "acnportal.algorithms.uncontrolled_charging:UncontrolledCharging.schedule",
    "acnportal.acnsim.interface:Interface.remaining_amp_periods",
]
REQUIRED = ["greedy_allocations_judged", "rr_allocations_judged", "uncontrolled_judged", "continuous_grants_judged", "discrete_grants_judged",
            "grant_strictly_between_bounds", "grant_limited_by_constraint_continuous", "grant_limited_by_constraint_discrete",
            "rr_blocked_by_constraint", "preprocessing_observed", "sort:fcfs", "sort:lcfs", "sort:edf", "sort:llf", "sort:lrpt",
            "positive_lower_bounds", "order_differs_from_arrival_order", "several_constraints_tight", "allocations_after_an_edit", "runs_on_predefined_sites", "runs_with_a_session_connected_before_the_start_and_overdue_at_period_0"]
BUDGET_S = {"quick": 270, "thorough": 3300}
EPS = 0.01


def cases(seed, tier):
    rng = random.Random(f"C08:{seed}")
    n = 1000 if tier == "quick" else 22000
    out = []
    for i in range(n):
        r = rng.random()
        if r < 0.12:
            d = gen.scenario(rng, sched="uncontrolled", kinds=("EVSE", "FR", "DB"), nmax=7, sess_max=9)
            out.append({"desc": d, "T0": 0})
            continue
        d = gen.scenario(rng, sched="sorted", kinds=("EVSE", "FR"), noise_p=0.0, constraint_free_p=0.05, nmax=7, sess_max=10,
                         bind=rng.random() < 0.85, bkinds=("ideal", "ideal", "l2c"), seed=rng.randrange(1 << 20),
                         sort=gen.SORTS[i % 5], algo=("greedy", "rr")[(i // 5) % 2], est=rng.choice([None, None, None, "fixed"]),
                         unint=rng.random() < 0.35, int_type_p=0.25)
        d["sessions"] = gen.dense_sessions(rng, d["network"])
        d["recompute"] = []
        if rng.random() < 0.1:
            # a user subclass that promises every car a minimum current of the user's choosing (not a level of the finite-rate
            # stations): the documented run_preprocessing hook raises the sessions' minimum rates
            d["scheduler"]["user_min"] = rng.choice([3, 3, 6.5, 10, 1.5])
        if rng.random() < 0.15:
            # a car that was already connected when the simulation window opens (negative arrival index, as acndata sessions that
            # connect before `start` have) and is overdue from the first period on: estimated departure exactly period 0
            s0_ = min(d["sessions"], key=lambda s_: s_["arrival"])
            if len(d["sessions"]) >= 2 and any(s_["arrival"] >= 0 for s_ in d["sessions"] if s_ is not s0_) and \
                    not any(s_["est_dep"] == 0 for s_ in d["sessions"] if s_ is not s0_) and not any(
                    s_["station"] == s0_["station"] and s_ is not s0_ and s_["arrival"] <= s0_["arrival"] for s_ in d["sessions"]):
                s0_["arrival"], s0_["est_dep"] = -rng.randint(1, 3), 0
                d["overdue_at_0"] = True
        if rng.random() < 0.25:
            d["edits"] = gen.rand_edits(rng, d["network"], max(s_["departure"] for s_ in d["sessions"]))
        out.append({"desc": d, "T0": rng.choice([0, 0, 3, 6]), "pre_seed": rng.randrange(1 << 30)})
    # the predefined sites (real three-phase wiring behind transformers, pods and sub-panels), a dozen or more sessions competing
    for i in range(10 if tier == "quick" else 300):
        out.append({"site": ["caltech", "jpl", "office001"][i % 3], "basic": i % 2 == 0, "seed": rng.randrange(1 << 30), "distinct": True,
                    "sort": gen.SORTS[i % 5], "algo": ("greedy", "rr")[(i // 3) % 2], "ests": [None, None, "fixed"], "T0": 0})
    return out


# ------------------------------------------------------------------ oracle pieces
def rtol_R(L):
    return L + max(1e-5, 1e-7 * L)


def hi_bound(A, L, ang, s, i):
    """Largest x such that every constraint holds with station i at x and the others as in s (closed form).
    Returns (hi, index of the deciding constraint)."""
    m, who = math.inf, None
    u = cmath.exp(1j * math.radians(ang[i]))
    for j in range(len(L)):
        a = A[j][i]
        if a == 0:
            continue
        c = oracles.phasor_current([A[j][k] if k != i else 0.0 for k in range(len(s))], ang, s)
        R = rtol_R(L[j])
        b = a * (c * u.conjugate()).real
        disc = b * b - a * a * (abs(c) ** 2 - R * R)
        if disc < 0:
            return -math.inf, j
        h = (-b + math.sqrt(disc)) / (a * a)
        if h < m:
            m, who = h, j
    return m, who


def worst_margin(A, L, ang, s):
    if not L:
        return -math.inf
    return oracles.margins(A, L, ang, [[x] for x in s], 1e-5, 1e-7)[0]


def make_switch(inner, sd, net_desc, T0):
    """Scheduler that plays a scripted prefix before T0, then hands over to the sorted algorithm."""
    from acnportal.algorithms import BaseAlgorithm

    class Switch(BaseAlgorithm):
        def __init__(self):
            super().__init__()
            self.inner = inner
            self.max_recompute = 1

        def register_interface(self, interface):
            super().register_interface(interface)
            self.inner.register_interface(interface)

        def schedule(self, active):
            t = self.interface.current_time
            if t < T0:
                sch, plain = gen.scripted_schedule(sd, net_desc, t)
                return sch
            return self.inner.run()

    return Switch()


def run_case(case, obs):
    site_net = None
    if "site" in case:
        try:
            d, site_net = build.site_scenario(case)
        except (AttributeError, KeyError, ImportError) as e:
            # the site factories or the private EVSE table are not reachable the way this harness reads them: not judged
            obs.ev("site_scenario_unavailable_not_judged")
            return
        case = dict(case, desc=d)
        obs.ev("runs_on_predefined_sites")
    d = case["desc"]
    sd = d["scheduler"]
    ids, A, L, ang, names = oracles.dense_rows(d["network"])
    st = {s["id"]: s for s in d["network"]["stations"]}
    sess = {s["id"]: s for s in d["sessions"]}
    period = d["period"]
    inner = build.build_scheduler(d)
    T0 = case.get("T0", 0)
    if sd["kind"] == "sorted" and T0 > 0:
        pre_sd = {"kind": "scripted", "mr": 1, "seed": case.get("pre_seed", 1), "t0": 0, "p_empty": 0.1, "max_len": 1, "p_st": 0.8,
                  "mode": "random"}
        top = make_switch(inner, pre_sd, d["network"], T0)
    else:
        top = inner
    sim, evs = build.build_sim(d, scheduler=top, network=site_net)
    net = sim.network
    records, prep = [], {}

    def before_run(_o, a, k):
        pre = {}
        for s_ in ids:
            ev = net.get_ev(s_)
            if ev is not None:
                pre[s_] = (ev.session_id, float(ev.requested_energy) - float(ev.energy_delivered))
        return (sim.iteration, pre)

    def after_run(ctx, result, exc):
        t, pre = ctx
        records.append((t, pre, result, repr(exc) if exc is not None else None, prep.pop(t, None)))

    def after_prep(ctx, result, exc):
        if exc is None and result is not None:
            out = []
            for s_ in result:
                mn = np.atleast_1d(np.asarray(s_.min_rates, dtype=float))[0]
                mx = np.atleast_1d(np.asarray(s_.max_rates, dtype=float))[0]
                out.append((s_.station_id, s_.session_id, float(mn), float(mx)))
            prep[sim.iteration] = out

    wraps = [Wrap(inner, "run", before=before_run, after=after_run)]
    if sd["kind"] == "sorted":
        wraps.append(Wrap(inner, "run_preprocessing", after=after_prep))
    for w in wraps:
        w.install()
    ed = simrun.install_edits(sim, d.get("edits"))
    probe = SimProbe(sim, snapshots=False)
    probe.step_limit = simrun.last_event_ts(d) + 4
    probe.attach()
    probe.run()
    probe.detach()
    for w in reversed(wraps):
        w.remove()
    if ed is not None:
        ed.remove()
    obs.evals = 0
    if d.get("overdue_at_0"):
        obs.ev("runs_with_a_session_connected_before_the_start_and_overdue_at_period_0")
    if probe.exception is not None:
        obs.ev("run_raised_not_judged_here")  # C07's business (safety); allocations before the exception are still judged
    wit = dict(scenario=d, T0=T0)
    for t, pre, out, exc, pp in records:
        if exc is not None or out is None:
            continue
        if sd["kind"] == "uncontrolled":
            judge_uncontrolled(obs, d, ids, st, t, pre, out, wit)
        else:
            if d.get("edits"):
                ids, A, L, ang, names = oracles.dense_rows(gen.network_at(d["network"], d["edits"], t))
                if any(e["after"] < t for e in d["edits"]):
                    obs.ev("allocations_after_an_edit")
            judge_sorted(obs, d, sd, ids, A, L, ang, names, st, sess, period, t, pre, out, pp, wit)
    obs.sample = {"stations": len(ids), "constraints": names, "sessions": len(sess), "scheduler": sd, "invocations": len(records),
                  "T0": T0, "example": [(r[0], r[2]) for r in records[T0:T0 + 2]]}


def judge_uncontrolled(obs, d, ids, st, t, pre, out, wit):
    obs.evals += 1
    obs.ev("uncontrolled_judged")
    exp = {}
    for s_, (sid, rem) in pre.items():
        if abs(rem - 1e-3) <= 1e-9:
            obs.boundary += 1
            return
        if rem > 1e-3:
            exp[s_] = float(gen.evse_max(st[s_]["evse"]))
    got = {k: [float(x) for x in v] for k, v in out.items()}
    for s_ in ids:
        g = got.get(s_, [0.0])
        e = exp.get(s_, 0.0)
        if len(g) < 1 or g[0] != e:
            obs.violate("uncontrolled_not_station_max", f"period {t}: station {s_}: {g} expected [{e}] (active: {s_ in exp})",
                        period=t, schedule=got, pre_state=pre, **wit)
            return
    if set(got) - set(ids):
        obs.violate("uncontrolled_unknown_station", f"period {t}: {sorted(set(got) - set(ids))}", **wit)


def judge_sorted(obs, d, sd, ids, A, L, ang, names, st, sess, period, t, pre, out, pp, wit):
    if pp is None:
        obs.ev("preprocessing_not_observed")
        return
    obs.ev("preprocessing_observed")
    w_ = dict(wit, period=t, schedule=out, pre_state=pre, preprocessed=pp)
    if not set(out) <= set(ids) or any(len(v) < 1 for v in out.values()) or len({len(v) for v in out.values()}) > 1:
        obs.violate("schedule_shape", f"period {t}: {out}", **w_)
        return
    # an omitted station is a station at 0 A (C04); of a longer plan the current period's column is the allocation judged here
    s_out = [float(out[i][0]) if i in out else 0.0 for i in ids]
    idx = {s_: k for k, s_ in enumerate(ids)}
    # sessions in the allocation, with observed own bounds and independently computed demand / keys
    q = []
    for (station, sid, mn, mx) in pp:
        if station not in pre or pre[station][0] != sid:
            obs.violate("preprocessed_session_not_connected", f"period {t}: {sid} on {station} not in the real network state", **w_)
            return
        rem = pre[station][1]
        V = st[station]["voltage"]
        amp = rem * 1000.0 / V * 60.0 / period
        smax = float(gen.evse_max(st[station]["evse"]))
        q.append({"station": station, "sid": sid, "i": idx[station], "lb": max(0.0, mn), "ub": min(mx, amp), "mx": mx, "amp": amp, "smax": smax,
                  "arrival": sess[sid]["arrival"], "est": sess[sid]["est_dep"], "cont": st[station]["evse"]["t"] == "EVSE"})
    key = {"fcfs": lambda e: e["arrival"], "lcfs": lambda e: -e["arrival"], "edf": lambda e: e["est"],
           "llf": lambda e: (e["est"] - t) - e["amp"] / e["smax"], "lrpt": lambda e: -e["amp"] / e["smax"]}[sd["sort"]]
    ks = sorted(key(e) for e in q)
    if any(b - a <= 1e-6 * max(1.0, abs(a)) for a, b in zip(ks, ks[1:])):
        obs.ev("priority_tie_not_judged")
        obs.boundary += 1
        return
    order = sorted(q, key=key)
    obs.evals += 1
    obs.ev("sort:" + sd["sort"])
    if [e["sid"] for e in order] != [e["sid"] for e in sorted(q, key=lambda e: e["arrival"])]:
        obs.ev("order_differs_from_arrival_order")
    if any(e["lb"] > 0 for e in q):
        obs.ev("positive_lower_bounds")
    g = oracles.guard(L)
    in_alloc = {e["station"] for e in q}
    for k, s_ in enumerate(ids):
        if s_ not in in_alloc and s_out[k] != 0:
            obs.violate("pilot_outside_allocation", f"period {t}: station {s_} not in the allocation but pilot {s_out[k]}", **w_)
            return
    if sd["algo"] == "greedy":
        obs.ev("greedy_allocations_judged")
        s = [0.0] * len(ids)
        for e in order:
            s[e["i"]] = e["lb"]
        if worst_margin(A, L, ang, s) > g:
            obs.ev("lower_bounds_infeasible_not_judged")
            return
        between = 0
        for pos, e in enumerate(order):
            i, x = e["i"], s_out[e["i"]]
            if e["cont"]:
                obs.ev("continuous_grants_judged")
                hi, who = hi_bound(A, L, ang, s, i) if L else (math.inf, None)
                target = min(e["ub"], hi)
                if target < e["lb"]:
                    target = e["lb"]
                if hi < e["ub"]:
                    obs.ev("grant_limited_by_constraint_continuous")
                ok = (target - EPS - 1e-6 <= x <= target + 1e-6)
                if abs(hi - e["ub"]) <= 1e-9 and not ok:
                    obs.boundary += 1
                    return
                if not ok:
                    obs.violate("greedy_continuous_not_max_feasible", f"period {t}: session {e['sid']} (priority {pos + 1} of {len(order)}, "
                                f"{sd['sort']}) on {e['station']}: granted {x!r}, largest feasible {target!r} (own bound {e['ub']!r}, "
                                f"constraint bound {hi!r} from {names[who] if who is not None else None})", session=e["sid"], granted=x,
                                expected=target, order=[o["sid"] for o in order], **w_)
                    return
                if e["lb"] + 1e-9 < x < e["ub"] - 1e-9:
                    between += 1
            else:
                obs.ev("discrete_grants_judged")
                levels = sorted(float(a) for a in set(st[e["station"]]["evse"]["rates"]) | {0})
                allow = [a for a in levels if e["lb"] <= a <= e["ub"]]
                best, knife = 0.0, False
                top = max(allow) if allow else 0.0
                for a in allow:
                    s2 = list(s)
                    s2[i] = a
                    m = worst_margin(A, L, ang, s2)
                    if abs(m) <= g:
                        knife = True
                    if m <= 0:
                        best = max(best, a)
                if knife:
                    obs.boundary += 1
                    return
                if best < top:
                    obs.ev("grant_limited_by_constraint_discrete")
                if abs(x - best) > 1e-9:
                    obs.violate("greedy_discrete_not_largest_feasible_level", f"period {t}: session {e['sid']} (priority {pos + 1} of "
                                f"{len(order)}, {sd['sort']}) on {e['station']}: granted {x!r}, largest feasible allowable level {best!r} "
                                f"(levels within bounds {allow[:3]}..{allow[-3:] if allow else []})", session=e["sid"], granted=x, expected=best,
                                order=[o["sid"] for o in order], **w_)
                    return
                if allow and min(allow) < x < top:
                    between += 1
            s[i] = x
        tight = sum(1 for j in range(len(L)) if abs(oracles.phasor_current(A[j], ang, s)) >= rtol_R(L[j]) - 0.5)
        if tight >= 2:
            obs.ev("several_constraints_tight")
        if between:
            obs.ev("grant_strictly_between_bounds", between)
        if len(order) >= 3 and between:
            obs.nontrivial([obs.case_hash, t])
    else:
        obs.ev("rr_allocations_judged")
        inc = sd.get("inc", 0.1)
        lv = {}
        for e in order:
            if e["cont"]:
                base = np.arange(e["lb"] if e["lb"] > 0 else 0.0, e["mx"] + inc / 2, inc)
            else:
                base = np.array(sorted(float(a) for a in set(st[e["station"]]["evse"]["rates"]) | {0}))
            ub = min(e["mx"], e["smax"], e["amp"])
            base = base[base >= e["lb"]]
            # a level within a few ulps of the remaining need (a minimum that equals it, say) is in or out
            # depending on the association order of the kWh -> A*periods conversion: not judged
            if e["amp"] < min(e["mx"], e["smax"]) and np.any(np.abs(base - ub) <= 1e-12 * max(1.0, abs(ub))):
                obs.boundary += 1
                return
            lv[e["sid"]] = base[base <= ub]
        s = [0.0] * len(ids)
        pos = {e["sid"]: 0 for e in order}
        for e in order:
            s[e["i"]] = float(lv[e["sid"]][0]) if len(lv[e["sid"]]) else 0.0
        if worst_margin(A, L, ang, s) > g:
            obs.ev("lower_bounds_infeasible_not_judged")
            return
        dq = deque(order)
        blocked = 0
        steps = 0
        while dq:
            e = dq.popleft()
            l = lv[e["sid"]]
            if pos[e["sid"]] < len(l) - 1:
                s2 = list(s)
                s2[e["i"]] = float(l[pos[e["sid"]] + 1])
                m = worst_margin(A, L, ang, s2)
                if abs(m) <= g:
                    obs.boundary += 1
                    return
                if m <= 0:
                    s = s2
                    pos[e["sid"]] += 1
                    dq.append(e)
                else:
                    blocked += 1
            steps += 1
            if steps > 200000:
                obs.ev("reference_rr_step_cap")
                return
        if blocked:
            obs.ev("rr_blocked_by_constraint")
        bad = [ids[k] for k in range(len(ids)) if abs(s[k] - s_out[k]) > 1e-9]
        if bad:
            k = ids.index(bad[0])
            obs.violate("round_robin_differs_from_reference", f"period {t}: station {bad[0]}: granted {s_out[k]!r}, reference round-robin "
                        f"{s[k]!r} (increment {inc}, order {[o['sid'] for o in order]})", reference={ids[k]: s[k] for k in range(len(ids))},
                        order=[o["sid"] for o in order], **w_)
            return
        mids = sum(1 for e in order if len(lv[e["sid"]]) and lv[e["sid"]][0] < s[e["i"]] < lv[e["sid"]][-1])
        if mids:
            obs.ev("grant_strictly_between_bounds", mids)
        tight = sum(1 for j in range(len(L)) if abs(oracles.phasor_current(A[j], ang, s)) >= rtol_R(L[j]) - 1.0)
        if tight >= 2:
            obs.ev("several_constraints_tight")
        if len(order) >= 3 and mids:
            obs.nontrivial([obs.case_hash, t])


def classify(v):
    return None
