"""C03 — physical bounds: 0 <= rate <= pilot, power <= max, charge monotone and <= capacity.

Monitor: post-condition on every Battery.charge / Linear2StageBattery.charge call
(class-level wrapper, evaluated in whatever workload runs), plus the
simulation-level element-wise bound 0 <= charging_rates <= pilot_signals.
"""
import math
import random

import numpy as np

from vlib import gen, build
from vlib.monitors import Wrap, battery_state, defining_classes

ID = "C03"
META = {
    "technique": "runtime monitoring: post-condition wrapper on every Battery.charge call + element-wise simulation bound",
    "design_ref": "DESIGN.md section 6 C03",
    "level_text": "exploration: the bound oracle is evaluated on every charge call of ~1e5 (quick) / ~1e7 (thorough) generated calls over all models, calculations, noise settings and SoC regimes, and on every cell of generated simulations; says nothing about inputs not generated; one battery object under supplies of varying voltage and period with JSON round trips mid-sequence; second simulations with reset() EV objects; one invalid pilot in the middle of a period (aborted period judged); charge sequences near the top of the float range",
    "level_note": "trusts the harness-side accessors (battery state via private names with public JSON fallback); numpy global RNG seeded per case; tolerance 1e-9 relative",
}
LEVEL = "exploration"
RULE = ("cases: (battery configuration, V, T, pilot sequence) driven call by call through the real "
        "Battery.charge under a post-condition wrapper, plus generated simulations checked element-wise; "
        "non-trivial = a case with >=1 call with pilot>0 on a non-full battery (sequence) or >=1 non-zero "
        "recorded rate (simulation); distinct = distinct case descriptors")
ASSUMPTIONS = [
    "pilots are 0 or in [1e-6, 1e4] A; voltage in [100,500] V; period in [0.1,120] min",
    "max_power in [0.1,350] kW (max_power=0 divides by zero in the two-stage model; outside the quantifier as generated)",
    "transition_soc in [0,0.99]; noise level in [0,5] kW with numpy's global RNG seeded per case",
    "tolerance 1e-9*max(1,scale) on each bound",
]
ANCHORS = [
    "acnportal.acnsim.models.battery:Battery.charge",
    "acnportal.acnsim.models.battery:Linear2StageBattery._charge",
    "acnportal.acnsim.models.battery:Linear2StageBattery._charge_stepwise",
    "acnportal.acnsim.models.ev:EV.charge",
]
REQUIRED = ["aborted_runs_judged_including_the_aborted_period", "sequences_near_the_top_of_the_float_range", "simulations_with_one_battery_object_shared_by_several_evs", "charge_calculation_switched_on_a_living_battery", "second_simulations_with_reset_evs", "calls_with_voltage_or_period_changing_on_one_battery", "battery_json_round_trips_mid_sequence", "charge_calls_judged", "regime:ideal", "regime:l2-continuous", "regime:l2-stepwise",
            "regime:l2-continuous+noise", "regime:l2-stepwise+noise", "sim_cells_checked", "suite:charge_calls_judged", "resets_above_capacity", "resets_within_capacity"]
BUDGET_S = {"quick": 200, "thorough": 2400}

CUR = {"obs": None}
_WRAPS = []


def _before(b, a, k):
    pilot = a[0] if a else k.get("pilot")
    voltage = a[1] if len(a) > 1 else k.get("voltage")
    period = a[2] if len(a) > 2 else k.get("period")
    charge, cap, mp, _ = battery_state(b)
    return (b, pilot, voltage, period, charge, cap, mp)


def _after(ctx, rate, exc):
    obs = CUR["obs"]
    if obs is None or exc is not None:
        return
    b, p, V, T, c0, cap, mp = ctx
    try:
        p_f = float(p)
    except Exception:
        return
    if not (p_f >= 0) or not (V and V > 0) or not (T and T > 0):
        return  # outside the property's quantifier (negative pilot / invalid call)
    obs.ev("charge_calls_judged")
    c1, _, _, pw = battery_state(b)
    tol_r = 1e-9 * max(1.0, p_f)
    if cap is not None:
        # the rate is an energy difference divided by (V*T): rounding in that difference is of the order of eps*capacity, which
        # short periods and low voltages amplify (measured on the unchanged tree: 3e-10 A at cap 1e3, T 0.1 min, V 100)
        tol_r += 64 * 2.3e-16 * float(cap) * 6e4 / (float(T) * float(V))
        if float(cap) > 1e100:
            # near the top of the float range the absolute floor above means nothing and the last place of the stored charge is
            # 1e280 kWh and more: a 1e-12 share of the current that would fill the whole pack in one period
            tol_r += 1e-12 * float(cap) * 6e4 / (float(T) * float(V))
    wit = dict(cls=type(b).__name__, pilot=p_f, voltage=V, period=T, rate=rate, charge_before=c0,
               charge_after=c1, capacity=cap, max_power=mp, power=pw,
               noise=getattr(b, "_noise_level", None), tsoc=getattr(b, "_transition_soc", None),
               calc=getattr(b, "charge_calculation", None))
    try:
        r = float(rate)
    except Exception:
        obs.violate("rate_not_numeric", f"charge returned {rate!r}", **wit)
        return
    if not (-tol_r <= r <= p_f + tol_r):
        obs.violate("rate_outside_0_pilot", f"rate {r!r} not in [0, {p_f}]", **wit)
    if mp is not None:
        tol_p = 1e-9 * max(1.0, mp)
        if pw is not None and not (pw <= mp + tol_p):
            obs.violate("power_above_max", f"current_charging_power {pw!r} vs max {mp}", **wit)
        if not (r * V / 1000.0 <= mp + tol_p):
            obs.violate("power_above_max", f"rate*V {r * V / 1000.0!r} kW vs max {mp}", **wit)
    if c0 is not None and c1 is not None and cap is not None:
        tol_c = 1e-9 * max(1.0, cap)
        if not (c1 >= c0 - tol_c):
            obs.violate("charge_decreased", f"stored charge {c0!r} -> {c1!r}", **wit)
        if not (c1 <= cap + tol_c):
            obs.violate("charge_above_capacity", f"stored charge {c1!r} > capacity {cap}", **wit)
        if p_f > 0 and c0 < cap * (1 - 1e-12):
            obs.ev("nontrivial_calls")
    else:
        obs.ev("charge_state_unobserved")


def worker_init():
    from acnportal.acnsim.models.battery import Battery
    if _WRAPS:
        return
    for cls in defining_classes(Battery, "charge"):
        _WRAPS.append(Wrap(cls, "charge", before=_before, after=_after).install())


# ------------------------------------------------------------------ cases
def _logu(rng, lo, hi):
    return math.exp(rng.uniform(math.log(lo), math.log(hi)))


def _seq_case(rng, force=None):
    model = force or rng.choice(["ideal", "l2c", "l2s", "l2c", "l2s"])
    cap = _logu(rng, 1e-2, 1e3)
    r = rng.random()
    init = cap if r < 0.07 else (0.0 if r < 0.17 else rng.uniform(0, cap))
    if rng.random() < 0.3:
        init = cap * rng.uniform(0.9, 1.0)
    b = {"t": "ideal" if model == "ideal" else "l2", "cap": cap, "init": init, "maxp": _logu(rng, 0.1, 350)}
    if model != "ideal":
        b["calc"] = "continuous" if model == "l2c" else "stepwise"
        b["tsoc"] = rng.choice([0.8, 0.0, 0.99, round(rng.uniform(0, 0.99), 3)])
        b["noise"] = rng.choice([0, 0, _logu(rng, 0.01, 5)])
    giant = rng.random() < 0.05
    if giant:
        # the same physics near the top of the float range (every quantity representable, products of two of them not): the
        # bounds are ratios and differences of like quantities and hold at any scale
        k_ = 10 ** rng.choice([rng.uniform(145, 160), rng.uniform(290, 301)])
        b["cap"], b["init"], b["maxp"] = b["cap"] * k_, b["init"] * k_, b["maxp"] * k_  # (one factor: the ratios stay everyday ones)
        if model != "ideal":
            b["noise"] = 0
            b["tsoc"] = rng.choice([0.8, 0.5, 0.2, 0.0])
        if model != "ideal" and rng.random() < 0.6:
            b["init"] = b["cap"] * rng.uniform(max(b["tsoc"], 0.05), 0.97)  # in the tail, not full
    return {"kind": "seq", "giant": giant, "batt": b, "V": rng.choice([120, 208, 240, 277, round(rng.uniform(100, 500), 1)]),
            "T": rng.choice([0.1, 0.5, 1, 5, 7.5, 15, 60, 120, round(rng.uniform(0.1, 120), 2)]) if not giant else rng.choice([1, 5, 15, 60]),
            "n": rng.choice([1, 5, 30, 100, 200]), "pseed": rng.randrange(1 << 30),
            # one battery object seen by supplies of different voltage / period lengths from call to call (an EV reused on
            # another network, stations of different voltage), and written to JSON and restored in the middle
            "vary": rng.random() < 0.3, "json_p": rng.choice([0, 0, 0.05])}


def _corpus():
    out = []
    # one long noisy run per calculation near the rampdown (the bound must hold for every draw)
    for calc in ("continuous", "stepwise"):
        for (cap, init, tsoc, noise) in [(60, 55, 0.8, 1.0), (60, 10, 0.8, 3.0), (8, 7.9, 0.5, 0.5), (100, 79.9, 0.8, 2.0)]:
            out.append({"kind": "seq", "batt": {"t": "l2", "cap": cap, "init": init, "maxp": 7, "calc": calc,
                                                 "tsoc": tsoc, "noise": noise},
                        "V": 208, "T": 5, "n": 1500, "pseed": 11, "pilots": "small"})
    for model in ("ideal", "l2c", "l2s"):
        b = {"t": "ideal" if model == "ideal" else "l2", "cap": 40, "init": 0, "maxp": 6.6}
        if model != "ideal":
            b.update(calc="continuous" if model == "l2c" else "stepwise", tsoc=0.8, noise=0)
        out.append({"kind": "seq", "batt": b, "V": 240, "T": 15, "n": 200, "pseed": 3, "pilots": "max"})
    return out


def cases(seed, tier):
    rng = random.Random(f"C03:{seed}")
    nseq, nsim = (1600, 160) if tier == "quick" else (60000, 4000)
    out = _corpus()
    out += [_seq_case(rng) for _ in range(nseq)]
    for i in range(nsim):
        sch = rng.choice(["scripted", "scripted", "uncontrolled", "sorted"])
        kinds = ("EVSE", "DB", "FR") if sch != "sorted" else ("EVSE", "FR")
        d = gen.scenario(rng, sched=sch, kinds=kinds, noise_p=0.5, constraint_free_p=0.0 if sch == "sorted" else 0.2)
        out.append({"kind": "sim", "desc": d, "reuse_evs": rng.random() < 0.4, "shared_battery": rng.random() < 0.15})
        if rng.random() < 0.25 and not out[-1]["shared_battery"]:
            out[-1]["bad_pilot_at"] = rng.choice([1, 2, 3, 5])
    out.append({"kind": "suite"})  # the repository's own tests as one more workload under the same post-condition
    return out


# --------------------------------------------------------------- execution
def _pilots(case, rng, b):
    V = case["V"]
    exact = b["maxp"] * 1000.0 / V
    style = case.get("pilots")
    for _ in range(case["n"]):
        if case.get("giant"):
            # (pilots on the battery's own scale: an everyday 6 A against a 1e300 kWh pack is the conditioning corner of section 12)
            c = rng.random()
            yield 0 if c < 0.12 else exact if c < 0.35 else float(np.float64(rng.uniform(0, 2 * exact))) if c < 0.6 else rng.uniform(0.01, 1.5) * exact
            continue
        if style == "small":
            yield rng.choice([4, 1, 8, 0.5, 16, 32])
        elif style == "max":
            yield exact
        else:
            c = rng.random()
            if c < 0.12:
                yield 0
            elif c < 0.2:
                yield 1e-6 * rng.uniform(1, 100)
            elif c < 0.35:
                yield exact
            elif c < 0.42:
                yield 1e4
            elif c < 0.5:
                yield float(np.float64(rng.uniform(0, 2 * exact)))
            elif c < 0.6:
                yield rng.choice([6, 8, 16, 32, 80])
            else:
                yield rng.uniform(0, 1.5 * exact)


def _regime_name(b):
    if b["t"] == "ideal":
        return "regime:ideal"
    return "regime:l2-" + b.get("calc", "continuous") + ("+noise" if b.get("noise", 0) > 0 else "")


def run_case(case, obs):
    CUR["obs"] = obs
    try:
        if case["kind"] == "seq":
            _run_seq(case, obs)
        elif case["kind"] == "suite":
            CUR["obs"] = None  # the monitors live in the pytest subprocess
            from vlib import simrun
            simrun.run_repo_suite_monitored("C03", obs)
            obs.evals = max(1, obs.events.get("suite:charge_calls_judged", 0))
            obs.sample = {"kind": "suite", "charge_calls_judged": obs.events.get("suite:charge_calls_judged", 0)}
        else:
            _run_sim(case, obs)
    finally:
        CUR["obs"] = None


def _run_seq(case, obs):
    b = case["batt"]
    batt = build.build_battery(b)
    rng = random.Random(case["pseed"])
    np.random.seed(case["pseed"] % (1 << 31))
    name = _regime_name(b)
    if case.get("giant"):
        obs.ev("sequences_near_the_top_of_the_float_range")
    n0 = obs.events["nontrivial_calls"]
    for p in _pilots(case, rng, b):
        c0, cap, _, _ = battery_state(batt)
        r = rng.random()
        if r < 0.03 and cap is not None:
            # a reset above capacity is refused and must leave the battery as it was (then keep charging)
            try:
                batt.reset(cap * rng.choice([1.0000001, 1.5, 10]) + rng.choice([0, 1e-9, 1]))
                refused = False
            except ValueError:
                refused = True
            obs.ev("resets_above_capacity")
            c_after = battery_state(batt)[0]
            if refused and c_after != c0:
                obs.violate("refused_reset_changed_charge", f"reset above capacity raised but stored charge went {c0!r} -> {c_after!r} (capacity {cap!r})",
                            battery=b)
            if c_after is not None and c_after > cap * (1 + 1e-9):
                obs.violate("charge_above_capacity", f"after reset above capacity: stored charge {c_after!r} > capacity {cap!r}", battery=b)
            c0 = c_after
        elif r < 0.05 and cap is not None:
            batt.reset(rng.uniform(0, cap))
            obs.ev("resets_within_capacity")
        V_, T_ = case["V"], case["T"]
        if case.get("vary"):
            V_ = rng.choice([case["V"], 120, 208, 240, 277, 400, 480])
            T_ = rng.choice([case["T"], case["T"], 1, 5, 15])
            obs.ev("calls_with_voltage_or_period_changing_on_one_battery")
        if b["t"] == "l2" and case.get("vary") and rng.random() < 0.04 and hasattr(batt, "charge_calculation"):
            # the public charge_calculation attribute is switched on the living object (charge() re-reads it on every call)
            batt.charge_calculation = "stepwise" if batt.charge_calculation == "continuous" else "continuous"
            obs.ev("charge_calculation_switched_on_a_living_battery")
        if case.get("json_p") and rng.random() < case["json_p"]:
            batt = type(batt).from_json(batt.to_json())
            obs.ev("battery_json_round_trips_mid_sequence")
        batt.charge(p, V_, T_)
        obs.regime(name)
        if b["t"] == "l2" and c0 is not None:
            c1 = battery_state(batt)[0]
            ts = b["tsoc"]
            s0, s1 = c0 / cap, c1 / cap
            obs.regime("soc:" + ("full" if s0 >= 1 - 1e-12 else "rampdown" if s0 >= ts else
                                  "crossing" if s1 >= ts else "below"))
    obs.evals = case["n"]
    if obs.events["nontrivial_calls"] > n0:
        obs.nontrivial()
    if obs.sample is None:
        obs.sample = {"kind": "seq", "battery": b, "V": case["V"], "T": case["T"], "calls": case["n"]}


def _run_sim(case, obs):
    from vlib.monitors import SimProbe
    d = case["desc"]
    if case.get("shared_battery") and len(d["sessions"]) >= 2:
        # one Battery object built once and handed to several EVs (a loop that forgot to build a battery per car): the energy
        # book-keeping of such cars is the user's problem, the bounds on every recorded rate are not
        shared = build.build_battery({"t": "ideal", "cap": 1e5, "init": 0, "maxp": 30})
        evs0 = []
        from acnportal.acnsim.models import EV
        for k_, s_ in enumerate(d["sessions"]):
            b_ = shared if k_ % 2 == 0 else build.build_battery(s_["battery"])
            evs0.append(EV(s_["arrival"], s_["departure"], s_["requested"], s_["station"], s_["id"], b_, estimated_departure=s_.get("est_dep", s_["departure"])))
        sim, evs = build.build_sim(d, evs=evs0)
        obs.ev("simulations_with_one_battery_object_shared_by_several_evs")
    elif case.get("bad_pilot_at") is not None:
        # once, the scheduler sends one station a pilot outside its allowable set (the others get valid ones): the network rejects
        # it in the middle of the period and run() raises; whatever the simulator has recorded by then obeys the bounds
        from acnportal.algorithms import BaseAlgorithm
        inner = build.build_scheduler(d)
        stn = d["network"]["stations"]
        box = {"n": 0, "fired": False}

        class OneBadPilot(BaseAlgorithm):
            def __init__(self):
                super().__init__()
                self.max_recompute = inner.max_recompute

            def register_interface(self, interface):
                super().register_interface(interface)
                inner.register_interface(interface)

            def schedule(self, active_sessions):
                out = inner.schedule(active_sessions)
                box["n"] += 1
                if not box["fired"] and box["n"] > case["bad_pilot_at"] and len(active_sessions) >= 1:
                    box["fired"] = True
                    victim = stn[(len(stn) // 2 + box["n"]) % max(1, len(stn) - 1)]  # (never the last one registered)
                    mx = gen.evse_max(victim["evse"])
                    bad = (mx + 7.3) if mx != float("inf") else -5.0
                    L = len(next(iter(out.values()))) if out else 1
                    out = {k_: list(v_) for k_, v_ in out.items()}
                    out[victim["id"]] = [bad] + [0.0] * (L - 1)
                    # the stations registered after the victim are switched off in this period (0 A is valid everywhere), the ones
                    # before it keep what the scheduler decided or get their maximum
                    vi_ = [s_["id"] for s_ in stn].index(victim["id"])
                    for j_, s_ in enumerate(stn):
                        if j_ > vi_:
                            out[s_["id"]] = [0.0] * L
                        else:
                            out.setdefault(s_["id"], [float(gen.evse_max(s_["evse"])) if gen.evse_max(s_["evse"]) != float("inf") else 16.0] + [0.0] * (L - 1))
                return out

        sim, evs = build.build_sim(d, scheduler=OneBadPilot())
        obs.ev("simulations_in_which_one_station_is_sent_an_invalid_pilot_once")
    else:
        sim, evs = build.build_sim(d)
    _sim_once(obs, d, sim, "first use of the EV objects")
    if case.get("reuse_evs"):
        # day 2: the same EV objects after their public reset(), on a fresh network and simulator, under a scheduler that keeps
        # some connected cars at 0 A for their first periods (one at a time)
        for e in evs:
            e.reset()
        d2 = dict(d, scheduler={"kind": "scripted", "mr": 1, "seed": d.get("np_seed", 1), "t0": 0, "p_empty": 0.0, "max_len": 1, "p_st": 0.35,
                                "mode": "random"})
        sim2, _ = build.build_sim(d2, evs=evs)
        obs.ev("second_simulations_with_reset_evs")
        _sim_once(obs, d2, sim2, "EV objects reused after reset()")


def _sim_once(obs, d, sim, how):
    from vlib.monitors import SimProbe
    probe = SimProbe(sim, snapshots=False).attach()
    exc = probe.run()
    probe.detach()
    if exc is not None:
        obs.ev("sim_ended_with_exception:" + type(exc).__name__)
    T = sim.iteration
    if exc is not None:
        # the run was cut short inside period T: that period's column (and whatever lies beyond) is judged too
        W = min(sim.charging_rates.shape[1], sim.pilot_signals.shape[1])
        cr, ps = sim.charging_rates[:, :W], sim.pilot_signals[:, :W]
        obs.ev("aborted_runs_judged_including_the_aborted_period")
    else:
        cr, ps = sim.charging_rates[:, :T], sim.pilot_signals[:, :T]
    obs.ev("sim_cells_checked", int(cr.size))
    tol = 1e-9 * np.maximum(1.0, np.abs(ps))
    bad = ~((cr >= -tol) & (cr <= ps + tol)) & (ps >= 0)  # (the statement speaks of pilots >= 0; a recorded negative pilot is not judged)
    if bad.any():
        i, t = map(int, np.argwhere(bad)[0])
        obs.violate("sim_rate_outside_0_pilot",
                    f"{how}: station row {i} period {t}: rate {cr[i, t]!r} pilot {ps[i, t]!r}",
                    station=sim.network.station_ids[i], period=t, rate=cr[i, t], pilot=ps[i, t])
    if (cr != 0).any():
        obs.nontrivial()
    obs.sample = {"kind": "sim", "stations": len(d["network"]["stations"]), "sessions": len(d["sessions"]),
                  "scheduler": d["scheduler"]["kind"], "periods": T, "nonzero_rate_cells": int((cr != 0).sum())}


def classify(v):
    w = v.get("witness") or {}
    if v["kind"] in ("rate_outside_0_pilot", "charge_decreased", "sim_rate_outside_0_pilot") and \
            w.get("calc") == "continuous" and (w.get("noise") or 0) > 0 and (w.get("rate") or 0) < 0:
        return "continuous_noise_unclamped"
    return None
