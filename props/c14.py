"""C14 — battery models follow their documented charging laws (noise off)."""
import math
import random

import numpy as np

from vlib import oracles, build
from vlib.monitors import battery_state

ID = "C14"
META = {
    "technique": "runtime monitoring: Battery.charge return value and stored charge compared with an independently derived solution of the documented law, plus metamorphic relations (split period, monotonicity, zero pilot, reset) on the real objects",
    "design_ref": "DESIGN.md section 6 C14",
    "level_text": "exploration: 5e4 (quick) / 5e6 (thorough) parameter sets over all regimes of the law (pilot-limited, power-limited, crossing, rampdown, pilot below envelope, full), each judged against a piecewise-analytic reference that is itself cross-checked against numerical integration (RK4; scipy LSODA in the thorough tier); infinite/astronomical pilots and numpy/integer-typed pilot scalars; reset to exactly the capacity; a period at 0 A after a period of charging; miniature batteries with scale-free tolerances",
    "level_note": "the reference is derived from the documented law dE/dt = min(pV, Pmax, Pmax(1-soc)/(1-tsoc)), not from the repository's formulas; the legacy 'stepwise' calculation is judged on the relations that do not depend on the continuous law (zero pilot, reset, bounds) only; tolerance 1e-9 relative to capacity",
}
LEVEL = "exploration"
RULE = ("case = batch of 50 random parameter sets (capacity, initial charge, max power, transition SoC, pilot, voltage, period); each "
        "parameter set is one evaluation with ~8 real charge calls; non-trivial = parameter set with pilot>0 on a non-full battery; "
        "distinct = distinct (batch, index)")
ASSUMPTIONS = [
    "capacity 1..316 kWh log-uniform; max power 0.3..100 kW (4% of the cases: 1e6..1e18 kW); transition SoC in [0,0.99]; pilots incl. 0, tiny, exact max, huge, +inf (what a default EVSE advertises as its maximum), python/numpy int and float scalars; noise off",
    "stepwise calculation is outside the documented continuous law (documented as less accurate) and is not compared with the ODE",
]
ANCHORS = [
    "acnportal.acnsim.models.battery:Battery.charge",
    "acnportal.acnsim.models.battery:Battery.reset",
    "acnportal.acnsim.models.battery:Linear2StageBattery._charge",
    "acnportal.acnsim.models.battery:Linear2StageBattery._charge_stepwise",
]
REQUIRED = ["zero_pilot_after_a_period_of_charging", "ideal_judged", "l2_judged", "regime:pilot-limited-below-transition", "regime:power-limited-below-transition",
            "regime:crossing", "regime:rampdown", "regime:pilot-below-envelope-start-in-rampdown", "regime:full",
            "regime:zero-pilot", "reference_crosschecks", "reset_checks", "reset_after_explicit_reset_checks", "split_checks", "same_object_calls_judged",
            "infinite_or_astronomical_pilots", "numpy_scalar_pilots", "extreme_max_power_or_transition", "shallow_copies_charged"]
BUDGET_S = {"quick": 200, "thorough": 2400}


def cases(seed, tier):
    rng = random.Random(f"C14:{seed}")
    n = 1000 if tier == "quick" else 100000
    return [{"seed": rng.randrange(1 << 40), "n": 50, "scipy": tier == "thorough" and i % 10 == 0} for i in range(n)]


def _rk4(cap, c0, pmax, ts, p, V, Tmin, steps=6000):
    h = Tmin / 60.0 / steps
    c = c0

    def f(c):
        soc = c / cap
        return max(0.0, min(p * V / 1000.0, pmax, pmax * (1 - soc) / (1 - ts)))

    for _ in range(steps):
        k1 = f(c); k2 = f(c + h * k1 / 2); k3 = f(c + h * k2 / 2); k4 = f(c + h * k3)
        c += h * (k1 + 2 * k2 + 2 * k3 + k4) / 6
    return c


def _mk(cap, c0, pmax, ts, calc="continuous"):
    from acnportal.acnsim.models import Linear2StageBattery
    return Linear2StageBattery(cap, c0, pmax, transition_soc=ts, charge_calculation=calc)


def run_case(case, obs):
    from acnportal.acnsim.models import Battery
    rng = random.Random(case["seed"])
    for i in range(case["n"]):
        cap = 10 ** rng.uniform(0, 2.5)
        c0 = cap * rng.choice([0, rng.random(), rng.uniform(0.7, 1), 1, rng.uniform(0.97, 1)])
        pmax = 10 ** rng.uniform(-0.5, 2)
        ts = rng.choice([0, 0.5, 0.8, 0.95, round(rng.random() * 0.99, 4)])
        if rng.random() < 0.04:
            # a conditioning corner: a max power many orders above anything the pilot can ask for (the pilot-shifted transition SoC
            # then rounds to exactly 1: no rampdown region left), from empty, part-full, nearly full and full batteries
            pmax = rng.choice([1e9, 1e18, 1e6, 1e16])
            c0 = cap * rng.choice([0, 0.3, 0.999, 1, rng.random()])
            obs.ev("extreme_max_power_or_transition")
        V = rng.choice([120, 208, 240, 400, round(rng.uniform(100, 500), 1)])
        Tm = rng.choice([1, 5, 15, 60, 0.5, 7.5, round(rng.uniform(0.1, 120), 2)])
        p = rng.choice([0, 1e-3, 6, 16, 32, pmax * 1000 / V, 200, rng.uniform(0, 2 * pmax * 1000 / V), 1e4])
        if rng.random() < 0.06:
            # an unbounded pilot: what UncontrolledCharging sends to a default EVSE (max_rate = inf); also astronomically large ones
            p = rng.choice([math.inf, math.inf, 1e300, 1e18])
            obs.ev("infinite_or_astronomical_pilots")
        mini = None
        if rng.random() < 0.06:
            # the same physics in miniature (a coin cell on a trickle charger, a capacitor bank): capacity, maximum power and pilot
            # scaled down together by up to fourteen orders of magnitude; the laws know no absolute scale, so neither do the
            # tolerances in this regime
            mini = 10 ** rng.uniform(-14, -3)
            cap, c0, pmax = cap * mini, c0 * mini, pmax * mini
            if math.isfinite(p):
                p = p * mini
            obs.ev("miniature_batteries")
        pt = rng.random()
        if pt < 0.15:
            p = np.float64(p)  # pilots come out of numpy pilot matrices in simulations
            obs.ev("numpy_scalar_pilots")
        elif pt < 0.2 and p <= 1e6 and p == int(p):  # (a 64-bit integer pilot of 1e18 A overflows in pilot x voltage: harness artefact, not generated)
            p = rng.choice([int, np.int64, np.int32])(p)
            obs.ev("integer_typed_pilots")
        elif pt < 0.25:
            p = float(np.float32(p))
        wit = dict(capacity=cap, init=c0, max_power=pmax, tsoc=ts, voltage=V, period=Tm, pilot=p)
        tol = 1e-9 * max(1.0, cap) if mini is None else 1e-9 * cap
        # ---------------- ideal battery
        b = Battery(cap, c0, pmax)
        r = b.charge(p, V, Tm)
        er, ec = oracles.ideal_ref(cap, c0, pmax, p, V, Tm)
        c1 = battery_state(b)[0]
        obs.ev("ideal_judged")
        if not (abs(r - er) <= 1e-9 * max(1.0, abs(er))) or (c1 is not None and not (abs(c1 - ec) <= tol)):
            obs.violate("ideal_law", f"rate {r!r} charge {c1!r}; law gives rate {er!r} charge {ec!r}", **wit)
        if b.current_charging_power is not None and not (abs(b.current_charging_power - er * V / 1000.0) <= 1e-9 * max(1, pmax)):
            obs.violate("ideal_power", f"current_charging_power {b.current_charging_power!r} vs {er * V / 1000.0!r}", **wit)
        _reset_checks(obs, b, c0, cap, wit)
        # ---------------- two-stage, continuous
        b = _mk(cap, c0, pmax, ts)
        r = b.charge(p, V, Tm)
        c1 = battery_state(b)[0]
        ref = oracles.l2_ref(cap, c0, pmax, ts, p, V, Tm)
        reg = oracles.l2_regime(cap, c0, pmax, ts, p, V, Tm)
        obs.regime("regime:" + reg)
        obs.ev("l2_judged")
        if c1 is None:
            obs.ev("charge_unobserved")
            c1 = c0 + r * V / 1000.0 * Tm / 60.0
        if not (abs(c1 - ref) <= tol):
            obs.violate("two_stage_law", f"[{reg}] stored charge {c1!r}, law gives {ref!r} (delta {c1 - ref:.3e})", regime=reg, **wit)
        if not (abs(r * V / 1000.0 * Tm / 60.0 - (c1 - c0)) <= tol):
            obs.violate("two_stage_rate_vs_energy", f"returned rate {r!r} A inconsistent with charge gained {c1 - c0!r}", **wit)
        if p > 0 and c0 < cap * (1 - 1e-12):
            obs.nontrivial(f"{obs.case_hash}:{i}")
        if p == 0 and (abs(r) > 1e-12 or abs(c1 - c0) > 1e-12 * cap):
            obs.violate("zero_pilot_delivers", f"pilot 0 gave rate {r!r}, charge {c0!r}->{c1!r}", **wit)
        if p > 0 and i % 3 == 0:
            # ... and a period at 0 A right after a period of charging, on the same battery: nothing is delivered, nothing is
            # drawn (the power the battery reports as drawn is zero again)
            rz = b.charge(0, V, Tm)
            cz = battery_state(b)[0]
            pw = getattr(b, "current_charging_power", None)
            obs.ev("zero_pilot_after_a_period_of_charging")
            if abs(rz) > 1e-12 or (cz is not None and abs(cz - c1) > 1e-12 * cap) or (pw is not None and abs(pw) > 1e-12):
                obs.violate("zero_pilot_delivers", f"pilot 0 after a period at {p!r} A: rate {rz!r}, charge {c1!r}->{cz!r}, reported charging power "
                            f"{pw!r} kW", **wit)
        # cross-check of the reference itself against numerical integration (sampled)
        stiff = (pmax / cap / (1 - ts)) * (Tm / 60.0) / 6000 > 0.5  # explicit RK4 with 6000 steps is unstable beyond this
        if i % 10 == 0 and not stiff:
            num = _rk4(cap, c0, pmax, ts, p, V, Tm)
            obs.ev("reference_crosschecks")
            if not (abs(num - ref) <= 1e-6 * max(1.0, abs(ref - c0)) + 1e-7 * cap):
                obs.violate("reference_oracle_disagrees_with_numerical_integration",
                            f"analytic {ref!r} vs RK4 {num!r} — the oracle itself is suspect", **wit)
            if case.get("scipy"):
                from scipy.integrate import solve_ivp
                sol = solve_ivp(lambda t, y: [max(0.0, min(p * V / 1000.0, pmax, pmax * (1 - y[0] / cap) / (1 - ts)))],
                                [0, Tm / 60.0], [c0], method="LSODA", rtol=1e-10, atol=1e-12, max_step=Tm / 60.0 / 50)
                obs.ev("scipy_crosschecks")
                if not (abs(sol.y[0][-1] - ref) <= 1e-6 * max(1.0, abs(ref - c0)) + 1e-7 * cap):
                    obs.violate("reference_oracle_disagrees_with_numerical_integration",
                                f"analytic {ref!r} vs LSODA {sol.y[0][-1]!r}", **wit)
        # ---------------- a shallow copy (copy.copy) is a battery of its own: charging it follows the law from the copied state and
        # leaves the object it was copied from alone
        if i % 9 == 4:
            import copy as _copy
            src = _mk(cap, c0, pmax, ts)
            cp = _copy.copy(src)
            rc = cp.charge(p, V, Tm)
            cc = battery_state(cp)[0]
            obs.ev("shallow_copies_charged")
            # judged: the battery that WAS charged (the copy) follows the law and its returned rate matches its own gain; whether the
            # object it was copied from stays untouched is Python's shallow-copy semantics, recorded only
            if not (abs(cc - ref) <= tol) or not (abs(rc * V / 1000.0 * Tm / 60.0 - (cc - c0)) <= tol):
                obs.violate("shallow_copy_breaks_the_law", f"copy.copy(battery).charge(): copy holds {cc!r} (law {ref!r}), returned rate {rc!r}; the original went from "
                            f"{c0!r} to {battery_state(src)[0]!r}", **wit)
            if battery_state(src)[0] != c0:
                obs.ev("shallow_copies_sharing_state_with_the_original")
            src_i = Battery(cap, c0, pmax)
            cpi = _copy.copy(src_i)
            cpi.charge(p, V, Tm)
            if not (abs(battery_state(cpi)[0] - ec) <= tol):
                obs.violate("shallow_copy_breaks_the_law", f"ideal battery: a copy.copy() charged from {c0!r} holds {battery_state(cpi)[0]!r}, law {ec!r}", **wit)
        # ---------------- relations on the real code
        b1 = _mk(cap, c0, pmax, ts)
        b1.charge(p, V, Tm / 2)
        b1.charge(p, V, Tm / 2)
        obs.ev("split_checks")
        if not (abs(battery_state(b1)[0] - c1) <= tol):
            obs.violate("split_period", f"charge(T) -> {c1!r} but charge(T/2) twice -> {battery_state(b1)[0]!r}", **wit)
        b2 = _mk(cap, c0, pmax, ts)
        b2.charge(p * rng.choice([1.01, 1.3, 3]) + rng.choice([0, 0.1]), V, Tm)
        if battery_state(b2)[0] < c1 - tol:
            obs.violate("not_monotone_in_pilot", f"larger pilot delivered less: {battery_state(b2)[0]!r} < {c1!r}", **wit)
        b3 = _mk(cap, c0, pmax, ts)
        b3.charge(p, V, Tm * rng.choice([1.01, 1.5, 4]))
        if battery_state(b3)[0] < c1 - tol:
            obs.violate("not_monotone_in_period", f"longer period delivered less: {battery_state(b3)[0]!r} < {c1!r}", **wit)
        _reset_checks(obs, b, c0, cap, wit)
        # ---------------- legacy stepwise: law-independent relations only
        bs = _mk(cap, c0, pmax, ts, "stepwise")
        r0 = bs.charge(0, V, Tm)
        if abs(r0) > 1e-12 or abs(battery_state(bs)[0] - c0) > 1e-12 * cap:
            obs.violate("zero_pilot_delivers", f"stepwise: pilot 0 gave rate {r0!r}", **wit)
        rs = bs.charge(p, V, Tm)
        cs = battery_state(bs)[0]
        if not (abs(rs * V / 1000.0 * Tm / 60.0 - (cs - c0)) <= tol):
            obs.violate("two_stage_rate_vs_energy", f"stepwise: rate {rs!r} inconsistent with charge gained {cs - c0!r}", **wit)
        _reset_checks(obs, bs, c0, cap, wit)
    # ---------------- one battery OBJECT charged again and again with pilot, voltage and period changing from call to call
    # (grid values, so that products pilot x voltage x period coincide bit for bit between different periods): every call is
    # judged against the law from the state the object was in before that call
    for calc_obj in range(3):
        cap = rng.choice([8, 40, 75])
        pmax = rng.choice([3.3, 7, 11])
        ts = rng.choice([0.5, 0.8, 0.9])
        b = _mk(cap, cap * rng.uniform(0.3, 0.9), pmax, ts)
        bi = Battery(cap, cap * rng.uniform(0.3, 0.9), pmax)
        for j in range(24):
            pj, Vj, Tj = rng.choice([8, 16, 32, 64, 4]), rng.choice([104, 208, 416]), rng.choice([2.5, 5, 10, 20, 1.25])
            if j % 7 == 3:
                from vlib.monitors import poke
                poke(b, bi)
                poke(bi, _mk(cap, 1.0, pmax, ts))
                obs.ev("objects_printed_compared_hashed_between_calls")
            c_before = battery_state(b)[0]
            r = b.charge(pj, Vj, Tj)
            c_after = battery_state(b)[0]
            ref = oracles.l2_ref(cap, c_before, pmax, ts, pj, Vj, Tj)
            obs.ev("same_object_calls_judged")
            if not abs(c_after - ref) <= 1e-9 * max(1.0, cap):
                obs.violate("two_stage_law", f"same battery object, call {j} with (pilot, V, period) = ({pj}, {Vj}, {Tj}) from charge "
                            f"{c_before!r}: stored charge {c_after!r}, law gives {ref!r}", capacity=cap, max_power=pmax, tsoc=ts,
                            pilot=pj, voltage=Vj, period=Tj, init=c_before, same_object=True)
                break
            ci = battery_state(bi)[0]
            ri = bi.charge(pj, Vj, Tj)
            er, ec = oracles.ideal_ref(cap, ci, pmax, pj, Vj, Tj)
            if not abs(ri - er) <= 1e-9 * max(1.0, abs(er)):
                obs.violate("ideal_law", f"same battery object, call {j}: rate {ri!r}, law gives {er!r}", capacity=cap, max_power=pmax,
                            pilot=pj, voltage=Vj, period=Tj, init=ci, same_object=True)
                break
            if c_after >= cap * (1 - 1e-9) and rng.random() < 0.5:
                b.reset(cap * rng.uniform(0.3, 0.8))
    obs.evals = case["n"]
    obs.sample = {"batch": case["n"], "last": wit, "last_regime": reg}


def _reset_checks(obs, b, c0, cap, wit):
    obs.ev("reset_checks")
    b.reset()
    c, _, _, pw = battery_state(b)
    if abs(c - c0) > 1e-12 * cap or abs(pw) > 1e-12:
        obs.violate("reset_not_restoring", f"after reset: charge {c!r} (initial {c0!r}), power {pw!r}", **wit)
    try:
        b.reset(cap * 1.5 + 1)
        obs.violate("reset_above_capacity_accepted", "reset(init_charge > capacity) did not raise", **wit)
    except Exception:
        pass  # refused; the error class is the library's choice
    b.reset(c0 / 2)
    if abs(battery_state(b)[0] - c0 / 2) > 1e-12 * cap:
        obs.violate("reset_value", f"reset({c0 / 2!r}) left charge {battery_state(b)[0]!r}", **wit)
    # a reset to exactly the capacity (a car that arrives full) is within the documented domain (refused only ABOVE capacity)
    try:
        b.reset(cap)
        if abs(battery_state(b)[0] - cap) > 1e-12 * cap:
            obs.violate("reset_value", f"reset(capacity) left charge {battery_state(b)[0]!r}", **wit)
    except Exception as e_:
        obs.violate("reset_to_capacity_refused", f"reset({cap!r}) with capacity {cap!r}: {type(e_).__name__}: {e_}", **wit)
    b.reset(c0 / 2)
    # reset to an explicit charge, use the battery, then a plain reset(): the construction-time initial state comes back
    b.charge(16, 208, 5)
    b.reset()
    c, _, _, pw = battery_state(b)
    obs.ev("reset_after_explicit_reset_checks")
    if abs(c - c0) > 1e-12 * cap or abs(pw) > 1e-12:
        obs.violate("reset_after_explicit_reset_not_restoring", f"reset(x); charge; reset(): charge {c!r} (initial {c0!r}), power {pw!r}", **wit)


def classify(v):
    return None
