"""C11 — event queue returns events by time then precedence, for every interleaving (model-based)."""
import itertools
import random
import warnings

import numpy as np

ID = "C11"
META = {
    "technique": "runtime monitoring: every return value of the public queue methods checked against a sorted-multiset reference model; bounded operation alphabet enumerated exhaustively, long random histories with JSON round trips",
    "design_ref": "DESIGN.md section 6 C11",
    "level_text": "exploration, with a finite sub-space enumerated completely: all operation sequences up to length 5 (quick) / 6 (thorough) over {add(ts in 0..2 x Unplug/Plugin/Recompute), get_event, get_current_events(t in 0..2)} with len/empty/last-timestamp queried after every step, plus random histories of 50-300 operations with up to 40 timestamps, bulk adds, duplicates and JSON round trips; every returned list is mutated by the client after judging; queues of up to 4100 pending events partly drained; a fifth of the random histories run with warnings turned into errors (a retrieval that raises must not consume events); user events (an unserialisable subclass, Event-like objects), dumps and bulk insertions failing part-way",
    "level_note": "model identity is the descriptive key (timestamp, precedence, session id), so it survives a JSON round trip; ties among equal keys are free; get_event on an empty queue is outside the property and never issued",
}
LEVEL = "exploration"
RULE = ("case = one length-2 prefix of the bounded alphabet whose every continuation up to the length bound is replayed from a fresh "
        "queue (exhaustive part), or one seeded random history; every replayed sequence / every operation of a random history is an "
        "evaluation; non-trivial = sequence containing at least one retrieval after >=2 insertions with a timestamp or precedence tie "
        "or inversion; distinct = distinct sequences")
ASSUMPTIONS = [
    "required order by event class: Unplug < Plugin < Recompute < base Event, independent of the numeric precedence attribute",
    "get_event is only issued on a non-empty queue",
]
ANCHORS = [
    "acnportal.acnsim.events.event_queue:EventQueue.add_event",
    "acnportal.acnsim.events.event_queue:EventQueue.add_events",
    "acnportal.acnsim.events.event_queue:EventQueue.get_event",
    "acnportal.acnsim.events.event_queue:EventQueue.get_current_events",
    "acnportal.acnsim.events.event_queue:EventQueue.get_last_timestamp",
    "acnportal.acnsim.events.event_queue:EventQueue._from_dict",
    "acnportal.acnsim.events.event:Event.__lt__",
]
REQUIRED = ["histories_under_warnings_as_errors", "histories_with_user_events", "dumps_failing_part_way", "op:add_events_from_a_generator_failing_part_way", "fractional_timestamps_of_mixed_float_types", "ctor_events_as:generator", "ctor_events_as:iter", "bulk_queues_over_1000_pending", "returned_lists_mutated_by_the_client", "exhaustive_sequences", "random_ops", "json_round_trips", "op:get_event", "op:get_current_events",
            "op:add_events_bulk", "op:constructor_events", "ties_seen", "sim_runs_monitored", "sim_json_round_trips",
            "bulk_queues", "bulk_all_due_retrievals", "custom_precedence_round_trips", "queue_monitor:get_current_events", "queue_monitor:add", "queue_monitor:get_last_timestamp", "suite:queue_monitor:get_event"]
BUDGET_S = {"quick": 240, "thorough": 3000}
EXHAUSTIVE = {"quick": "all sequences of length <= 5 over the 13-operation alphabet, get_event on an empty queue excluded (count: monitor_events.exhaustive_sequences)",
              "thorough": "all sequences of length <= 6 over the 13-operation alphabet, get_event on an empty queue excluded (count: monitor_events.exhaustive_sequences)"}

KINDS = ["U", "P", "R"]
ALPHA = [("add", ts, k) for ts in range(3) for k in KINDS] + [("get",)] + [("cur", t) for t in range(3)]


def cases(seed, tier):
    rng = random.Random(f"C11:{seed}")
    L = 5 if tier == "quick" else 6
    out = [{"kind": "exh", "prefix": [i, j], "L": L} for i in range(len(ALPHA)) for j in range(len(ALPHA))]
    out.append({"kind": "exh_short"})
    nr = 400 if tier == "quick" else 20000
    out += [{"kind": "rand", "seed": rng.randrange(1 << 40), "n": rng.choice([50, 120, 300])} for _ in range(nr)]
    # the queue embedded in real runs: generated simulations (incl. an interruption + JSON round trip in the middle) and the
    # repository's own tests, under the class-level contract monitor (vlib/qmonitor.py)
    ns = 120 if tier == "quick" else 4000
    from vlib import gen
    for _ in range(ns):
        out.append({"kind": "sim", "desc": gen.scenario(rng, sched=rng.choice(["scripted", "uncontrolled", "sorted"]),
                                                        kinds=("EVSE", "FR"), noise_p=0.0), "json_at": rng.choice([None, 1, 3, 6])})
    out.append({"kind": "suite"})
    # large pending sets (hundreds of events of mixed kinds, many or all of them due at once)
    nb = 24 if tier == "quick" else 600
    out += [{"kind": "bulk", "seed": rng.randrange(1 << 40), "n": rng.choice([128, 129, 200, 257, 400, 700]),
             "all_due": rng.random() < 0.6} for _ in range(nb)]
    # thousands of pending events (sizes around powers of two), many distinct timestamps, partly drained, then used further
    out += [{"kind": "bulk", "seed": rng.randrange(1 << 40), "n": rng.choice([1023, 1024, 1025, 1500, 2048, 2049, 3000, 4100]),
             "all_due": False, "many_ts": rng.random() < 0.6} for _ in range(nb // 2)]
    # ... and, deliberately, every size around the powers of two with many distinct timestamps inserted in random order and a first
    # retrieval at the median timestamp (about half of the pending events due at once), then drained one by one
    out += [{"kind": "bulk", "seed": rng.randrange(1 << 40), "n": n_, "all_due": False, "many_ts": True, "median_first": True}
            for n_ in (1024, 1025, 1500, 2048, 2049, 4100)]
    out += [{"kind": "custom", "seed": rng.randrange(1 << 40)} for _ in range(300 if tier == "quick" else 20000)]
    return out


class Ctx:
    def __init__(self):
        from acnportal.acnsim.events import EventQueue, PluginEvent, UnplugEvent, RecomputeEvent, Event
        from acnportal.acnsim.models import EV, Battery
        self.EventQueue, self.Event = EventQueue, Event
        self.cls = {"U": UnplugEvent, "P": PluginEvent, "R": RecomputeEvent}
        self.evs = [EV(0, 10, 5.0, f"st{i}", f"sess{i}", Battery(50, 0, 7)) for i in range(12)]

    def make(self, kind, ts, evi=0):
        if kind == "X":
            return self.user_events()[0](ts)
        if kind == "L":
            return self.user_events()[1](ts, [5, 15, 25][evi % 3])
        if kind == "R":
            return self.cls["R"](ts)
        if kind == "E":
            return self.Event(ts)
        return self.cls[kind](ts, self.evs[evi % len(self.evs)])


def _user_events(self):
    """Two things a user may put into the queue: an Event subclass of their own whose serialisation fails (it holds a handle that
    cannot be written), and an 'Event-like' object (the docstrings' word) that does not derive from Event at all: a timestamp, a
    precedence between the library's own (5, 15 or 25) and an ordering by precedence."""
    if not hasattr(self, "_ue"):
        Event = self.Event

        class Unserialisable(Event):
            def _to_dict(self, context_dict=None):
                raise RuntimeError("this event holds an open handle and cannot be serialised")

        class EventLike:
            event_type = "TariffChange"

            def __init__(self, timestamp, precedence):
                self.timestamp, self.precedence = timestamp, precedence
                self.verif_rank = {5: 0.5, 15: 1.5, 25: 2.5}[precedence]

            def __lt__(self, other):
                return self.precedence < other.precedence

        self._ue = (Unserialisable, EventLike)
    return self._ue


Ctx.user_events = _user_events
_CTX = {}


def ctx():
    if "c" not in _CTX:
        _CTX["c"] = Ctx()
    return _CTX["c"]


def rank_of(ev):
    """Order required by the property: unplug, then plug-in, then recompute (base events last).
    Decided by the event's class, not by its own `precedence` attribute."""
    c = ctx()
    if getattr(ev, "verif_rank", None) is not None:
        return ev.verif_rank
    for r, k in enumerate("UPR"):
        if isinstance(ev, c.cls[k]):
            return r
    return 3


def key_of(ev):
    ts = ev.timestamp
    if isinstance(ts, (float, np.floating)):
        ts = float(ts)  # exact; the model compares in double precision whatever float type the event carries
    return (ts, rank_of(ev), getattr(getattr(ev, "ev", None), "session_id", None))


class Model:
    """Reference: multiset of descriptive keys."""

    def __init__(self):
        self.items = []

    def add(self, ev):
        self.items.append(key_of(ev))

    def min_key(self):
        return min((k[0], k[1]) for k in self.items)

    def remove(self, k):
        self.items.remove(k)

    def last_ts(self):
        return max(k[0] for k in self.items) if self.items else None


def check_queries(q, m, obs, hist):
    if len(hist) % 11 == 5:
        from vlib.monitors import poke
        poke(q, ctx().EventQueue())
        for _ts, _e in list(q.queue)[:3]:
            poke(_e, ctx().make("R", _ts))
        obs.ev("objects_printed_compared_hashed_between_operations")
    if len(q) != len(m.items):
        obs.violate("len_wrong", f"len(queue)={len(q)} pending={len(m.items)}", history=hist[-12:])
        return False
    if q.empty() != (not m.items):
        obs.violate("empty_wrong", f"empty()={q.empty()} pending={len(m.items)}", history=hist[-12:])
        return False
    lt = q.get_last_timestamp()
    if lt != m.last_ts():
        obs.violate("last_timestamp_wrong", f"get_last_timestamp()={lt!r} expected {m.last_ts()!r}", history=hist[-12:])
        return False
    return True


def do_get(q, m, obs, hist):
    ev = q.get_event()
    k = key_of(ev)
    obs.ev("op:get_event")
    if k not in m.items:
        obs.violate("returned_event_not_pending", f"get_event returned {k} not in pending {sorted(m.items)[:8]}", history=hist[-12:])
        return False
    mk = m.min_key()
    if (k[0], k[1]) != mk:
        obs.violate("not_minimal", f"get_event returned (ts, precedence)={k[:2]} while {mk} is pending", history=hist[-12:])
        return False
    if sum(1 for x in m.items if (x[0], x[1]) == mk) > 1:
        obs.ev("ties_seen")
    m.remove(k)
    return True


def do_cur(q, m, t, obs, hist):
    got = q.get_current_events(t)
    keys = [key_of(e) for e in got]
    obs.ev("op:get_current_events")
    exp = sorted(k for k in m.items if k[0] <= t)
    if sorted(keys, key=lambda k: (k[0], k[1], str(k[2]))) != sorted(exp, key=lambda k: (k[0], k[1], str(k[2]))):
        obs.violate("current_events_set", f"get_current_events({t}) returned {keys}, pending with ts<={t}: {exp}", history=hist[-12:])
        return False
    order = [(k[0], k[1]) for k in keys]
    if order != sorted(order):
        obs.violate("current_events_order", f"get_current_events({t}) order {order}", history=hist[-12:])
        return False
    for k in keys:
        m.remove(k)
    # a client that treats the returned list as its own (extends it with another site's events, clears it after use): what it
    # does to the list it was handed must not show up in any later answer of any queue
    try:
        if (len(keys) + t) % 3 == 0:
            got.append(ctx().make("R", 10 ** 6 + t))
            got.insert(0, ctx().make("U", -5, evi=t))
        elif (len(keys) + t) % 3 == 1:
            got.clear()
        obs.ev("returned_lists_mutated_by_the_client")
    except Exception:
        pass
    return True


def _replay(seq, obs, c):
    q = c.EventQueue()
    m = Model()
    hist = []
    ins = 0
    interesting = False
    for n, op in enumerate(seq):
        hist.append(list(op))
        if op[0] == "add":
            ev = c.make(op[2], op[1], evi=n)
            q.add_event(ev)
            m.add(ev)
            ins += 1
        elif op[0] == "get":
            if not m.items:
                return None  # outside the property; sequence not counted
            if ins >= 2:
                interesting = True
            if not do_get(q, m, obs, hist):
                return False
        else:
            if ins >= 2:
                interesting = True
            if not do_cur(q, m, op[1], obs, hist):
                return False
        if not check_queries(q, m, obs, hist):
            return False
    return interesting


def _run_exh(case, obs):
    c = ctx()
    pre = [ALPHA[i] for i in case["prefix"]]
    L = case["L"]
    n = nt = 0
    for extra in range(0, L - 1):
        for tail in itertools.product(ALPHA, repeat=extra):
            r = _replay(pre + list(tail), obs, c)
            if r is None:
                continue
            n += 1
            if r:
                nt += 1
            if r is False and len(obs.viol) >= 5:
                break
    obs.ev("exhaustive_sequences", n)
    obs.evals = max(1, n)
    # each replayed sequence is distinct by construction; count the non-trivial ones
    obs.ev("exhaustive_nontrivial", nt)
    for i in range(min(nt, 20000)):
        obs.nontrivial(f"{obs.case_hash}:{i}")
    obs.sample = {"kind": "exhaustive", "prefix": [list(p) for p in pre], "max_length": L, "sequences": n}


def _run_exh_short(obs):
    c = ctx()
    n = 0
    for L in (1,):
        for seq in itertools.product(ALPHA, repeat=L):
            if _replay(list(seq), obs, c) is not None:
                n += 1
    obs.ev("exhaustive_sequences", n)
    obs.evals = max(1, n)


def _run_rand(case, obs):
    c = ctx()
    rng = random.Random(case["seed"])
    nts = rng.choice([3, 10, 40])
    # timestamps: period indices (ints) or - every 8th case - fractional ones of one float type per queue (python float, numpy
    # float16 / float32 / float64, values whose decimal expansion is not short); queries then fall a hair before / on / after pending timestamps
    fl = case["seed"] % 8 == 0
    if fl:
        import numpy as _np
        # one float type per queue (numpy compares a float32 with a python float in float32: mixing types inside one heap would
        # make the order a property of numpy's promotion rules, not of the queue)
        ftype = rng.choice([float, _np.float32, _np.float32, _np.float64, _np.float16])
        grid = [ftype(rng.choice([0.3, 0.1, 1 / 3, 2.5, 7.25, 0.7]) * rng.randint(1, 9)) for _ in range(nts)]
        obs.ev("fractional_timestamps_of_mixed_float_types")
        obs.ev("fractional_timestamps:" + ftype.__name__)
    else:
        grid = list(range(nts))

    def ts_():
        return grid[rng.randrange(nts)]

    m = Model()
    hist = []
    init = []
    # every fifth history runs in a process that turns warnings into exceptions (python -W error, pytest's filterwarnings=error):
    # a call that raises a Warning was refused, so a retrieval must have kept what it did not hand over, and an insertion must
    # be pending completely or not at all (decided by the queue's own length)
    strict = case["seed"] % 5 == 1
    if strict:
        obs.ev("histories_under_warnings_as_errors")
        with warnings.catch_warnings():
            warnings.simplefilter("error")
            return _run_rand_body(case, obs, c, rng, nts, fl, ts_, m, hist, init, True)
    return _run_rand_body(case, obs, c, rng, nts, fl, ts_, m, hist, init, False)


def _run_rand_body(case, obs, c, rng, nts, fl, ts_, m, hist, init, strict):
    def refused(what, e_):
        obs.ev("calls_that_raised_a_warning_as_error")
        hist.append([what + " raised " + type(e_).__name__])

    # every sixth history (integer timestamps) also holds user events: a subclass whose serialisation fails, Event-like objects
    user_ok = (case["seed"] % 6 == 2) and not fl
    if user_ok:
        obs.ev("histories_with_user_events")

    if rng.random() < 0.5:
        init = [c.make(rng.choice("UPRE"), ts_(), rng.randrange(12)) for _ in range(rng.randint(1, 8))]
        # the constructor's events come as a list, a tuple, or a one-shot iterable (generator, map, iterator)
        form = rng.choice(["list", "list", "tuple", "generator", "map", "iter"])
        obs.ev("ctor_events_as:" + form)
        q = c.EventQueue({"list": lambda: list(init), "tuple": lambda: tuple(init), "generator": lambda: (e_ for e_ in init),
                          "map": lambda: map(lambda e_: e_, init), "iter": lambda: iter(init)}[form]())
        for e in init:
            m.add(e)
        obs.ev("op:constructor_events")
        hist.append(["ctor", [list(map(str, key_of(e))) for e in init]])
    else:
        q = c.EventQueue()
    pool = list(init)
    if not check_queries(q, m, obs, hist):
        return
    for step in range(case["n"]):
        r = rng.random()
        if r < 0.4:
            if pool and rng.random() < 0.1:
                ev = rng.choice(pool)  # the same event object again
                obs.ev("duplicate_object_added")
            else:
                ev = c.make(rng.choice("UPRE" if not user_ok else "UPREXLL"), ts_(), rng.randrange(12))
                pool.append(ev)
            n0 = len(q)
            try:
                q.add_event(ev)
                m.add(ev)
            except Warning as e_:
                if not strict:
                    raise
                refused("add_event", e_)
                if len(q) == n0 + 1:
                    m.add(ev)
            hist.append(["add"] + list(map(str, key_of(ev))))
        elif r < 0.43 and not strict:
            # a bulk insertion fed by a user generator that fails part-way: the caller catches the exception and keeps using the
            # queue; whatever prefix of the batch got in (read from the queue's own length) is pending, nothing else changed
            evs = [c.make(rng.choice("UPR"), ts_(), rng.randrange(12)) for _ in range(rng.randint(1, 6))]
            k_ok = rng.randint(0, len(evs) - 1)

            def feed():
                for j_, e_ in enumerate(evs):
                    if j_ == k_ok:
                        raise RuntimeError("user generator failed")
                    yield e_

            n0 = len(q)
            try:
                q.add_events(feed())
                obs.violate("failing_generator_swallowed", "add_events consumed a generator that raises and reported nothing", history=hist[-12:])
                return
            except RuntimeError:
                pass
            got_in = len(q) - n0
            if not (0 <= got_in <= k_ok):
                obs.violate("len_wrong", f"add_events from a generator that failed after {k_ok} events: len grew by {got_in}", history=hist[-12:])
                return
            for e in evs[:got_in]:
                m.add(e)
            obs.ev("op:add_events_from_a_generator_failing_part_way")
            hist.append(["add_events_failing", k_ok, got_in])
        elif r < 0.5:
            evs = [c.make(rng.choice("UPR"), ts_(), rng.randrange(12)) for _ in range(rng.randint(0, 6))]
            n0 = len(q)
            try:
                q.add_events(evs if rng.random() < 0.6 else rng.choice([tuple(evs), (e_ for e_ in evs), iter(evs)]))
                for e in evs:
                    m.add(e)
            except Warning as e_:
                if not strict:
                    raise
                refused("add_events", e_)
                if len(q) == n0 + len(evs):
                    for e in evs:
                        m.add(e)
                elif len(q) != n0:
                    obs.violate("refused_bulk_insertion_left_a_part_behind", f"add_events raised {type(e_).__name__} with {len(q) - n0} of {len(evs)} events pending", history=hist[-12:])
                    return
            obs.ev("op:add_events_bulk")
            hist.append(["add_events", len(evs)])
        elif r < 0.7:
            if not m.items:
                continue
            hist.append(["get"])
            try:
                if not do_get(q, m, obs, hist):
                    return
            except Warning as e_:
                if not strict:
                    raise
                refused("get_event", e_)
        elif r < 0.92:
            # (query times are numpy float64 scalars in this mode: comparing a float32 timestamp with a *python* float is done in
            # float32 under numpy's promotion rules, in float64 after the timestamp has been through JSON - not the queue's doing)
            t = rng.randrange(-1, nts + 1) if not fl else np.float64(float(ts_()) + rng.choice([-1e-9, 0.0, 1e-9, 0.5]))
            hist.append(["cur", t])
            try:
                if not do_cur(q, m, t, obs, hist):
                    return
            except Warning as e_:
                if not strict:
                    raise
                refused("get_current_events", e_)
        elif any(type(e_).__name__ in ("Unserialisable", "EventLike") for _t, e_ in q.queue):
            # the dump fails part-way at an event that cannot be written; the caller catches the error and keeps using the queue,
            # which must be what it was (judged by the queries below and by every later retrieval)
            try:
                with warnings.catch_warnings():
                    warnings.simplefilter("ignore")
                    q.to_json()
                obs.ev("dump_with_unwritable_event_succeeded_not_judged")
            except Exception:
                obs.ev("dumps_failing_part_way")
            hist.append(["json_failing"])
        else:
            with warnings.catch_warnings():
                warnings.simplefilter("ignore")
                q = c.EventQueue.from_json(q.to_json())
            obs.ev("json_round_trips")
            hist.append(["json"])
        obs.ev("random_ops")
        if not check_queries(q, m, obs, hist):
            return
    # drain: the complete retrieval order must be non-decreasing in (timestamp, precedence)
    last = None
    while m.items:
        hist.append(["get"])
        if not do_get(q, m, obs, hist):
            return
        if not check_queries(q, m, obs, hist):
            return
    obs.evals = case["n"]
    obs.nontrivial()
    obs.sample = {"kind": "random", "ops": case["n"], "timestamps": nts, "first_ops": hist[:8]}


def worker_init():
    from vlib import qmonitor
    qmonitor.install()


def _run_sim(case, obs):
    from vlib import build, qmonitor
    from acnportal.acnsim import Simulator
    d = case["desc"]
    qmonitor.CUR["obs"] = obs
    try:
        sim, evs = build.build_sim(d)
        k = case.get("json_at")
        if k is not None:
            orig = sim.scheduler.run
            fired = []

            def flaky():
                if sim.iteration >= k and not fired:
                    fired.append(1)
                    raise KeyboardInterrupt
                return orig()

            sim.scheduler.run = flaky
            try:
                sim.run()
            except KeyboardInterrupt:
                sim.scheduler.run = orig
                s2 = Simulator.from_json(sim.to_json())
                s2.update_scheduler(sim.scheduler)
                obs.ev("sim_json_round_trips")
                sim = s2
        try:
            sim.run()
        except Exception:
            obs.ev("sim_run_raised_not_judged_here")
    finally:
        qmonitor.CUR["obs"] = None
    obs.ev("sim_runs_monitored")
    obs.evals = max(1, sum(v for kk, v in obs.events.items() if kk.startswith("queue_monitor:")))
    obs.sample = {"kind": "sim", "queue_calls": obs.evals, "periods": sim.iteration}


def _run_bulk(case, obs):
    """Hundreds of pending events, mixed kinds, few distinct timestamps; retrieved in one go, in halves, or one by one."""
    c = ctx()
    rng = random.Random(case["seed"])
    n = case["n"]
    nts = rng.choice([1, 2, 5, 12]) if not case.get("many_ts") else rng.choice([40, 300, 5000])
    if n >= 1000:
        obs.ev("bulk_queues_over_1000_pending")
    evs = [c.make(rng.choice("UPR"), rng.randrange(nts), rng.randrange(12)) for _ in range(n)]
    m = Model()
    hist = []
    if rng.random() < 0.5:
        q = c.EventQueue(list(evs))
        hist.append(("ctor", n))
    else:
        q = c.EventQueue()
        half = n // 2
        q.add_events(evs[:half])
        for e in evs[half:]:
            q.add_event(e)
        hist.append(("add_events+add_event", n))
    for e in evs:
        m.add(e)
    obs.ev("bulk_queues")
    if not check_queries(q, m, obs, hist):
        return
    if rng.random() < 0.3:
        import json as _json
        q = c.EventQueue.from_json(q.to_json())
        hist.append(("json",))
        obs.ev("json_round_trips")
    if case["all_due"]:
        t = nts + rng.choice([0, 3])
        hist.append(("cur", t))
        if not do_cur(q, m, t, obs, hist) or not check_queries(q, m, obs, hist):
            return
        obs.ev("bulk_all_due_retrievals")
    else:
        times_ = sorted(rng.sample(range(nts + 1), min(nts + 1, rng.randint(1, 4)))) if nts <= 12 else sorted(
            rng.sample(range(nts), 3) + [nts // 2, (2 * nts) // 3])
        if case.get("median_first"):
            times_ = [nts // 2, (3 * nts) // 4]
        for t in times_:
            hist.append(("cur", t))
            if not do_cur(q, m, t, obs, hist) or not check_queries(q, m, obs, hist):
                return
            if rng.random() < 0.5:
                e = c.make(rng.choice("UPR"), rng.randrange(nts + 2), rng.randrange(12))
                q.add_event(e)
                m.add(e)
        while m.items and rng.random() < 0.98:
            hist.append(("get",))
            if not do_get(q, m, obs, hist):
                return
    obs.evals = n
    obs.nontrivial()
    obs.sample = {"kind": "bulk", "events": n, "timestamps": nts, "all_due": case["all_due"]}


def _run_custom(case, obs):
    """Events whose `precedence` was set on the instance (a public attribute): the statement's class order does not apply to
    them, but 'a queue restored from JSON behaves identically to the original' does — the restored queue must pop the same
    (timestamp, precedence, kind, session) sequence as a deep copy of the original, and keep doing so after more insertions."""
    import copy
    c = ctx()
    rng = random.Random(case["seed"])
    q = c.EventQueue()
    nts = rng.choice([1, 2, 4])
    for _ in range(rng.randint(3, 14)):
        e = c.make(rng.choice("UPRE"), rng.randrange(nts), rng.randrange(12))
        if rng.random() < 0.5:
            e.precedence = rng.choice([-1, 0.5, 1.5, 7, 20, -3.25])
        q.add_event(e)
    for _ in range(rng.randint(0, 2)):
        if not q.empty():
            q.get_event()
    desc = lambda e: (e.timestamp, float(e.precedence), type(e).__name__, getattr(getattr(e, "ev", None), "session_id", None))
    orig = copy.deepcopy(q)
    rest = c.EventQueue.from_json(q.to_json())
    obs.ev("custom_precedence_round_trips")
    obs.ev("json_round_trips")
    seq_o, seq_r = [], []
    step = 0
    while not orig.empty() or not rest.empty():
        if orig.empty() != rest.empty() or len(orig) != len(rest) or orig.get_last_timestamp() != rest.get_last_timestamp():
            obs.violate("restored_queue_differs", f"after {step} pops: original len {len(orig)}, restored len {len(rest)}", popped=seq_o[-4:])
            return
        a, b = desc(orig.get_event()), desc(rest.get_event())
        seq_o.append(a)
        seq_r.append(b)
        if (a[0], a[1]) != (b[0], b[1]) or sorted(map(repr, seq_o)) != sorted(map(repr, seq_r)) and a[:2] != b[:2]:
            obs.violate("restored_queue_differs", f"pop {step}: original returns {a}, restored returns {b}", original=seq_o[-5:], restored=seq_r[-5:])
            return
        step += 1
        if rng.random() < 0.25:
            e1 = c.make(rng.choice("UPR"), rng.randrange(nts + 1), rng.randrange(12))
            e2 = copy.deepcopy(e1)
            orig.add_event(e1)
            rest.add_event(e2)
    if sorted(map(repr, seq_o)) != sorted(map(repr, seq_r)):
        obs.violate("restored_queue_differs", "restored queue returned a different multiset of events", original=seq_o[:8], restored=seq_r[:8])
    obs.evals = max(1, step)
    obs.sample = {"kind": "custom_precedence", "popped": seq_o[:6]}


def run_case(case, obs):
    if case["kind"] == "custom":
        return _run_custom(case, obs)
    if case["kind"] == "bulk":
        return _run_bulk(case, obs)
    if case["kind"] == "sim":
        return _run_sim(case, obs)
    if case["kind"] == "suite":
        from vlib import simrun
        simrun.run_repo_suite_monitored("C11", obs)
        obs.evals = max(1, sum(v for kk, v in obs.events.items() if kk.startswith("suite:queue_monitor:")))
        obs.sample = {"kind": "suite", "queue_calls": obs.evals}
        return
    if case["kind"] == "exh":
        _run_exh(case, obs)
    elif case["kind"] == "exh_short":
        _run_exh_short(obs)
    else:
        _run_rand(case, obs)


def classify(v):
    return None
