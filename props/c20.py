"""C20 — ACN-Data client yields every session once and converts times faithfully."""
import copy
import json
import random
import sys
import zoneinfo
from datetime import datetime, timedelta, timezone
from email.utils import parsedate_to_datetime
from urllib.parse import urlsplit, parse_qs

from vlib.fakeserver import FakeRequests, Installed, rfc1123

ID = "C20"
META = {
    "technique": "runtime monitoring: the real DataClient driven against a fake paged transport that logs every request and evaluates the filters it receives; yielded ids, request log and parsed datetimes checked against the server-side truth and an independent time-zone database",
    "design_ref": "DESIGN.md section 6 C20",
    "level_text": "exploration over enumerated server paging behaviours (0..n documents x page-size caps x empty pages in the middle / at the end x extra link keys x time-series mode) and query-argument combinations; exactly-once/in-order delivery, next-link following, first-request parameters, filter semantics and time conversion judged on every scenario; 1e5 (quick) http_date/parse_http_date round trips over 12 zones incl. DST gaps and folds; pytz / zoneinfo (fold) / fixed-offset / UTC datetimes with microseconds; chains of over 1000 pages; half of the calls leave options at their documented defaults unmentioned; stand-in transport with params=/Session()/raise_for_status(); filters in python-like and MongoDB-JSON syntax carrying format / template characters; site names as str-Enum members and labelled str subclasses; windows also asked for as a count; count_sessions site check",
    "level_note": "the fake transport replaces data_client.requests; an audit hook proves no socket was opened (otherwise inconclusive); no transport errors are injected because the statement defines no behaviour for them; zone offsets are checked against the stdlib zoneinfo database, independent of pytz",
}
LEVEL = "exploration"
RULE = ("case = one paging scenario (documents, zone, server behaviour, query mode and arguments) or one batch of round-trip instants; "
        "every scenario / instant is one evaluation; non-trivial = scenario with >=2 pages, or an instant within 2 h of a DST transition; "
        "distinct = distinct descriptors")
ASSUMPTIONS = [
    "server pages as an Eve collection: _items, _links.next.href relative to the API root, unique _id per document",
    "no transport faults (HTTP errors, malformed JSON): the property defines no behaviour for them",
    "datetimes passed to http_date are time-zone aware",
]
ANCHORS = [
    "acnportal.acndata.data_client:DataClient.get_sessions",
    "acnportal.acndata.data_client:DataClient.get_sessions_by_time",
    "acnportal.acndata.utils:http_date",
    "acnportal.acndata.utils:parse_http_date",
    "acnportal.acndata.utils:parse_dates",
]
REQUIRED = ["interleaved_scenarios", "scenarios_judged", "multi_page_scenarios", "empty_page_scenarios", "zero_document_scenarios", "timeseries_scenarios",
            "time_filter_scenarios", "date_fields_checked", "timeseries_timestamps_checked", "timeseries_straddling_offset_change", "chains_of_over_1000_pages", "meta_block:small", "meta_block:absent", "meta_block:zero", "round_trips", "tzinfo:zoneinfo", "zoneinfo_fold_1_with_microseconds", "invalid_site_rejections", "calls_leaving_default_options_unmentioned", "filters_with_template_characters", "filter_form:json", "site_given_as:enum", "site_given_as:labelled", "windows_also_asked_for_as_a_count", "downloads_with_one_request_answered_429",
            "regime:dst-transition-instant"]
BUDGET_S = {"quick": 200, "thorough": 2400}
ZONES = ["America/Los_Angeles", "America/New_York", "Europe/London", "Asia/Kolkata", "Australia/Sydney", "UTC",
         "Asia/Kathmandu", "America/Sao_Paulo", "Europe/Berlin", "Pacific/Auckland", "Asia/Tokyo", "Australia/Lord_Howe"]
SOCK = {"n": 0}


def worker_init():
    def hook(event, args):
        if event in ("socket.connect", "socket.getaddrinfo", "socket.bind", "socket.sendto"):
            SOCK["n"] += 1
    sys.addaudithook(hook)


def cases(seed, tier):
    rng = random.Random(f"C20:{seed}")
    ns, nr = (1500, 100) if tier == "quick" else (60000, 5000)
    out = [{"kind": "invalid_site"}]
    for i in range(ns):
        out.append({"kind": "paging", "seed": rng.randrange(1 << 40), "n": rng.choice([0, 1, 2, 5, 17, 100, 101, 230]),
                    "tz": rng.choice(ZONES), "cap": rng.choice([1000, 7, 1, 100, 50]),
                    "empties": ([rng.randint(1, 3)] if rng.random() < 0.3 else []) + ([rng.randint(1, 6)] if rng.random() < 0.1 else []),
                    "empty_last": rng.random() < 0.15, "extra_links": rng.random() < 0.7, "ts": rng.random() < 0.2,
                    "mode": rng.choice(["all", "time", "time", "args"]),
                    "meta": rng.choice(["accurate", "accurate", "absent", "small", "zero", "large", "text"])})
        if out[-1]["mode"] == "all" and rng.random() < 0.35:
            out[-1]["throttle"] = rng.choice([2, 2, 3, 4, 1])  # which request of the download the busy server answers with 429
    # very long chains of 'next' links: a thousand pages and more (one session per page is how the time-series endpoint pages)
    for i in range(3 if tier == "quick" else 40):
        out.append({"kind": "paging", "seed": rng.randrange(1 << 40), "n": rng.choice([1100, 1600, 2300]), "tz": rng.choice(ZONES),
                    "cap": 1, "empties": [], "empty_last": rng.random() < 0.3, "extra_links": True, "ts": False, "mode": "all", "long": True})
    for i in range(ns // 12):
        # two (or three) generators of one client, alive at the same time and consumed interleaved
        out.append({"kind": "interleave", "seed": rng.randrange(1 << 40), "cap": rng.choice([1, 2, 3, 7]), "tz": rng.choice(ZONES),
                    "ns": [rng.choice([0, 1, 3, 8, 15]) for _ in range(rng.choice([2, 2, 3]))]})
    for i in range(nr):
        out.append({"kind": "roundtrip", "seed": rng.randrange(1 << 40), "n": 1000})
    return out


def _docs(rng, n, tzname, ts):
    base = datetime(rng.choice([2018, 2019, 2020]), rng.choice([3, 11, 6, 10, 4]), rng.choice([1, 2, 3, rng.randint(1, 12)]), tzinfo=timezone.utc)
    docs = []
    z = zoneinfo.ZoneInfo(tzname)
    tr = _next_transition(base, z)
    for i in range(n):
        c = base + timedelta(minutes=rng.randint(0, 60 * 24 * 10), seconds=rng.randint(0, 59))
        if tr is not None and rng.random() < 0.3:
            # a session that is connected across the zone's next UTC-offset change
            c = tr - timedelta(minutes=rng.randint(1, 240), seconds=rng.randint(0, 59))
        d = c + timedelta(minutes=rng.randint(1, 900))
        doc = {"_id": f"id{i}", "sessionID": f"sess{i}", "spaceID": f"sp{i % 7}", "stationID": "2-39-78-362",
               "siteID": "0002", "clusterID": "0039", "userID": rng.choice([None, "000123"]), "timezone": tzname,
               "connectionTime": rfc1123(c), "disconnectTime": rfc1123(d),
               "doneChargingTime": rng.choice([None, rfc1123(d - timedelta(seconds=30))]),
               "kWhDelivered": round(rng.uniform(0.01, 60), 3),
               "userInputs": rng.choice([None, [{"requestedDeparture": rfc1123(d), "kWhRequested": 10.0}]])}
        if ts:
            k = rng.randint(0, 9)
            step = rng.choice([10, 10, 300, 2220, 7200])  # seconds; long steps make a series straddle an offset change
            stamps = [rfc1123(c + timedelta(seconds=step * j)) for j in range(k)]
            doc["chargingCurrent"] = {"current": [float(j) for j in range(k)], "timestamps": stamps}
            doc["pilotSignal"] = {"pilot": [float(j) for j in range(k)], "timestamps": list(stamps)}
        if rng.random() < 0.25:
            # other legal RFC-1123 spellings of the same instants: day of month without leading zero (1*2DIGIT)
            import re as _re
            unpad = lambda s_: _re.sub(r"^(\w{3}), 0(\d) ", r"\1, \2 ", s_) if isinstance(s_, str) else s_
            for f_ in ("connectionTime", "disconnectTime", "doneChargingTime"):
                doc[f_] = unpad(doc[f_])
            for f_ in ("chargingCurrent", "pilotSignal"):
                if f_ in doc:
                    doc[f_]["timestamps"] = [unpad(x_) for x_ in doc[f_]["timestamps"]]
        docs.append(doc)
    return base, docs


def _run_paging(case, obs):
    import pytz
    import acnportal.acndata.data_client as dc
    rng = random.Random(case["seed"])
    tzname = case["tz"]
    z = zoneinfo.ZoneInfo(tzname)
    base, docs = _docs(rng, case["n"], tzname, case["ts"])
    if case.get("long"):
        obs.ev("chains_of_over_1000_pages")
    fake = FakeRequests(docs, cap=case["cap"], empties=case["empties"], extra_links=case["extra_links"],
                        empty_last=case["empty_last"], meta=case.get("meta", "accurate"))
    obs.ev("meta_block:" + case.get("meta", "accurate"))
    hrefs = []
    orig_get = fake.get

    def get(url, *a_, **kw):
        r = orig_get(url, *a_, **kw)
        hrefs.append((r.json().get("_links") or {}).get("next", {}).get("href"))
        return r

    fake.get = get
    token = rng.choice(["tok", "abc123"])
    api = "https://fake.invalid/api/v1/"
    site = rng.choice(["caltech", "jpl", "office001"])
    site_name = site
    # the site name as the caller has it: a plain str, a member of a str-valued Enum of the caller's sites, a str subclass whose
    # str() / format() say something else (a labelled constant); each equals and hashes like the plain name
    how_site = rng.choice(["str", "str", "str", "enum", "labelled"])
    if how_site == "enum":
        import enum
        site = enum.Enum("Site", {"CALTECH": "caltech", "JPL": "jpl", "OFFICE": "office001"}, type=str)(site_name)
    elif how_site == "labelled":
        class Labelled(str):
            def __str__(self):
                return "<site " + str.__str__(self) + ">"

            def __format__(self, spec):
                return "<site>"

            __repr__ = __str__
        site = Labelled(site_name)
    obs.ev("site_given_as:" + how_site)
    s0 = SOCK["n"]
    cfg = dict(n=case["n"], tz=tzname, cap=case["cap"], empties=case["empties"], empty_last=case["empty_last"],
               timeseries=case["ts"], mode=case["mode"], site=site_name, site_given_as=how_site)
    with Installed(fake):
        client = dc.DataClient(token, api)
        mode = case["mode"]
        sent = {}
        # half of the callers do not mention an option they leave at its documented default (timeseries=False, cond/project/sort/
        # start/end/min_energy=None): the defaults are part of the API
        terse = case["seed"] % 2 == 0
        tskw = {} if (terse and not case["ts"]) else {"timeseries": case["ts"]}
        if terse:
            obs.ev("calls_leaving_default_options_unmentioned")
        if mode == "all" and case.get("throttle"):
            # a server fault in the middle of a download: one page request is answered with 429 (an error document, no items).
            # Whether the client gives up loudly or waits and retries is its choice; what it has yielded by then - and in the end,
            # if it finishes - is the server's list from the start, in order, each session once
            fake.throttle_at = {case["throttle"]}
            got, raised = [], None
            try:
                for g_ in client.get_sessions(site, **tskw):
                    got.append(g_)
            except Exception as e_:
                raised = type(e_).__name__
            ids_ = [g_.get("_id") for g_ in got]
            exp_ = [d_["_id"] for d_ in docs]
            obs.ev("downloads_with_one_request_answered_429")
            obs.ev("throttled_downloads_that_" + ("raised" if raised else "completed"))
            if ids_ != exp_[:len(ids_)] or (raised is None and ids_ != exp_):
                dup_ = sorted({i_ for i_ in ids_ if ids_.count(i_) > 1})[:5] if len(ids_) < 3000 else []
                obs.violate("sessions_duplicated" if dup_ else "sessions_lost", f"request {case['throttle']} answered with 429; the generator "
                            f"{'raised ' + raised if raised else 'finished'} after yielding {len(ids_)} sessions of {len(exp_)}: not the server's list from the "
                            f"start (duplicated {dup_})", config=dict(cfg, throttle_at=case["throttle"]))
            return
        if mode == "all":
            got = []
            try:
                for g_ in client.get_sessions(site, **tskw):
                    got.append(g_)
            except (RecursionError, MemoryError) as e_:
                # the generator died while following a well-formed chain of pages: everything after this point is lost
                obs.violate("generator_raised", f"{type(e_).__name__} after {len(got)} of {len(docs)} sessions over {len(fake.log)} requests",
                            config=cfg, yielded=len(got))
                return
            exp = [d["_id"] for d in docs]
        elif mode == "args":
            me = rng.choice([5.0, 20.0])
            # the filter is an opaque string to the client; the API documents python-like expressions and MongoDB-style JSON
            # objects, and either may carry characters that mean something to str.format / %-formatting / templates
            form = rng.choice(["py", "py", "json", "json_user", "py_user_ne", "py_user_eq"])
            uid = rng.choice(["000123", "{0}", "%s%d", "{site}{limit}", "a{b}c%(x)s", "$HOME ${x}", "\\1 \\g<0>"])
            if form == "py":
                cond_, keep_ = f"kWhDelivered > {me}", (lambda d: d["kWhDelivered"] > me)
            elif form == "json":
                cond_, keep_ = json.dumps({"kWhDelivered": {"$gt": me}}), (lambda d: d["kWhDelivered"] > me)
            elif form == "json_user":
                cond_, keep_ = json.dumps({"userID": "000123", "kWhDelivered": {"$gte": me}}), (lambda d: d["userID"] == "000123" and d["kWhDelivered"] >= me)
            elif form == "py_user_ne":
                cond_, keep_ = f'kWhDelivered > {me} and userID != "{uid}"', (lambda d: d["kWhDelivered"] > me and d["userID"] != uid)
            else:
                cond_, keep_ = f'userID == "{uid}"', (lambda d: d["userID"] == uid)
            obs.ev("filter_form:" + form)
            if any(c_ in cond_ for c_ in "{%$\\"):
                obs.ev("filters_with_template_characters")
            sent = {"cond": cond_, "project": rng.choice([None, "kWhDelivered"]),
                    "sort": rng.choice([None, "connectionTime", "disconnectTime"])}
            akw_ = dict(cond=sent["cond"], project=sent["project"], sort=sent["sort"])
            if terse:
                akw_ = {k_: v_ for k_, v_ in akw_.items() if v_ is not None}
            got = list(client.get_sessions(site, **akw_, **tskw))
            sel = [d for d in docs if keep_(d)]
            if sent["sort"]:
                sel = sorted(sel, key=lambda d: parsedate_to_datetime(d[sent["sort"]]))
            exp = [d["_id"] for d in sel]
        else:
            lo = base + timedelta(days=rng.randint(0, 5), seconds=rng.randint(0, 3600))
            hi = lo + timedelta(days=rng.randint(0, 5))
            me = rng.choice([None, 5.0])
            lo_l = lo.astimezone(pytz.timezone(rng.choice(ZONES)))
            hi_l = hi.astimezone(zoneinfo.ZoneInfo(rng.choice(ZONES)))
            use_lo, use_hi = rng.random() < 0.9, rng.random() < 0.9
            sent = {"start": lo.isoformat() if use_lo else None, "end": hi.isoformat() if use_hi else None, "min_energy": me}
            mkw_ = {} if (terse and me is None) else {"min_energy": me}
            args_ = [lo_l if use_lo else None, hi_l if use_hi else None]
            if terse:
                while args_ and args_[-1] is None:
                    args_.pop()
            r_ = client.get_sessions_by_time(site, *args_, **mkw_, **tskw)
            if not hasattr(r_, "__iter__"):
                obs.violate("no_session_generator", f"get_sessions_by_time returned {type(r_).__name__} {r_!r} instead of yielding the sessions",
                            config=dict(site=site, args=sent, kwargs=sorted({**mkw_, **tskw})))
                return
            got = list(r_)
            sel = [d for d in docs if (not use_lo or lo <= parsedate_to_datetime(d["connectionTime"]))
                   and (not use_hi or parsedate_to_datetime(d["connectionTime"]) <= hi) and (me is None or d["kWhDelivered"] > me)]
            if case["seed"] % 3 == 0:
                # the same window asked for as a number: "the number of sessions which would be returned" - the server counts what
                # the filter it receives selects
                nlog_ = len(fake.log)
                try:
                    cnt_ = client.get_sessions_by_time(site, *args_, **mkw_, **tskw, count=True)
                    obs.ev("windows_also_asked_for_as_a_count")
                    if int(cnt_) != len(sel):
                        obs.violate("count_differs_from_sessions_returned", f"count=True gives {cnt_!r}, the same window yields {len(sel)} sessions "
                                    f"(request {fake.log[-1]['url'] if len(fake.log) > nlog_ else None})", config=dict(cfg, sent=sent))
                except Exception as e_:
                    obs.ev("count_query_raised:" + type(e_).__name__)
                del fake.log[nlog_:]  # (the request log judged below is that of the generator)
            # "in server order": the order the server serves for the request it was actually sent (the library asks for
            # connectionTime order; a client that asks for none gets the collection's own order)
            q0_ = parse_qs(urlsplit(fake.log[0]["url"]).query) if fake.log else {}
            k0_ = q0_.get("sort", [None])[0]
            if k0_ in ("connectionTime", "disconnectTime"):
                sel = sorted(sel, key=lambda d: parsedate_to_datetime(d[k0_]))
                obs.ev("time_filter_scenarios_sorted_by_the_server")
            exp = [d["_id"] for d in sel]
            obs.ev("time_filter_scenarios")
    cfg["sent"] = sent
    if SOCK["n"] != s0:
        # the client went around the stand-in transport: the harness cannot observe it, which is no verdict on the client
        # (no 'scenarios_judged' is counted, so a run of such cases ends INCONCLUSIVE)
        obs.ev("socket_opened_transport_not_intercepted")
        return
    obs.ev("scenarios_judged")
    ids = [g.get("_id") for g in got]
    log = fake.log
    wit = dict(config=cfg, yielded=len(ids), expected=len(exp), requests=[l["url"] for l in log][:6])
    if fake.errors:
        obs.violate("request_parameters", f"server could not interpret the request: {fake.errors[:3]}", **wit)
    if ids != exp:
        missing = [i for i in exp if i not in ids][:5]
        dup = sorted({i for i in ids if ids.count(i) > 1})[:5] if len(ids) < 2000 else []
        kind = "sessions_duplicated" if dup else ("sessions_lost" if missing else "sessions_out_of_order")
        obs.violate(kind, f"yielded {len(ids)} ids, server holds {len(exp)}; missing {missing} duplicated {dup}", **wit)
    # request log: first request parameters, then exactly the next links
    if not log:
        obs.violate("no_request", "no request was sent", **wit)
        return
    u = urlsplit(log[0]["url"])
    q = parse_qs(u.query, keep_blank_values=True)
    endpoint = f"/api/v1/sessions/{site_name}" + ("/ts/" if case["ts"] else "")
    if not log[0]["url"].startswith(api) or u.path != endpoint:
        obs.violate("first_request_endpoint", f"first URL {log[0]['url']} (expected path {endpoint})", **wit)
    if token not in repr(log[0]["auth"]):
        # HOW the token travels (basic-auth pair, header) is between client and server; that it travels at all is recorded
        obs.ev("requests_without_the_token")
    try:
        if int(q["max_results"][0]) <= 0:
            raise ValueError
    except Exception:
        obs.violate("first_request_page_size", f"max_results missing or not positive in {u.query}", **wit)
    if case["mode"] == "args":
        if q.get("where", [None])[0] != sent["cond"]:
            obs.violate("first_request_filter", f"where={q.get('where')} expected {sent['cond']!r}", **wit)
        if sent["sort"] and q.get("sort", [None])[0] != sent["sort"]:
            obs.violate("first_request_sort", f"sort={q.get('sort')} expected {sent['sort']!r}", **wit)
        if sent["project"] and q.get("project", [None])[0] != sent["project"]:
            obs.violate("first_request_project", f"project={q.get('project')} expected {sent['project']!r}", **wit)
    from urllib.parse import unquote as _unq
    for k in range(1, len(log)):
        if hrefs[k - 1] is None or _unq(log[k]["url"]) != _unq(api + hrefs[k - 1]):
            obs.violate("next_link_not_followed", f"request {k} went to {log[k]['url']}, previous page's next href was {hrefs[k - 1]!r}", **wit)
            break
        if token not in repr(log[k]["auth"]):
            obs.ev("requests_without_the_token")
    if hrefs and hrefs[-1] is not None and len(hrefs) == len(log):
        obs.violate("stopped_before_last_page", f"last page fetched still had a next link {hrefs[-1]!r}", **wit)
    if len(log) >= 2:
        obs.ev("multi_page_scenarios")
        obs.nontrivial()
    if case["empties"] or case["empty_last"]:
        obs.ev("empty_page_scenarios")
    if case["n"] == 0:
        obs.ev("zero_document_scenarios")
    if case["ts"]:
        obs.ev("timeseries_scenarios")
    # time conversion of every yielded document
    src = {d["_id"]: d for d in docs}
    for g in got:
        s = src.get(g.get("_id"))
        if s is None:
            continue
        for fld, sv in s.items():
            v = g.get(fld)
            if isinstance(sv, str):
                try:
                    ref = parsedate_to_datetime(sv) if sv.endswith("GMT") else None
                except Exception:
                    ref = None
                if ref is None:
                    if v != sv:
                        obs.violate("non_date_field_changed", f"{fld}: {sv!r} -> {v!r}", **wit)
                    continue
                obs.ev("date_fields_checked")
                loc = ref.astimezone(z)
                if not isinstance(v, datetime) or v.tzinfo is None:
                    obs.violate("date_field_not_aware_datetime", f"{fld}: {v!r}", **wit)
                elif v != ref or v.utcoffset() != loc.utcoffset() or \
                        (v.year, v.month, v.day, v.hour, v.minute, v.second) != (loc.year, loc.month, loc.day, loc.hour, loc.minute, loc.second):
                    obs.violate("date_field_wrong", f"{fld}: {sv!r} in {tzname} became {v.isoformat()} (expected {loc.isoformat()})", **wit)
            elif isinstance(sv, dict) and "timestamps" in sv:
                vt = v.get("timestamps") if isinstance(v, dict) else None
                if vt is None or len(vt) != len(sv["timestamps"]):
                    obs.violate("timeseries_timestamps_wrong", f"{fld}: {vt!r}", **wit)
                    continue
                for a, b in zip(vt, sv["timestamps"]):
                    obs.ev("timeseries_timestamps_checked")
                    ref = parsedate_to_datetime(b)
                    loc = ref.astimezone(z)
                    if len({x.astimezone(z).utcoffset() for x in map(parsedate_to_datetime, sv["timestamps"])}) > 1:
                        obs.ev("timeseries_straddling_offset_change")
                    if not isinstance(a, datetime) or a.tzinfo is None or a != ref or a.utcoffset() != loc.utcoffset() or \
                            (a.year, a.month, a.day, a.hour, a.minute, a.second) != (loc.year, loc.month, loc.day, loc.hour, loc.minute, loc.second):
                        obs.violate("timeseries_timestamps_wrong", f"{fld}: {b!r} became {a!r}", **wit)
                        break
            elif sv is None and v is not None:
                obs.violate("non_date_field_changed", f"{fld}: None -> {v!r}", **wit)
    obs.sample = {"config": cfg, "requests": len(log), "yielded": len(ids), "first_url": log[0]["url"]}


def _run_roundtrip(case, obs):
    import pytz
    from acnportal.acndata.utils import http_date, parse_http_date
    rng = random.Random(case["seed"])
    for i in range(case["n"]):
        zn = rng.choice(ZONES)
        tz = pytz.timezone(zn)
        z = zoneinfo.ZoneInfo(zn)
        near = rng.random() < 0.4
        if near:
            # transitions: search the zone's UTC offset changes in the year via zoneinfo
            y = rng.choice([2018, 2019, 2020, 2021])
            inst = datetime(y, rng.choice([3, 4, 10, 11, 9]), rng.randint(1, 28), rng.randint(0, 23), tzinfo=timezone.utc)
            tr = _next_transition(inst, z)
            if tr is not None:
                inst = tr + timedelta(seconds=rng.randint(-7200, 7200) if rng.random() < 0.5 else rng.randint(0, 3599))
                obs.regime("regime:dst-transition-instant")
                obs.nontrivial(f"{zn}:{inst.isoformat()}")
        else:
            inst = datetime(2015, 1, 1, tzinfo=timezone.utc) + timedelta(seconds=rng.randint(0, 10 * 365 * 86400))
        us = rng.choice([0, 0, rng.randint(1, 999999)])
        # the aware datetime comes with different tzinfo flavours: pytz (offset fixed at localisation), zoneinfo (wall time +
        # fold: the second pass through a repeated hour is fold=1, which datetime arithmetic silently drops), fixed offset, UTC
        fl = rng.random()
        if fl < 0.5:
            dt = (inst + timedelta(microseconds=us)).astimezone(tz)
            obs.ev("tzinfo:pytz")
        elif fl < 0.85:
            dt = (inst + timedelta(microseconds=us)).astimezone(z)
            obs.ev("tzinfo:zoneinfo")
            if dt.fold:
                obs.ev("zoneinfo_fold_1_datetimes")
                if us:
                    obs.ev("zoneinfo_fold_1_with_microseconds")
        elif fl < 0.95:
            dt = (inst + timedelta(microseconds=us)).astimezone(timezone(timedelta(minutes=rng.choice([-480, -420, 0, 60, 330, 345, 570]))))
            obs.ev("tzinfo:fixed-offset")
        else:
            dt = inst + timedelta(microseconds=us)
            obs.ev("tzinfo:utc")
        s = http_date(dt)
        back = parse_http_date(s, tz)
        obs.ev("round_trips")
        want = (inst + timedelta(microseconds=us)).astimezone(tz).replace(microsecond=0)
        loc = inst.astimezone(z)
        if parsedate_to_datetime(s) != inst:
            obs.violate("http_date_wrong_instant", f"{dt.isoformat()} formatted as {s!r}", zone=zn)
        elif back != want or back.utcoffset() != loc.utcoffset() or (back.hour, back.minute, back.second) != (loc.hour, loc.minute, loc.second):
            obs.violate("round_trip_not_identity", f"{dt.isoformat()} -> {s!r} -> {back.isoformat()}", zone=zn)
    obs.evals = case["n"]
    obs.sample = {"kind": "roundtrip", "n": case["n"], "last": [dt.isoformat(), s, back.isoformat()]}


def _next_transition(inst, z):
    o0 = inst.astimezone(z).utcoffset()
    t = inst
    for _ in range(24 * 200):
        t2 = t + timedelta(hours=1)
        if t2.astimezone(z).utcoffset() != o0:
            lo, hi = t, t2
            while (hi - lo).total_seconds() > 1:
                mid = lo + (hi - lo) / 2
                if mid.astimezone(z).utcoffset() == o0:
                    lo = mid
                else:
                    hi = mid
            return hi.replace(microsecond=0)
        t = t2
    return None


def _run_invalid(obs):
    import acnportal.acndata.data_client as dc
    # names no reading of "the site names" could accept (a client that normalises case or blanks is not judged on those spellings)
    for site in ["nowhere", "", "caltech2", "jp", None, "jpl/ts"]:
        fake = FakeRequests([], cap=10)
        with Installed(fake):
            c = dc.DataClient("t", "https://fake.invalid/api/v1/")
            # every entry point that takes a site name, each asked twice on the same client (a refusal must not wear off)
            for call in ("get_sessions", "get_sessions_by_time", "count_sessions", "get_sessions", "count_sessions", "get_sessions_by_time"):
                if not hasattr(c, call):
                    continue
                try:
                    r = getattr(c, call)(site)
                    if hasattr(r, "__iter__") and not isinstance(r, (str, bytes)):
                        list(r)
                    obs.violate("invalid_site_accepted", f"{call}({site!r}) did not raise")
                except Exception:
                    obs.ev("invalid_site_rejections")  # rejected; the error class is the library's choice
                    obs.ev("invalid_site_rejections:" + call)
                if fake.log:
                    obs.violate("request_before_site_validation", f"{call}({site!r}) sent {fake.log[0]['url']}")
                    break
    obs.nontrivial()
    obs.evals = 12


def _run_interleave(case, obs):
    import acnportal.acndata.data_client as dc
    rng = random.Random(case["seed"])
    sites = ["caltech", "jpl", "office001"][:len(case["ns"])]
    by_site = {}
    for site, n in zip(sites, case["ns"]):
        _, docs = _docs(rng, n, case["tz"], False)
        for d in docs:
            d["_id"] = site + "-" + d["_id"]
        by_site[site] = docs
    fake = FakeRequests([], cap=case["cap"], by_site=by_site)
    s0 = SOCK["n"]
    got = {s_: [] for s_ in sites}
    with Installed(fake):
        client = dc.DataClient("tok", "https://fake.invalid/api/v1/")
        gens = {s_: client.get_sessions(s_) for s_ in sites}
        alive = list(sites)
        steps = 0
        while alive and steps < 10000:
            steps += 1
            s_ = rng.choice(alive)
            try:
                got[s_].append(next(gens[s_])["_id"])
            except StopIteration:
                alive.remove(s_)
    cfg = dict(sites=sites, sizes=case["ns"], cap=case["cap"])
    obs.ev("interleaved_scenarios")
    if SOCK["n"] != s0:
        obs.ev("socket_opened_transport_not_intercepted")  # harness blind, no verdict
        return
    for s_ in sites:
        exp = [d["_id"] for d in by_site[s_]]
        if got[s_] != exp:
            obs.violate("interleaved_generators_interfere", f"two generators of one client consumed alternately: site {s_} yielded "
                        f"{got[s_][:8]} (n={len(got[s_])}), server has {exp[:8]} (n={len(exp)})", config=cfg)
            return
    if sum(1 for n in case["ns"] if n > case["cap"]) >= 2:
        obs.nontrivial()
    obs.sample = {"kind": "interleave", "config": cfg, "requests": len(fake.log)}


def _run_case_inner(case, obs):
    if case["kind"] == "interleave":
        return _run_interleave(case, obs)
    if case["kind"] == "paging":
        _run_paging(case, obs)
    elif case["kind"] == "roundtrip":
        _run_roundtrip(case, obs)
    else:
        _run_invalid(obs)


def classify(v):
    return None


PROC_TZS = [None, None, "America/Los_Angeles", "Asia/Kolkata", "Pacific/Auckland", "Europe/Berlin"]


def run_case(case, obs):
    # the interpreter's own local time zone varies from case to case: nothing about aware datetimes may depend on it
    from vlib import env as _env
    import zlib
    tzn = PROC_TZS[zlib.crc32(repr(sorted(case.items())).encode()) % len(PROC_TZS)]
    _env.set_process_tz(tzn)
    obs.ev("process_time_zone:" + str(tzn))
    try:
        return _run_case_inner(case, obs)
    finally:
        _env.set_process_tz(None)
