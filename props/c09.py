"""C09 — interrupted, serialised and resumed runs equal the uninterrupted run (fault enumeration over every period)."""
import copy
import json
import random
import warnings

import numpy as np

from vlib import build, gen, simrun

ID = "C09"
META = {
    "technique": "runtime monitoring with fault injection: a wrapper scheduler raises once in period k (before or after the inner algorithm decided); for every period k of every generated run the real simulator is interrupted there, then resumed directly or through to_json/from_json/update_scheduler, and the completed run's recorded pilots, rates, energies, event history, iteration, peak and schedule history are compared with the uninterrupted reference; at the interruption point the loaded object is compared with the original (canonicalised registry dump, pending-queue pop order, shared-object identity)",
    "design_ref": "DESIGN.md section 6 C09",
    "level_text": "fault_enumeration: every period in which the scheduler is invoked, of every generated scenario, is used as interruption point x {resume, JSON round trip} x {raise before / after the inner decision}; thorough adds double interruptions; all EVSE and battery classes incl. noise, pending Plugin/Unplug/Recompute events, schedule history on/off, naive and tz-aware start; the dump travels as string, by path, pathlib.Path or open file handles; default (infinite-maximum) EVSEs; the public limit table edited after setup; an algorithm editing its copy of the infrastructure in place",
    "level_note": "fault model = an exception raised by the scheduling algorithm (the property's); raise-after-decision is used only with stateless inner schedulers (a stateful estimator would legitimately be advanced twice); the scheduler object is 'given again' (same object) after a load; numpy's global RNG is seeded identically for reference and interrupted run; the registry dump comparison excludes the Simulator's scheduler and signals attributes, which the code documents as not serialised",
}
LEVEL = "fault_enumeration"
RULE = ("case = one scenario; every scheduler-invocation period k of its reference run is an interruption point, each point x leg x "
        "mode is one evaluation (a complete interrupted+resumed run compared with the reference); non-trivial = at the interruption "
        ">=1 EV connected and >=1 event pending; distinct = distinct (scenario, k, leg, mode)")
ASSUMPTIONS = [
    "interruptions are exceptions raised by the scheduling algorithm (no crashes inside the simulator's own code)",
    "after from_json the same scheduler object is attached again with update_scheduler",
    "comparison: pilots/rates/energies rtol 1e-9, shapes, event history as (type, timestamp, session) list, iteration, peak",
]
ANCHORS = [
    "acnportal.acnsim.simulator:Simulator.run",
    "acnportal.acnsim.simulator:Simulator._to_dict",
    "acnportal.acnsim.simulator:Simulator._from_dict",
    "acnportal.acnsim.simulator:Simulator.update_scheduler",
    "acnportal.acnsim.events.event_queue:EventQueue._to_dict",
    "acnportal.acnsim.events.event_queue:EventQueue._from_dict",
    "acnportal.acnsim.network.charging_network:ChargingNetwork._from_dict",
    "acnportal.acnsim.models.ev:EV._from_dict",
    "acnportal.acnsim.models.battery:Battery._from_dict",
    "acnportal.acnsim.models.battery:Linear2StageBattery._from_dict",
    "acnportal.acnsim.models.evse:BaseEVSE._from_dict",
    "acnportal.acnsim.base:BaseSimObj._build_from_id",
]
REQUIRED = ["scenarios_with_the_public_limit_table_edited_after_setup", "resume_points_on_a_network_assigning_spaces_at_random", "json_via:path", "json_via:pathlib", "json_via:handle", "points:resume", "points:json", "mode:before", "mode:after", "interrupted_in_final_period", "interrupted_in_first_period",
            "identity_checks", "canonical_dumps_compared", "queue_orders_compared", "pending:Plugin", "pending:Unplug", "pending:Recompute",
            "evse:EVSE", "evse:DB", "evse:FR", "battery:ideal", "battery:l2", "battery:noise", "hist:on", "hist:off", "sched:scripted",
            "sched:uncontrolled", "sched:sorted", "tz:aware", "tz:naive"]
BUDGET_S = {"quick": 270, "thorough": 3300}
TZS = ["America/Los_Angeles", "Europe/Berlin", "Asia/Kolkata", "UTC"]


def cases(seed, tier):
    rng = random.Random(f"C09:{seed}")
    n = 112 if tier == "quick" else 2400
    out = []
    for i in range(n):
        r = rng.random()
        if r < 0.45:
            d = gen.scenario(rng, sched="scripted", noise_p=0.3, horizon=18, long_p=0.15, bkinds=("ideal", "l2c", "l2s", "user"))
        elif r < 0.7:
            d = gen.scenario(rng, sched="uncontrolled", noise_p=0.3, horizon=18, bkinds=("ideal", "l2c", "l2s", "user"))
        else:
            d = gen.scenario(rng, sched="sorted", kinds=("EVSE", "FR"), noise_p=0.3, horizon=18, seed=rng.randrange(1 << 20))
        d["hist"] = rng.random() < 0.5
        d["keyboard"] = rng.random() < 0.15  # the interruption is a KeyboardInterrupt (not an Exception subclass)
        d["tz"] = rng.choice(TZS) if rng.random() < 0.35 else None
        d["meddle"] = rng.random() < 0.25  # the algorithm edits, in place, the infrastructure description it is handed
        if d["scheduler"]["kind"] != "sorted" and rng.random() < 0.2:
            # more cars than spaces on a network that assigns spaces at random
            ids_ = [s_["id"] for s_ in d["network"]["stations"]][:3]
            d["network"]["stations"] = [s_ for s_ in d["network"]["stations"] if s_["id"] in ids_]
            d["network"]["constraints"] = []
            for s_ in d["network"]["stations"]:
                if s_["evse"].get("max") == float("inf"):
                    s_["evse"]["max"] = 32
            sess_ = []
            for k in range(rng.randint(len(ids_) + 1, len(ids_) + 5)):
                a = rng.randint(0, 6)
                req = rng.choice([0.3, 3, 25])
                sess_.append({"id": f"q{k}", "station": rng.choice(ids_), "arrival": a, "departure": a + rng.randint(1, 7), "requested": req,
                              "est_dep": a + 3, "battery": gen.rand_battery(rng, req, ("ideal", "l2c"))})
            d["sessions"], d["recompute"], d["stochastic"], d["early"] = sess_, [], True, rng.random() < 0.4
        if d["scheduler"]["kind"] in ("uncontrolled", "sorted") and not d.get("stochastic") and rng.random() < 0.35 and \
                all(s_["evse"]["t"] == "EVSE" and s_["evse"].get("min", 0) == 0 and s_["evse"]["max"] >= 16 and not s_["evse"].get("user")
                    for s_ in d["network"]["stations"]):
            # the user derates the site after building it, through the network's public table of maximum pilots (what the
            # schedulers are shown): part of the state like everything else
            d["derate"] = rng.choice([6, 12.5, 16])
        out.append({"desc": d, "double": tier == "thorough" and rng.random() < 0.3, "pseed": rng.randrange(1 << 30)})
    return out


class Boom(Exception):
    pass


class BoomKI(KeyboardInterrupt):
    """The user interrupts a long run (Ctrl-C) while the scheduling algorithm is working, and calls run() again later."""


_FLAKY = None


def flaky_cls():
    global _FLAKY
    if _FLAKY is None:
        from acnportal.algorithms import BaseAlgorithm

        class Flaky(BaseAlgorithm):
            """Delegates to `inner`; raises Boom once in each period listed in fail_at ('before' or 'after' the inner decision)."""

            def __init__(self, inner, fail_at=(), mode="before"):
                super().__init__()
                self.inner = inner
                self.fail_at = set(fail_at)
                self.mode = mode
                self.max_recompute = inner.max_recompute
                self.invoked = []

            def register_interface(self, interface):
                super().register_interface(interface)
                self.inner.register_interface(interface)

            def schedule(self, active_sessions):
                t = self.interface.current_time
                self.invoked.append(t)
                if getattr(self, "meddle", False):
                    # a user algorithm that works on "its copy" of the infrastructure description in place (keeps some headroom
                    # below every limit, halves what it thinks the stations take) before deciding - in every call, also in the
                    # one that fails: what it is handed is a copy, so neither the run nor the saved state may notice
                    try:
                        info_ = self.interface.infrastructure_info()
                        info_.constraint_limits -= 0.75
                        info_.max_pilot *= 0.5
                        info_.phases += 30.0
                    except Exception:
                        pass
                exc_ = BoomKI if getattr(self, "keyboard", False) else Boom
                if t in self.fail_at and self.mode == "before":
                    self.fail_at.discard(t)
                    raise exc_(t)
                out = self.inner.schedule(active_sessions)
                if t in self.fail_at:
                    self.fail_at.discard(t)
                    raise exc_(t)
                return out

        _FLAKY = Flaky
    return _FLAKY


def canon(js, drop=("scheduler", "signals")):
    """Registry dump with object ids renamed in traversal order from the root."""
    reg = json.loads(js)
    ctx = reg["context_dict"]
    order = {}

    def visit(oid):
        if oid in order:
            return
        order[oid] = f"#{len(order)}"
        for v in ctx[oid]["attributes"].values():
            walk(v)

    def walk(v):
        if isinstance(v, str) and v in ctx:
            visit(v)
        elif isinstance(v, list):
            for x in v:
                walk(x)
        elif isinstance(v, dict):
            for x in v.values():
                walk(x)

    visit(reg["id"])

    def ren(v):
        if isinstance(v, str) and v in order:
            return order[v]
        if isinstance(v, list):
            return [ren(x) for x in v]
        if isinstance(v, dict):
            return {k: ren(x) for k, x in v.items()}
        return v

    out = {}
    for o in order:
        attrs = ren(ctx[o]["attributes"])
        if order[o] == "#0":
            attrs = {k: v for k, v in attrs.items() if k not in drop}
        out[order[o]] = {"class": ctx[o]["class"], "attributes": attrs}
    return out


def outputs(sim):
    ev_sid = lambda e: getattr(getattr(e, "ev", None), "session_id", None)
    sh = None
    if sim.schedule_history is not None:
        sh = {int(t): {k: [float(x) for x in v] for k, v in s.items()} for t, s in sim.schedule_history.items()}
    return {"pilots": np.array(sim.pilot_signals, dtype=float), "rates": np.array(sim.charging_rates, dtype=float),
            "energy": {k: float(v.energy_delivered) for k, v in sim.ev_history.items()},
            "events": [(type(e).__name__, e.timestamp, ev_sid(e)) for e in sim.event_history],
            "iteration": sim.iteration, "peak": float(sim.peak), "sched_hist": sh,
            "stations": list(sim.network.station_ids)}


def differences(R, O):
    out = []
    for k in ("pilots", "rates"):
        if R[k].shape[0] != O[k].shape[0]:
            out.append(f"{k}.shape {O[k].shape} vs reference {R[k].shape}")
        else:
            # how many all-zero reserve columns a matrix holds is storage, not a result: compared over the common width, zero beyond
            w_ = max(R[k].shape[1], O[k].shape[1])
            Rk = np.zeros((R[k].shape[0], w_)); Rk[:, :R[k].shape[1]] = R[k]
            Ok = np.zeros((O[k].shape[0], w_)); Ok[:, :O[k].shape[1]] = O[k]
            R, O = dict(R, **{k: Rk}), dict(O, **{k: Ok})
            bad = ~np.isclose(R[k], O[k], rtol=1e-9, atol=1e-12)
            if bad.any():
                i, t = [int(x) for x in np.argwhere(bad)[0]]
                out.append(f"{k}[{R['stations'][i]},{t}] {O[k][i, t]} vs reference {R[k][i, t]} ({int(bad.sum())} cells)")
    if set(R["energy"]) != set(O["energy"]):
        out.append(f"sessions {sorted(O['energy'])} vs reference {sorted(R['energy'])}")
    else:
        for sid, e in R["energy"].items():
            if not abs(e - O["energy"][sid]) <= 1e-9 * max(1.0, abs(e)):
                out.append(f"energy[{sid}] {O['energy'][sid]} vs reference {e}")
                break
    if R["events"] != O["events"]:
        i = next((i for i, (a, b) in enumerate(zip(R["events"], O["events"])) if a != b), min(len(R["events"]), len(O["events"])))
        out.append(f"event_history differs at index {i}: {O['events'][i:i + 2]} vs reference {R['events'][i:i + 2]} "
                   f"(lengths {len(O['events'])}/{len(R['events'])})")
    if R["iteration"] != O["iteration"]:
        out.append(f"iteration {O['iteration']} vs reference {R['iteration']}")
    if not abs(R["peak"] - O["peak"]) <= 1e-9 * max(1.0, R["peak"]):
        out.append(f"peak {O['peak']} vs reference {R['peak']}")
    if (R["sched_hist"] is None) != (O["sched_hist"] is None):
        out.append("schedule_history presence differs")
    elif R["sched_hist"] is not None and R["sched_hist"] != O["sched_hist"]:
        ks = sorted(set(R["sched_hist"]) ^ set(O["sched_hist"])) or [t for t in R["sched_hist"] if R["sched_hist"][t] != O["sched_hist"].get(t)]
        out.append(f"schedule_history differs at periods {ks[:5]}")
    return out


def drain(q):
    """Pop order of a deep copy of an event queue as (ts, type, session)."""
    q = copy.deepcopy(q)
    out = []
    while not q.empty():
        e = q.get_event()
        out.append((e.timestamp, type(e).__name__, getattr(getattr(e, "ev", None), "session_id", None)))
    return out


def key_sorted(seq):
    prec = {"UnplugEvent": 0, "PluginEvent": 1, "RecomputeEvent": 2}
    return [(ts, prec.get(ty, 9)) for ts, ty, _ in seq]


def make_sim(d, fail_at=(), mode="before"):
    inner = build_scheduler(d)
    fl = flaky_cls()(inner, fail_at, mode)
    fl.keyboard = bool(d.get("keyboard"))
    fl.meddle = bool(d.get("meddle"))
    kw = {}
    if d.get("stochastic"):
        # spaces assigned at run time with the global `random` stream: reference and interrupted run start from the same seed,
        # so an interruption may not consume (or skip) any draw
        from acnportal.contrib.acnsim.network import StochasticNetwork
        kw = dict(net_cls=StochasticNetwork, net_kw={"early_departure": bool(d.get("early"))})
        random.seed(d.get("np_seed", 0))
    sim, evs = build.build_sim(d, scheduler=fl, store_schedule_history=bool(d.get("hist")), **kw)
    if d.get("derate") is not None:
        sim.network.max_pilot_signals[:] = np.minimum(sim.network.max_pilot_signals, d["derate"])
    if getattr(inner, "sd", None) is not None:
        inner.sim = sim  # the user built both (the scripted scheduler looks at public attributes of its simulator)
    return sim, fl


def build_scheduler(d):
    return build.build_scheduler(d)


def stateless(d):
    sd = d["scheduler"]
    return sd["kind"] in ("scripted", "uncontrolled") or (sd["kind"] == "sorted" and not sd.get("est"))


def run_to_end(sim, limit):
    """run() until it returns; each Boom is the injected fault. Returns number of Booms caught (resume leg)."""
    n = 0
    while True:
        try:
            sim.run()
            return n
        except (Boom, BoomKI):
            n += 1
            if n > limit:
                raise


def run_case(case, obs):
    d = case["desc"]
    rng = random.Random(case["pseed"])
    obs.evals = 0
    wit = dict(scenario=d)
    with warnings.catch_warnings():
        warnings.simplefilter("ignore")
        ref, fl = make_sim(d)
        try:
            ref.run()
        except Exception as e:
            obs.ev("reference_run_raised_not_judged")
            obs.sample = {"reference_raised": repr(e)}
            return
        R = outputs(ref)
        inv = sorted(set(fl.invoked))
        T = ref.iteration
        sd = d["scheduler"]
        obs.ev("sched:" + sd["kind"])
        if d.get("derate") is not None:
            obs.ev("scenarios_with_the_public_limit_table_edited_after_setup")
        if d.get("meddle"):
            obs.ev("scenarios_whose_algorithm_edits_its_copy_of_the_infrastructure_in_place")
        obs.ev("hist:on" if d.get("hist") else "hist:off")
        obs.ev("tz:aware" if d.get("tz") else "tz:naive")
        for s in d["network"]["stations"]:
            obs.ev("evse:" + s["evse"]["t"])
        for s in d["sessions"]:
            obs.ev("battery:" + s["battery"]["t"])
            if s["battery"].get("noise"):
                obs.ev("battery:noise")
        modes = ["before"] + (["after"] if stateless(d) else [])
        points = [(k,) for k in inv]
        if case.get("double") and len(inv) >= 2:
            for _ in range(min(6, len(inv))):
                a, b = sorted(rng.sample(inv, 2))
                points.append((a, b))
        for pt in points:
            # (the contrib StochasticNetwork is judged on the resume leg only: the library itself warns on to_json that its
            # waiting queue and options are not serialised - a declared limitation outside this property's quantifier)
            for leg in (("resume",) if d.get("stochastic") else ("resume", "json")):
                if d.get("stochastic"):
                    obs.ev("resume_points_on_a_network_assigning_spaces_at_random")
                for mode in modes:
                    if len(pt) == 2 and mode == "after":
                        continue
                    judge_point(d, R, T, pt, leg, mode, obs, wit)
    obs.sample = {"stations": len(d["network"]["stations"]), "sessions": len(d["sessions"]), "scheduler": sd["kind"], "periods": T,
                  "interruption_points": inv[:30], "legs": ["resume", "json"], "modes": modes, "tz": d.get("tz"), "hist": d.get("hist")}


def judge_point(d, R, T, pt, leg, mode, obs, wit):
    from acnportal.acnsim import Simulator
    from acnportal.acnsim.events import UnplugEvent, PluginEvent
    sim, fl = make_sim(d, fail_at=pt, mode=mode)
    w = dict(wit, interrupt_at=list(pt), leg=leg, mode=mode)
    try:
        sim.run()
        obs.ev("fault_not_reached")  # cannot happen: pt are invocation periods of the reference
        return
    except (Boom, BoomKI):
        pass
    except Exception as e:
        obs.evals += 1
        obs.violate("interrupted_run_raised_other", f"{type(e).__name__}: {e}", **w)
        return
    obs.evals += 1
    obs.ev("points:" + leg)
    obs.ev("mode:" + mode)
    k = pt[0]
    if k == T - 1:
        obs.ev("interrupted_in_final_period")
    if k == 0:
        obs.ev("interrupted_in_first_period")
    connected = [st for st in sim.network.station_ids if sim.network.get_ev(st) is not None]
    pend = [type(e).__name__ for _, e in sim.event_queue.queue]
    for p in set(pend):
        obs.ev("pending:" + p.replace("Event", ""))
    if connected and pend:
        obs.nontrivial([obs.case_hash, list(pt), leg, mode])
    remaining = len(pt) - 1
    if leg == "json":
        js = sim.to_json()
        # the dump also travels through a file: by path (str / pathlib.Path) or through open handles
        via = ["string", "string", "path", "pathlib", "handle"][(k + len(pend) + len(connected)) % 5]
        obs.ev("json_via:" + via)
        if via == "string":
            s2 = Simulator.from_json(js)
        else:
            import os, tempfile, pathlib
            from vlib import env as _env
            os.makedirs(os.path.join(_env.VERIF, ".work"), exist_ok=True)
            fd, path = tempfile.mkstemp(prefix="c09_", suffix=".json", dir=os.path.join(_env.VERIF, ".work"))
            os.close(fd)
            try:
                if via == "handle":
                    with open(path, "w") as fh:
                        sim.to_json(fh)
                    with open(path) as fh:
                        s2 = Simulator.from_json(fh)
                else:
                    target = pathlib.Path(path) if via == "pathlib" else path
                    sim.to_json(target)
                    s2 = Simulator.from_json(target)
            finally:
                os.remove(path)
        if k % 3 == 0:
            from vlib.monitors import poke
            poke(sim, s2)
            poke(sim.network, s2.network)
            poke(sim.event_queue, s2.event_queue)
            obs.ev("original_and_loaded_objects_printed_compared_hashed")
        # ---- complete state: canonicalised dump of the loaded object equals that of the original
        c1, c2 = canon(js), canon(s2.to_json())
        obs.ev("canonical_dumps_compared")
        if c1 != c2:
            diff = []
            for o in c1:
                a1, a2 = c1[o]["attributes"], c2.get(o, {}).get("attributes", {})
                for a in a1:
                    if a2.get(a, "<missing>") != a1[a]:
                        diff.append((o, c1[o]["class"].split(".")[-1], a))
            if len(c1) != len(c2):
                diff.append(("object-count", len(c1), len(c2)))
            obs.violate("loaded_state_differs", f"interrupted at {pt}: attributes differing after load: {diff[:6]}", diff=diff[:12], **w)
        # ---- start
        if s2.start != sim.start or (s2.start.tzinfo is None) != (sim.start.tzinfo is None):
            obs.violate("start_differs", f"start {sim.start!r} loaded as {s2.start!r}", tz=d.get("tz"), **w)
        # ---- pending events pop in the same order
        q1, q2 = drain(sim.event_queue), drain(s2.event_queue)
        obs.ev("queue_orders_compared")
        # the loaded queue must pop what the original pops, in the original's order (what that order is: C01 and C11)
        if sorted(q1) != sorted(q2) or key_sorted(q1) != key_sorted(q2):
            obs.violate("pending_queue_differs", f"original pops {q1[:6]}, loaded pops {q2[:6]}", **w)
        # ---- shared objects are shared again
        for st in s2.network.station_ids:
            ev = s2.network.get_ev(st)
            if ev is None:
                continue
            obs.ev("identity_checks")
            unp = [e for _, e in s2.event_queue.queue if isinstance(e, UnplugEvent) and e.ev.session_id == ev.session_id]
            plug = [e for e in s2.event_history if isinstance(e, PluginEvent) and e.ev.session_id == ev.session_id]
            if s2.ev_history.get(ev.session_id) is not ev:
                obs.violate("identity_station_vs_history", f"station {st}: connected EV is not ev_history[{ev.session_id}]", **w)
            if len(unp) != 1 or unp[0].ev is not ev:
                obs.violate("identity_station_vs_pending_unplug", f"station {st}: {len(unp)} pending unplug events; same object: "
                            f"{[u.ev is ev for u in unp]}", **w)
            # the statement names the station, the session history and the pending events; whether the already-executed plugin
            # event in event_history shares the object too is recorded only
            obs.ev("executed_plugin_event_shares_the_ev" if len(plug) == 1 and plug[0].ev is ev else "executed_plugin_event_holds_another_ev_object")
        s2.update_scheduler(fl)  # the scheduler is given again
        sim = s2
    try:
        n = run_to_end(sim, remaining)
    except Exception as e:
        obs.violate("resumed_run_raised", f"{leg} after interruption at {pt}: {type(e).__name__}: {e}", **w)
        return
    O = outputs(sim)
    diffs = differences(R, O)
    if diffs:
        obs.violate(f"{leg}_differs_from_uninterrupted", f"interrupted at {pt} ({mode}), {leg}: " + "; ".join(diffs[:4]),
                    fields=[x.split("[")[0].split(" ")[0].split(".")[0] for x in diffs], final_period=(pt[0] == T - 1), **w)


def classify(v):
    """Open finding: Simulator.start with tzinfo comes back naive from from_json (strftime format without offset)."""
    if v.get("kind") == "start_differs" and (v.get("witness") or {}).get("tz"):
        return "tz_aware_start_json"
    if v.get("kind") == "loaded_state_differs":
        diff = (v.get("witness") or {}).get("diff") or []
        if diff and all(len(x) == 3 and x[0] == "#0" and x[2] == "start" for x in diff) and v["case"]["desc"].get("tz"):
            return "tz_aware_start_json"
    return None
