"""C02 — energy ledger: recorded rates, EV energy and battery charge agree."""
import random
import warnings

import numpy as np

from vlib.monitors import SimProbe
from vlib import build, gen, simrun
from vlib.monitors import Wrap, battery_state, ev_battery, ev_battery_json, json_charge

ID = "C02"
META = {
    "technique": "runtime monitoring: conservation check over a recorded ledger — every EV.charge call logged by a class-level wrapper, per-period snapshots, final matrices, EV counters and battery charge (accessor and fresh JSON dump) reconciled per session and per step",
    "design_ref": "DESIGN.md section 6 C02",
    "level_text": "exploration: generated simulations with heterogeneous voltages, all battery models incl. noise, scripted schedules that also address vacant stations, uncontrolled and sorted runs; each session's delivered energy is reconciled three ways (sum of recorded rates x V x dt, EV counter, battery charge gained), each charge call with the matrix entry of its station and period, vacant cells must be exactly zero, peak and total energy recomputed from the recorded matrix; default (infinite-maximum) EVSEs, zero-energy requests, verbose runs; the same EV objects re-used for a second simulation after reset(); charge calls grouped by (period, station), not counted; discharging schedules on bidirectional stations",
    "level_note": "station voltages are taken from the case descriptor, not from the network; battery charge is read through a tolerant accessor and once per EV through the public to_json dump; tolerance 1e-9 relative",
}
LEVEL = "exploration"
RULE = ("case = one generated scenario run under the ledger monitors; non-trivial = >=1 session with non-zero delivered energy and "
        "(>=2 distinct voltages or >=1 pilot addressed to a vacant station); distinct = distinct scenario descriptors")
ASSUMPTIONS = [
    "capacity >= initial charge + requested energy for every generated battery",
    "tolerance 1e-9*max(1, value) on energies; vacant cells compared exactly with 0",
]
ANCHORS = [
    "acnportal.acnsim.models.ev:EV.charge",
    "acnportal.acnsim.simulator:Simulator._store_actual_charging_rates",
    "acnportal.acnsim.network.charging_network:ChargingNetwork.current_charging_rates",
    "acnportal.acnsim.network.charging_network:ChargingNetwork.update_pilots",
    "acnportal.acnsim.analysis:aggregate_power",
    "acnportal.acnsim.analysis:aggregate_current",
    "acnportal.acnsim.analysis:total_energy_delivered",
]
REQUIRED = ["runs_with_discharging_schedules", "peak_checked_at_period_end", "finished_simulations_continued_with_more_arrivals", "runs_with_scheduler_trial_charging_its_copies", "resumed_runs_judged", "resumed_after_json", "stochastic_runs_judged", "stochastic_runs_with_early_departure", "stochastic_cells_checked", "runs_judged", "sessions_reconciled", "charge_calls_logged", "charge_calls_matched_to_cells", "second_simulations_with_reset_evs", "vacant_cells_checked", "vacant_station_pilots",
            "battery_json_dumps", "regime:heterogeneous-voltage", "regime:noise-battery", "regime:two-stage", "regime:ideal"]
BUDGET_S = {"quick": 240, "thorough": 3000}

LOG = {"cur": None}
_WRAPS = []


def _before(ev, a, k):
    return (ev, a[0] if a else k.get("pilot"), a[1] if len(a) > 1 else k.get("voltage"), a[2] if len(a) > 2 else k.get("period"))


def _after(ctx, rate, exc):
    log = LOG["cur"]
    if log is None or exc is not None:
        return
    ev, p, v, T = ctx
    sim = LOG.get("sim")
    log.append((ev.session_id, ev.station_id, float(p), float(v), float(T), float(rate), ev.energy_delivered,
                sim.iteration if sim is not None else None))


def worker_init():
    from acnportal.acnsim.models import EV
    _WRAPS.append(Wrap(EV, "charge", before=_before, after=_after).install())


def cases(seed, tier):
    rng = random.Random(f"C02:{seed}")
    n = 1200 if tier == "quick" else 30000
    out = []
    for i in range(n):
        r = rng.random()
        if r < 0.6:
            d = gen.scenario(rng, sched="scripted", noise_p=0.3, long_p=0.1)
            if rng.random() < 0.07:
                # bidirectional (V2G) stations: ranges extending below zero, schedules that discharge some cars while charging
                # others; a negative rate is a rate like any other in the ledger
                for st_ in d["network"]["stations"]:
                    st_["evse"] = {"t": "EVSE", "max": 32, "min": -32}
                d["scheduler"].update(mode="cancel", mr=rng.choice([1, 1, None, 2]))
                d["scheduler"].pop("buffered", None)
                d["v2g"] = True
        elif r < 0.8:
            d = gen.scenario(rng, sched="uncontrolled", noise_p=0.3)
        else:
            d = gen.scenario(rng, sched="sorted", kinds=("EVSE", "FR"), noise_p=0.3)
        out.append({"desc": d, "meddle": rng.random() < 0.15, "continue": rng.random() < 0.2, "reuse": rng.random() < 0.15})
    for i in range(n // 6):
        d = gen.scenario(rng, sched=rng.choice(["scripted", "uncontrolled"]), noise_p=0.0)
        out.append({"desc": d, "resumed_at": rng.choice([1, 2, 4, 7])})
    # corpus: ideal batteries that a pilot-limited last step leaves a hair (5e-7 .. 2e-5 kWh) short of full
    ev_ = {"t": "EVSE", "max": 32, "min": 0}
    for V_, per_, k_, gap_ in [(208, 5, 3, 5e-7), (240, 15, 2, 9e-7), (120, 1, 5, 2e-6), (208, 5, 4, 3e-8)]:
        step = 32 * V_ / 1000.0 * per_ / 60.0
        net_ = {"stations": [{"id": "s0", "evse": ev_, "voltage": V_, "phase": 0}], "constraints": [], "tol": None}
        out.append({"desc": {"period": per_, "network": net_, "recompute": [], "np_seed": 1,
                             "sessions": [{"id": "x0", "station": "s0", "arrival": 0, "departure": k_ + 3, "requested": 1e3, "est_dep": k_ + 3,
                                           "battery": {"t": "ideal", "cap": 10 + k_ * step + gap_, "init": 10, "maxp": 50}}],
                             "scheduler": {"kind": "scripted", "mr": 1, "seed": 3, "t0": 0, "mode": "full"}}, "meddle": False, "nearly_full": True})
    # corpus: energies near the top of the float range (every quantity of the ledger representable): a two-stage or ideal pack of
    # 1e305 kWh on a 1e302 kW charger, periods of weeks, an unlimited station under the uncontrolled baseline
    for bt_ in ({"t": "l2", "cap": 1e305, "init": 0, "maxp": 1e302, "noise": 0, "tsoc": 0.8, "calc": "continuous"},
                {"t": "ideal", "cap": 1e305, "init": 0, "maxp": 1e302},
                {"t": "l2", "cap": 4e304, "init": 1e304, "maxp": 3e301, "noise": 0, "tsoc": 0.5, "calc": "stepwise"}):
        for per_ in (60000, 10080):
            net_ = {"stations": [{"id": "s0", "evse": {"t": "EVSE", "max": float("inf"), "min": 0}, "voltage": 240, "phase": 0}], "constraints": [], "tol": None}
            out.append({"desc": {"period": per_, "network": net_, "recompute": [], "np_seed": 1,
                                 "sessions": [{"id": "x0", "station": "s0", "arrival": 1, "departure": 4, "requested": 1e306, "est_dep": 4, "battery": dict(bt_)}],
                                 "scheduler": {"kind": "uncontrolled"}}, "meddle": False, "huge": True})
    from props.c19 import gen_history
    for i in range(n // 5):
        out.append({"desc": gen_history(rng), "stochastic": True, "rseed": rng.randrange(1 << 30)})
    return out


def _run_stochastic(case, obs):
    """The ledger on a StochasticNetwork: stations are assigned at run time and EVs may be swapped in the end-of-period hook,
    so the ledger is kept per charge call: (period, station, session, returned rate) as logged at EV.charge."""
    import random as _r
    from acnportal import acnsim
    from acnportal.contrib.acnsim.network.stochastic_network import StochasticNetwork
    d = case["desc"]
    _r.seed(case["rseed"])
    sim, evs = build.build_sim(d, net_cls=StochasticNetwork, net_kw={"early_departure": d["early"]})
    LOG["cur"] = log = []
    LOG["sim"] = sim
    try:
        with warnings.catch_warnings():
            warnings.simplefilter("ignore")
            sim.run()
    except Exception as e:
        obs.violate("run_raised", f"{type(e).__name__}: {e}", scenario=d)
        return
    finally:
        LOG["cur"] = None
        LOG["sim"] = None
    wit = dict(scenario=d, rseed=case["rseed"])
    obs.ev("stochastic_runs_judged")
    obs.ev("charge_calls_logged", len(log))
    ids = list(sim.network.station_ids)
    row = {st: i for i, st in enumerate(ids)}
    volt = {s["id"]: s["voltage"] for s in d["network"]["stations"]}
    per = d["period"]
    cr = sim.charging_rates
    T = sim.iteration
    tol = lambda x: 1e-9 * max(1.0, abs(x))
    cells = {}
    energy = {}
    for sid, st, p, v, Tm, rate, e_after, t in log:
        if (st, t) in cells:
            obs.violate("two_charge_calls_one_cell", f"station {st} period {t}: charged twice", **wit)
            return
        cells[(st, t)] = rate
        energy[sid] = energy.get(sid, 0.0) + rate * volt[st] / 1000.0 * per / 60.0
        if v != volt[st] or Tm != per:
            obs.violate("charge_call_voltage_or_period", f"period {t} station {st}: V={v}, T={Tm}", **wit)
            return
    for i, st in enumerate(ids):
        for t in range(T):
            want = cells.get((st, t), 0.0)
            obs.ev("stochastic_cells_checked")
            if not abs(cr[i, t] - want) <= tol(want):
                obs.violate("recorded_rate_vs_charge_call", f"station {st} period {t}: recorded rate {cr[i, t]!r}, "
                            f"{'EV.charge returned ' + repr(want) if (st, t) in cells else 'no EV was charged there'}", **wit)
                return
    for sid, ev in sim.ev_history.items():
        e = energy.get(sid, 0.0)
        obs.ev("sessions_reconciled")
        if not abs(ev.energy_delivered - e) <= tol(e):
            obs.violate("energy_vs_recorded_rates", f"session {sid}: energy_delivered {ev.energy_delivered!r}, sum over its charge calls {e!r}", **wit)
        b = ev_battery(ev)
        c_now = battery_state(b)[0] if b is not None else None
        init = next(s_["battery"]["init"] for s_ in d["sessions"] if s_["id"] == sid)
        if c_now is not None and not abs((c_now - init) - ev.energy_delivered) <= tol(e) + 1e-12:
            obs.violate("energy_vs_battery_charge", f"session {sid}: battery gained {c_now - init!r}, energy_delivered {ev.energy_delivered!r}", **wit)
    agg = [float(sum(cr[i, t] for i in range(len(ids)))) for t in range(T)]
    if not abs(sim.peak - max([0.0] + agg)) <= tol(sim.peak):
        obs.violate("peak", f"peak {sim.peak!r}, max aggregate recorded current {max([0.0] + agg)!r}", **wit)
    tot = acnsim.total_energy_delivered(sim)
    integ = sum(sum(cr[i, t] * volt[st] for i, st in enumerate(ids)) / 1000.0 for t in range(cr.shape[1])) * per / 60.0
    if not abs(tot - integ) <= tol(integ):
        obs.violate("total_energy_vs_power_integral", f"total_energy_delivered {tot!r}, integral of recorded aggregate power {integ!r}", **wit)
    if sim.network.early_unplug:
        obs.ev("stochastic_runs_with_early_departure")
        obs.nontrivial()
    obs.sample = {"kind": "stochastic", "stations": len(ids), "sessions": len(d["sessions"]), "early_unplug": sim.network.early_unplug,
                  "swaps": sim.network.swaps, "charge_calls": len(log), "total_energy": tot}


def _run_resumed(case, obs):
    """The ledger of a run that was interrupted in period k, written to JSON, loaded and resumed: what was recorded before
    and after the checkpoint must still be one consistent ledger per station and session."""
    from acnportal import acnsim
    from acnportal.acnsim import Simulator
    d, k = case["desc"], case["resumed_at"]
    sim, evs = build.build_sim(d)
    orig = sim.scheduler.run
    fired = []

    class _Stop(Exception):
        pass

    def flaky():
        if sim.iteration >= k and not fired:
            fired.append(1)
            raise _Stop()
        return orig()

    sim.scheduler.run = flaky
    wit = dict(scenario=d, checkpoint_period=k)
    with warnings.catch_warnings():
        warnings.simplefilter("ignore")
        try:
            sim.run()
        except _Stop:
            sim.scheduler.run = orig
            s2 = Simulator.from_json(sim.to_json())
            s2.update_scheduler(sim.scheduler)
            sim = s2
            obs.ev("resumed_after_json")
            try:
                sim.run()
            except Exception as e:
                obs.violate("run_raised", f"resumed run: {type(e).__name__}: {e}", **wit)
                return
        except Exception as e:
            obs.violate("run_raised", f"{type(e).__name__}: {e}", **wit)
            return
    obs.ev("resumed_runs_judged")
    ids = list(sim.network.station_ids)
    row = {st: i for i, st in enumerate(ids)}
    volt = {s_["id"]: s_["voltage"] for s_ in d["network"]["stations"]}
    per = d["period"]
    cr = sim.charging_rates
    T = sim.iteration
    tol = lambda x: 1e-9 * max(1.0, abs(x))
    model = simrun.occupant_model(d)
    if sorted(ids) != sorted(volt):
        obs.violate("station_set_changed", f"{ids}", **wit)
        return
    for s_ in d["sessions"]:
        ev = sim.ev_history.get(s_["id"])
        if ev is None:
            obs.violate("session_missing_from_history", s_["id"], **wit)
            continue
        i = row[s_["station"]]
        e_rates = float(sum(cr[i, t] for t in range(s_["arrival"], min(s_["departure"], cr.shape[1])))) * volt[s_["station"]] / 1000.0 * per / 60.0
        obs.ev("sessions_reconciled")
        if not abs(ev.energy_delivered - e_rates) <= tol(e_rates):
            obs.violate("energy_vs_recorded_rates", f"after a JSON checkpoint in period {k}: session {s_['id']}: energy_delivered "
                        f"{ev.energy_delivered!r}, sum(rate*V*dt) on its station row {e_rates!r}", session=s_, **wit)
            break
        b = ev_battery(ev)
        c_now = battery_state(b)[0] if b is not None else None
        if c_now is not None and not abs((c_now - s_["battery"]["init"]) - ev.energy_delivered) <= tol(e_rates) + 1e-12 * s_["battery"]["cap"]:
            obs.violate("energy_vs_battery_charge", f"after a JSON checkpoint: session {s_['id']}: battery gained {c_now - s_['battery']['init']!r}, "
                        f"energy_delivered {ev.energy_delivered!r}", **wit)
            break
    for i, st in enumerate(ids):
        for t in range(T):
            if simrun.occupant_at(model, st, t) is None and cr[i, t] != 0:
                obs.violate("rate_on_vacant_station", f"after a JSON checkpoint: station {st} period {t}: recorded rate {cr[i, t]!r} with no EV connected", **wit)
                return
    agg = [float(sum(cr[i, t] for i in range(len(ids)))) for t in range(T)]
    if not abs(sim.peak - max([0.0] + agg)) <= tol(sim.peak):
        obs.violate("peak", f"after a JSON checkpoint: peak {sim.peak!r}, max aggregate recorded current {max([0.0] + agg)!r}", **wit)
    tot = acnsim.total_energy_delivered(sim)
    integ = sum(sum(cr[i, t] * volt[st] for i, st in enumerate(ids)) / 1000.0 for t in range(cr.shape[1])) * per / 60.0
    if not abs(tot - integ) <= tol(integ):
        obs.violate("total_energy_vs_power_integral", f"after a JSON checkpoint: total {tot!r}, integral {integ!r}", **wit)
    if len(set(volt.values())) >= 2 and tot > 0:
        obs.nontrivial()
    obs.sample = {"kind": "resumed", "checkpoint_period": k, "stations": len(ids), "sessions": len(d["sessions"]), "total_energy": tot}


def run_case(case, obs):
    from acnportal import acnsim
    if case.get("stochastic"):
        return _run_stochastic(case, obs)
    if case.get("resumed_at") is not None:
        return _run_resumed(case, obs)
    d = case["desc"]
    if d.get("v2g"):
        obs.ev("runs_with_discharging_schedules")
    sch = None
    evs0 = None
    if case.get("reuse") and not case.get("meddle"):
        # day 2 of a study: the SAME EV objects after their public reset(), on a fresh network and simulator, under a scheduler
        # that keeps some connected cars at 0 A in their first periods; the ledger of day 2 is judged
        sim0, evs0 = build.build_sim(d)
        try:
            with warnings.catch_warnings():
                warnings.simplefilter("ignore")
                sim0.run()
        except Exception:
            evs0 = None
        else:
            for e_ in evs0:
                e_.reset()
            d = dict(d, scheduler={"kind": "scripted", "mr": 1, "seed": d.get("np_seed", 1), "t0": 0, "p_empty": 0.0, "max_len": 1, "p_st": 0.35,
                                   "mode": "random"})
            obs.ev("second_simulations_with_reset_evs")
    if case.get("meddle") and d["scheduler"]["kind"] == "scripted":
        # a look-ahead scheduler: trial-charges (and resets) the EV copies it is handed through the public accessor; the
        # ledger of the real sessions must not notice
        sch = build.build_scheduler(d)

        def meddle(self, t, active_sessions):
            with warnings.catch_warnings():
                warnings.simplefilter("ignore")
                handed = self.interface.active_evs
            LOG["cur"], keep = None, LOG["cur"]   # trial charges on copies are not part of the real ledger
            try:
                for ev in handed:
                    ev.charge(32, 208, d["period"])
                    if t % 3 == 0:
                        ev.reset()
            finally:
                LOG["cur"] = keep

        sch.hook = meddle
        obs.ev("runs_with_scheduler_trial_charging_its_copies")
    LOG["cur"] = log = []
    try:
        sim, evs = build.build_sim(d, scheduler=sch, evs=evs0)
        LOG["sim"] = sim
        probe = SimProbe(sim, snapshots=True)
        probe.step_limit = simrun.last_event_ts(d) + 4
        probe.attach()
        probe.run()
        probe.detach()
    finally:
        LOG["cur"] = None
        LOG["sim"] = None
    wit = dict(scenario=d)
    if probe.exception is not None:
        obs.violate("run_raised", f"{type(probe.exception).__name__}: {probe.exception}", **wit)
        return
    obs.ev("runs_judged")
    obs.ev("charge_calls_logged", len(log))
    T = sim.iteration
    ids = list(sim.network.station_ids)
    row = {st: i for i, st in enumerate(ids)}
    volt = {s["id"]: s["voltage"] for s in d["network"]["stations"]}
    per = d["period"]
    cr = sim.charging_rates
    model = simrun.occupant_model(d)
    tol = lambda x: 1e-9 * max(1.0, abs(x))
    # ---- per-step: each charge call's returned rate is the matrix entry of that station and period
    # The calls are grouped by the period in which they were made (sim.iteration at call time) and by the EV's station; HOW
    # OFTEN and IN WHICH ORDER the simulator calls EV.charge is its own business (the property is about the ledger), so a
    # period without a call only requires that nothing was recorded, and of several calls the last one decides.
    snaps = {s["t"]: s for s in probe.snaps}
    trace_periods = [t for t, letter, _ in probe.trace if letter == "A"]
    by_cell = {}
    for rec in log:
        by_cell.setdefault((rec[7], rec[1]), []).append(rec)
    if any(r[7] is None for r in log):
        obs.ev("charge_log_without_period_tags")
        by_cell = None
    for t in trace_periods if by_cell is not None else []:
        occ = snaps[t]["occ"] if t in snaps else {}
        for st in ids:
            # post_charging_update does not unplug in a plain ChargingNetwork: occupancy at X = occupancy at A
            if occ.get(st) is None:
                continue
            calls = [r for r in by_cell.get((t, st), []) if r[0] == occ[st]]
            if not calls:
                obs.ev("connected_periods_without_charge_call")
                if not (abs(cr[row[st], t]) <= 1e-9):
                    obs.violate("recorded_rate_without_charge", f"period {t} station {st}: rate {cr[row[st], t]!r} recorded for {occ[st]} although its EV was not charged in that period", **wit)
                    return
                continue
            if len(calls) > 1:
                obs.ev("cells_with_several_charge_calls")
            sid, st_l, p, v, Tm, rate, e_after, _t = calls[-1]
            if v != volt[st] or Tm != per:
                obs.violate("charge_call_voltage_or_period", f"period {t} station {st}: charged with V={v}, T={Tm}; station voltage {volt[st]}, period {per}", **wit)
                return
            if p != sim.pilot_signals[row[st], t]:
                obs.violate("charge_call_pilot", f"period {t} station {st}: EV charged with pilot {p}, recorded pilot {sim.pilot_signals[row[st], t]}", **wit)
                return
            if not (abs(cr[row[st], t] - rate) <= tol(rate)):
                obs.violate("recorded_rate_vs_charge_call", f"period {t} station {st}: recorded rate {cr[row[st], t]!r}, EV.charge returned {rate!r}", **wit)
                return
            obs.ev("charge_calls_matched_to_cells")
    # ---- per-session conservation
    any_energy = False
    for s in d["sessions"]:
        ev = sim.ev_history.get(s["id"])
        if ev is None:
            obs.violate("session_missing_from_history", s["id"], **wit)
            continue
        i = row[s["station"]]
        e_rates = float(sum(cr[i, t] for t in range(s["arrival"], min(s["departure"], cr.shape[1])))) * volt[s["station"]] / 1000.0 * per / 60.0
        obs.ev("sessions_reconciled")
        if not (abs(ev.energy_delivered - e_rates) <= tol(e_rates)):
            obs.violate("energy_vs_recorded_rates", f"session {s['id']}: energy_delivered {ev.energy_delivered!r}, sum(rate*V*dt) {e_rates!r}",
                        session=s, **wit)
        b = ev_battery(ev)
        c_now = battery_state(b)[0] if b is not None else None
        if c_now is not None:
            gained = c_now - s["battery"]["init"]
            if not (abs(gained - ev.energy_delivered) <= tol(e_rates) + 1e-12 * s["battery"]["cap"]):
                obs.violate("energy_vs_battery_charge", f"session {s['id']}: battery gained {gained!r}, energy_delivered {ev.energy_delivered!r}",
                            session=s, **wit)
        cur, init = json_charge(ev_battery_json(ev))
        obs.ev("battery_json_dumps")
        if cur is not None and init is not None:
            if not (abs((cur - init) - ev.energy_delivered) <= tol(e_rates) + 1e-12 * s["battery"]["cap"]):
                obs.violate("energy_vs_battery_charge", f"session {s['id']} (JSON dump): battery gained {cur - init!r}, energy_delivered {ev.energy_delivered!r}",
                            session=s, **wit)
        if ev.energy_delivered > 0:
            any_energy = True
        bt = s["battery"]
        obs.regime("regime:ideal" if bt["t"] == "ideal" else "regime:two-stage")
        if bt.get("noise", 0) > 0:
            obs.regime("regime:noise-battery")
    # ---- vacant cells are exactly zero (also where the schedule addressed the vacant station)
    vacant_pilots = 0
    for i, st in enumerate(ids):
        for t in range(T):
            if simrun.occupant_at(model, st, t) is None:
                obs.ev("vacant_cells_checked")
                if cr[i, t] != 0:
                    obs.violate("rate_on_vacant_station", f"station {st} period {t}: recorded rate {cr[i, t]!r} with no EV connected", **wit)
                    break
                if sim.pilot_signals[i, t] != 0:
                    vacant_pilots += 1
    obs.ev("vacant_station_pilots", vacant_pilots)
    if cr.shape[1] > T and np.any(cr[:, T:] != 0):
        obs.violate("rate_after_end", "non-zero recorded rate after the last simulated period", **wit)
    # ---- peak, aggregates, totals
    agg = [float(sum(cr[i, t] for i in range(len(ids)))) for t in range(cr.shape[1])]
    exp_peak = max([0.0] + agg[:T])
    if not (abs(sim.peak - exp_peak) <= tol(exp_peak)):
        obs.violate("peak", f"peak {sim.peak!r}, max aggregate recorded current {exp_peak!r}", **wit)
    # the peak is the maximum so far at the end of EVERY period (read in the end-of-period hook), not only when run() returns
    run_max = prev_max = 0.0
    for snap in probe.snaps:
        if snap["t"] < len(agg):
            prev_max, run_max = run_max, max(run_max, agg[snap["t"]])
            obs.ev("peak_checked_at_period_end")
            # whether the hook runs before or after the period's own column is folded in is not the property's business
            if not (abs(snap["peak"] - run_max) <= tol(run_max) or abs(snap["peak"] - prev_max) <= tol(prev_max)):
                obs.violate("peak_lags_during_run", f"end of period {snap['t']}: peak {snap['peak']!r}, maximum recorded aggregate current so far {run_max!r} (through the previous period {prev_max!r})", **wit)
                break
    ac = acnsim.aggregate_current(sim)
    if len(ac) not in (cr.shape[1], T) or not np.allclose(ac[:T], agg[:T], rtol=1e-9, atol=1e-12) or np.any(np.asarray(ac[T:]) != 0):
        obs.violate("aggregate_current", "aggregate_current != column sums of charging_rates", **wit)
    ap = acnsim.aggregate_power(sim)
    exp_p = [sum(cr[i, t] * volt[st] for i, st in enumerate(ids)) / 1000.0 for t in range(cr.shape[1])]
    if len(ap) not in (cr.shape[1], T) or not np.allclose(ap[:T], exp_p[:T], rtol=1e-9, atol=1e-12) or np.any(np.asarray(ap[T:]) != 0):
        obs.violate("aggregate_power", "aggregate_power != sum(rate x station voltage)/1000", **wit)
    tot = acnsim.total_energy_delivered(sim)
    integ = sum(exp_p) * per / 60.0
    if not (abs(tot - integ) <= tol(integ)):
        obs.violate("total_energy_vs_power_integral", f"total_energy_delivered {tot!r}, integral of recorded aggregate power {integ!r}", **wit)
    if len(set(volt.values())) >= 2:
        obs.regime("regime:heterogeneous-voltage")
    if any_energy and (len(set(volt.values())) >= 2 or vacant_pilots > 0):
        obs.nontrivial()
    obs.sample = {"stations": len(ids), "voltages": sorted(set(volt.values())), "sessions": len(d["sessions"]), "period": per,
                  "scheduler": d["scheduler"]["kind"], "charge_calls": len(log), "total_energy": tot, "peak": float(sim.peak),
                  "vacant_station_pilots": vacant_pilots}
    # ---- the finished simulation is CONTINUED: more arrivals are added to its (drained) queue and run() is called again; the
    # totals and aggregates asked for above are asked for again on the longer trajectory
    if case.get("continue") and not obs.viol and d["scheduler"]["kind"] != "sorted":
        from acnportal.acnsim.events import PluginEvent
        from acnportal.acnsim.models import EV, Battery
        extra = []
        for k_, st in enumerate(ids[:3]):
            a_ = T + 1 + k_
            extra.append(EV(a_, a_ + 3 + k_, 40.0, st, f"late{k_}", Battery(200.0, 0.0, 50.0)))
        sim.event_queue.add_events([PluginEvent(e_.arrival, e_) for e_ in extra])
        with warnings.catch_warnings():
            warnings.simplefilter("ignore")
            try:
                sim.run()
            except Exception as e:
                obs.violate("run_raised", f"continued run: {type(e).__name__}: {e}", **wit)
                return
        obs.ev("finished_simulations_continued_with_more_arrivals")
        cr2 = sim.charging_rates
        T2 = sim.iteration
        exp_p2 = [sum(cr2[i, t] * volt[st] for i, st in enumerate(ids)) / 1000.0 for t in range(cr2.shape[1])]
        ap2 = acnsim.aggregate_power(sim)
        if len(ap2) != cr2.shape[1] or not np.allclose(ap2, exp_p2, rtol=1e-9, atol=1e-12):
            obs.violate("aggregate_power", f"after continuing the finished simulation to period {T2}: aggregate_power != sum(rate x voltage)/1000 "
                        f"(len {len(ap2)} vs {cr2.shape[1]})", **wit)
        tot2 = acnsim.total_energy_delivered(sim)
        integ2 = sum(exp_p2) * per / 60.0
        if not (abs(tot2 - integ2) <= tol(integ2)):
            obs.violate("total_energy_vs_power_integral", f"continued simulation: total_energy_delivered {tot2!r}, integral of recorded aggregate "
                        f"power {integ2!r}", **wit)
        for e_ in extra:
            i_ = row[e_.station_id]
            exp_e = float(sum(cr2[i_, t] for t in range(e_.arrival, min(e_.departure, T2)))) * volt[e_.station_id] / 1000.0 * per / 60.0
            if not (abs(e_.energy_delivered - exp_e) <= tol(exp_e)):
                obs.violate("energy_vs_recorded_rates", f"continued simulation: session {e_.session_id}: {e_.energy_delivered!r} vs {exp_e!r}", **wit)
        agg2 = [float(sum(cr2[i, t] for i in range(len(ids)))) for t in range(T2)]
        if not (abs(sim.peak - max([0.0] + agg2)) <= tol(max([0.0] + agg2))):
            obs.violate("peak", f"continued simulation: peak {sim.peak!r} vs {max([0.0] + agg2)!r}", **wit)


def classify(v):
    return None
