"""C15 — generated sessions are well-formed; batteries can hold the request; capacity fit exact."""
import math
import random
from datetime import datetime, timedelta, timezone
from fractions import Fraction as F

import numpy as np

from vlib import oracles
from vlib.fakeserver import FakeRequests, Installed, rfc1123
from vlib.monitors import battery_state, ev_battery

ID = "C15"
META = {
    "technique": "runtime monitoring: attributes of EVs returned by the real converters (ACN-Data documents through a fake transport, stochastic samples through the public sample() extension point) compared with an exact-rational period-index oracle; fitted batteries charged through the real model for the whole stay",
    "design_ref": "DESIGN.md section 6 C15",
    "level_text": "exploration: thousands of generated documents/samples x configuration grid, each EV judged on arrival/departure/energy/battery; capacity fit swept over (energy, stay, voltage, period) including the small-request branch the suite never samples, by charging the real Linear2StageBattery for the stay; half of the document batches through generate_events; integer-typed sample matrices; half of the calls leave options at their documented defaults unmentioned; samples before the simulation start; stays handed to the capacity fit as numpy integers of every width; fits at week-long periods and MV supplies",
    "level_note": "instants are whole seconds after 1970 and periods are exactly representable ('nice') so floor() is decidable; stochastic samples within 1e-9 of a period boundary are not judged; max_len follows the behaviour the suite pins (periods for documents, hours for samples)",
}
LEVEL = "exploration"
RULE = ("cases: batches of ACN-Data documents (through DataClient + get_evs with a fake transport), sample matrices "
        "(through StochasticEvents.generate_events with sample() overridden, and a fitted GaussianMixtureEvents), and "
        "(energy, stay, V, period) tuples for batt_cap_fn; every EV / fit is one evaluation; non-trivial = a batch with >=2 "
        "sessions of which one is capped by max_len or force_feasible or starts off a period boundary, or a fit with "
        "energy in (0, deliverable]; distinct = distinct case descriptors")
ASSUMPTIONS = [
    "document instants are whole seconds, 2018-2021, in 8 zones incl. DST transitions; periods in {0.5,1,2.5,5,7.5,15,60} min",
    "with capacity_fn=batt_cap_fn the maximum battery power equals 32 A x voltage (the fit's own assumption)",
    "capacity fit judged where the request is at most what some offered capacity can absorb during the stay from empty (reference two-stage law); a ValueError beyond that is a documented refusal",
    "stochastic max_len is interpreted in hours (pinned by the repository's tests)",
]
ANCHORS = [
    "acnportal.acnsim.events.acndata_events:_convert_to_ev",
    "acnportal.acnsim.events.acndata_events:_datetime_to_timestamp",
    "acnportal.acnsim.events.stochastic_events:StochasticEvents._convert_ev_matrix",
    "acnportal.acnsim.models.battery:batt_cap_fn",
]
REQUIRED = ["calls_leaving_default_options_unmentioned", "doc_batches_with_a_naive_simulation_window", "doc_batches_with_user_inputs", "doc_batches_with_zoneinfo_datetimes", "doc_batches_through_generate_events", "integer_typed_sample_matrices", "doc_evs_judged", "stoch_evs_judged", "fits_judged", "regime:fit-init-above-transition",
            "regime:fit-init-below-transition", "regime:max_len-capped", "regime:force_feasible-capped",
            "regime:doc-capacity_fn", "regime:stoch-capacity_fn", "gmm_evs_judged"]
BUDGET_S = {"quick": 200, "thorough": 2400}
ZONES = ["America/Los_Angeles", "America/New_York", "Europe/London", "Asia/Kolkata", "Australia/Sydney", "UTC",
         "Asia/Kathmandu", "America/Sao_Paulo"]
PERIODS = [0.5, 1, 2.5, 5, 7.5, 15, 60]
BP = ["none", "battery", "l2", "l2noise", "fit"]


def cases(seed, tier):
    rng = random.Random(f"C15:{seed}")
    nd, ns, nf = (600, 500, 5000) if tier == "quick" else (12000, 8000, 150000)
    out = [{"kind": "fit_grid"}, {"kind": "gmm", "seed": 1}]
    for i in range(nd):
        out.append({"kind": "docs", "seed": rng.randrange(1 << 30), "n": rng.choice([1, 3, 10, 30]),
                    "tz": rng.choice(ZONES), "period": rng.choice(PERIODS), "bp": rng.choice(BP),
                    "max_len": rng.choice([None, None, 1, 3, 50]), "ff": rng.random() < 0.5,
                    "V": rng.choice([120, 208, 240]), "P": rng.choice([3.3, 6.656, 7, 50])})
    for i in range(ns):
        out.append({"kind": "stoch", "seed": rng.randrange(1 << 30), "n": rng.choice([1, 4, 12]), "days": rng.choice([1, 1, 3]),
                    "period": rng.choice(PERIODS), "bp": rng.choice(BP), "max_len": rng.choice([None, None, 1, 3, 50]),
                    "ff": rng.random() < 0.5, "V": rng.choice([120, 208, 240]), "P": rng.choice([3.3, 6.656, 7, 50]),
                    "dyadic": rng.random() < 0.5})
    for i in range(nf // 50):
        out.append({"kind": "fit", "seed": rng.randrange(1 << 30), "n": 50})
    if tier == "thorough":
        out += [{"kind": "gmm", "seed": s} for s in range(2, 12)]
    return out


def _bp(kind, rng):
    from acnportal.acnsim.models import Battery, Linear2StageBattery
    from acnportal.acnsim.models.battery import batt_cap_fn
    if kind == "none":
        return None
    if kind == "battery":
        return {"type": Battery}
    if kind == "l2":
        return {"type": Linear2StageBattery, "kwargs": {"transition_soc": rng.choice([0.8, 0.5, 0.95])}}
    if kind == "l2noise":
        return {"type": Linear2StageBattery, "kwargs": {"transition_soc": 0.8, "noise_level": 0.5,
                                                         "charge_calculation": rng.choice(["continuous", "stepwise"])}}
    return {"type": Linear2StageBattery, "capacity_fn": batt_cap_fn}


def _fl(epoch_s, period):
    return math.floor(F(int(epoch_s)) / (F(period) * 60))


def _check_battery(obs, ev, request, P, tag, wit):
    b = ev_battery(ev)
    charge, cap, mp, _ = battery_state(b)
    if charge is None or cap is None:
        obs.ev("battery_state_unobserved")
        return
    # the provided capacity fit bisects the initial SoC to 1e-9, i.e. ~1e-7 kWh: same tolerance as the fit check
    tol = 1e-6 if tag.endswith("+fit") else 1e-9 * max(1.0, request)
    if not (cap - charge >= request - tol):
        obs.violate("battery_cannot_hold_request", f"{tag}: free capacity {cap - charge!r} < request {request!r}", **wit)
    if mp is not None and not (abs(mp - P) <= 1e-12 * max(1, P)):
        obs.violate("battery_max_power", f"{tag}: max power {mp!r} != {P!r}", **wit)


def _deliverable(cap, stay, V, period, tsoc=0.8):
    c = 0.0
    for _ in range(int(stay)):
        c = oracles.l2_ref(cap, c, 32 * V / 1000.0, tsoc, 32, V, period)
    return c


def _fit_feasible(energy, stay, V, period):
    """Largest request some offered capacity can absorb from empty during the stay (reference law)."""
    best = 0.0
    for cap in (8, 24, 40, 60, 85, 100):
        if stay > 3000:
            return None
        best = max(best, min(cap, _deliverable(cap, stay, V, period)))
    return best


def _check_fit_on_ev(obs, ev, request, stay, V, period, tag, wit):
    """Charge the EV's own (fitted) battery at full rate for the stay: must deliver the request."""
    if stay <= 0 or stay > 3000:
        return
    b = ev_battery(ev)
    c0 = battery_state(b)[0]
    got = 0.0
    for _ in range(int(stay)):
        got += b.charge(32, V, period) * V / 1000.0 * (period / 60.0)
    obs.ev("fitted_evs_charged")
    if not (abs(got - request) <= 1e-6):
        obs.violate("fit_wrong_energy_via_converter", f"{tag}: charging at 32 A for {stay} periods delivers {got!r}, requested {request!r}",
                    delivered=got, requested=request, stay=stay, **wit)


# ------------------------------------------------------------------ documents
def _run_docs(case, obs):
    import pytz
    from acnportal.acnsim.events import acndata_events as ae
    rng = random.Random(case["seed"])
    tzname, period, V, P = case["tz"], case["period"], case["V"], case["P"]
    bp = _bp(case["bp"], rng)
    if case["bp"] == "fit":
        P = 32 * V / 1000.0
    base = datetime(rng.choice([2018, 2019, 2020]), rng.choice([3, 11, 6, 10, 4]), rng.randint(1, 14), tzinfo=timezone.utc) \
        + timedelta(seconds=rng.randint(0, 86400))
    start = base.astimezone(pytz.timezone(rng.choice(ZONES)))
    end = start + timedelta(days=12)
    docs = []
    for i in range(case["n"]):
        c = base + timedelta(seconds=rng.choice([0, rng.randint(0, 86400 * 10)]))
        if rng.random() < 0.3:  # exactly on a period boundary of the epoch grid
            sec = int(F(period) * 60 * math.ceil(F(int(c.timestamp())) / (F(period) * 60)))
            c = datetime.fromtimestamp(sec, tz=timezone.utc)
            if c < base:
                c = base
        d = c + timedelta(seconds=rng.choice([0, 59, rng.randint(60, 86400 * 2)]))
        if case["bp"] == "fit" and (d - c).total_seconds() < 60 * period:
            # the capacity fit has no answer for a stay of zero periods (nothing can be delivered)
            d = c + timedelta(seconds=int(60 * period) + rng.randint(0, 7200))
        docs.append({"_id": f"id{i}", "sessionID": f"sess{i}", "spaceID": f"sp{i % 7}", "stationID": "x", "siteID": "1",
                     "clusterID": "c", "userID": None, "timezone": tzname, "connectionTime": rfc1123(c),
                     "disconnectTime": rfc1123(d), "doneChargingTime": None,
                     "kWhDelivered": round(rng.choice([rng.uniform(0.01, 2), rng.uniform(0.01, 80), rng.uniform(0.01, 150)]), 3),
                     "userInputs": None})
    zi_docs = case["seed"] % 5 == 0
    FALLBACK = {"America/Los_Angeles": datetime(2019, 11, 3, 9, 0, tzinfo=timezone.utc), "Europe/Berlin": datetime(2019, 10, 27, 1, 0, tzinfo=timezone.utc),
                "America/New_York": datetime(2019, 11, 3, 6, 0, tzinfo=timezone.utc)}
    if zi_docs and tzname in FALLBACK and case["bp"] != "fit":
        # sessions inside the repeated hour of a fall-back night: plugged in at 01:30 (first pass), out at 01:30 (second pass),
        # and one that connects at the wall time at which the previous one ... i.e. fold twins within one query
        tr = FALLBACK[tzname]
        base = tr - timedelta(days=3)
        start = base.astimezone(pytz.timezone(tzname))
        end = start + timedelta(days=12)
        docs = [d_ for d_ in docs if False]
        for k_, (c_, d_) in enumerate([(tr - timedelta(minutes=30), tr + timedelta(minutes=30)), (tr + timedelta(minutes=30), tr + timedelta(hours=5)),
                                       (tr - timedelta(hours=2), tr - timedelta(minutes=30)), (tr + timedelta(minutes=45), tr + timedelta(minutes=50))]):
            docs.append({"_id": f"tw{k_}", "sessionID": f"twin{k_}", "spaceID": f"sp{k_}", "stationID": "x", "siteID": "1", "clusterID": "c", "userID": None,
                         "timezone": tzname, "connectionTime": rfc1123(c_), "disconnectTime": rfc1123(d_), "doneChargingTime": None,
                         "kWhDelivered": round(rng.uniform(0.5, 20), 3), "userInputs": None})
        obs.ev("doc_batches_inside_a_repeated_hour")
    if case["seed"] % 6 == 1:
        # the caller passes NAIVE datetimes for the simulation window: python reads them as the process's local time (which varies
        # from case to case here), and so must everything that is derived from them
        s_n, e_n = datetime.fromtimestamp(start.timestamp()), datetime.fromtimestamp(end.timestamp())
        if s_n.timestamp() == start.timestamp() and e_n.timestamp() == end.timestamp():
            start, end = s_n, e_n
            obs.ev("doc_batches_with_a_naive_simulation_window")
    if case["seed"] % 3 == 0:
        # claimed sessions: the driver's own inputs ride along in the document (the energy to convert is still kWhDelivered)
        for d_ in docs:
            if rng.random() < 0.6:
                d_["userInputs"] = [{"userID": 7, "kWhRequested": round(d_["kWhDelivered"] * rng.choice([0.5, 2.0, 3.0]) + 1.0, 2), "milesRequested": 40,
                                     "WhPerMile": 250, "minutesAvailable": 180, "paymentRequired": True,
                                     "modifiedAt": d_["connectionTime"], "requestedDeparture": d_["disconnectTime"]}]
        obs.ev("doc_batches_with_user_inputs")
    fake = FakeRequests(docs, cap=rng.choice([1000, 7]))
    kw = dict(max_len=case["max_len"], battery_params=bp, force_feasible=case["ff"])
    if case["seed"] % 2 == 0:
        # half of the callers do not mention an option they leave at its documented default (max_len=None, battery_params=None,
        # force_feasible=False): the defaults are part of the API
        kw = {k_: v_ for k_, v_ in kw.items() if not (v_ is None or v_ is False)}
        obs.ev("calls_leaving_default_options_unmentioned")
    RealClient = getattr(ae.DataClient, "_verif_real", ae.DataClient)

    class ZIClient:
        """The real client, except that the datetimes of the documents it yields carry zoneinfo time zones (what documents look
        like after a trip through a DataFrame cache): same instants, another tzinfo implementation (wall time + fold)."""

        _verif_real = RealClient

        def __init__(self, *a_, **k_):
            self._c = RealClient(*a_, **k_)

        def get_sessions_by_time(self, *a_, **k_):
            import zoneinfo as _zi
            for doc in self._c.get_sessions_by_time(*a_, **k_):
                z_ = _zi.ZoneInfo(doc["timezone"])
                for f_, v_ in list(doc.items()):
                    if isinstance(v_, datetime):
                        doc[f_] = v_.astimezone(z_)
                yield doc

    if zi_docs:
        ae.DataClient = ZIClient
        obs.ev("doc_batches_with_zoneinfo_datetimes")
    cfg = dict(period=period, V=V, P=P, max_len=case["max_len"], ff=case["ff"], bp=case["bp"], tz=tzname,
               start=start.isoformat())
    refused = False
    with Installed(fake):
        try:
            if case.get("seed", 0) % 2:
                # the public entry point: an EventQueue of plug-in events, one per session, stamped with the session's arrival
                q_ = ae.generate_events("tok", "caltech", start, end, period, V, P, **kw)
                obs.ev("doc_batches_through_generate_events")
                pairs = [(ts_, e_) for ts_, e_ in q_.queue]
                for ts_, e_ in pairs:
                    if type(e_).__name__ != "PluginEvent" or ts_ != e_.ev.arrival or e_.timestamp != e_.ev.arrival:
                        obs.violate("plugin_event_not_at_arrival", f"event {type(e_).__name__} at {ts_} for arrival {e_.ev.arrival}")
                # (a heap's array order is not the order get_evs produced: pair the EVs with the documents by session id, in
                # connection-time order, so that the per-document comparison below applies unchanged)
                rank = {d_["sessionID"]: n_ for n_, d_ in enumerate(sorted(docs, key=lambda d_: _ts(d_["connectionTime"])))}
                evs = [e_.ev for ts_, e_ in sorted(pairs, key=lambda x: rank.get(x[1].ev.session_id, -1))]
            else:
                evs = ae.get_evs("tok", "caltech", start, end, period, V, P, **kw)
        except ValueError as e:
            if case["bp"] == "fit" and ("No feasible battery size" in str(e) or "Initial Charge cannot be greater" in str(e)):
                refused = True
                evs = []
            else:
                raise
    ae.DataClient = RealClient
    if refused:
        obs.ev("doc_batches_refused_by_fit")
        # a refusal is legitimate only if some document is beyond what the fit can absorb
        ok = False
        for d in docs:
            st = _fl(_ts(d["disconnectTime"]), period) - _fl(_ts(d["connectionTime"]), period)
            if case["max_len"] is not None and st > case["max_len"]:
                st = case["max_len"]
            e = d["kWhDelivered"] if not case["ff"] else min(d["kWhDelivered"], P * st * (period / 60))
            fe = _fit_feasible(e, st, V, period)
            if fe is None or e > fe * (1 - 1e-6) or st == 0:
                ok = True
        if not ok:
            obs.violate("fit_refused_feasible_request", "get_evs with batt_cap_fn raised although every document is absorbable", config=cfg)
        return
    exp_docs = sorted(docs, key=lambda d: _ts(d["connectionTime"]))
    exp_docs = [d for d in exp_docs if start.timestamp() <= _ts(d["connectionTime"]) <= end.timestamp()]
    if len(evs) != len(exp_docs):
        obs.violate("doc_count", f"{len(evs)} EVs for {len(exp_docs)} documents", config=cfg)
        return
    off = _fl(int(start.timestamp()), period)
    prev = None
    interesting = False
    for ev, d in zip(evs, exp_docs):
        obs.ev("doc_evs_judged")
        ea = _fl(_ts(d["connectionTime"]), period) - off
        ed = _fl(_ts(d["disconnectTime"]), period) - off
        if case["max_len"] is not None and ed - ea > case["max_len"]:
            ed = ea + case["max_len"]
            obs.regime("regime:max_len-capped")
            interesting = True
        er = d["kWhDelivered"]
        if case["ff"]:
            capd = P * (ed - ea) * (period / 60)
            if capd < er:
                er = capd
                obs.regime("regime:force_feasible-capped")
                interesting = True
        wit = dict(doc=d, config=cfg, got=dict(arrival=ev.arrival, departure=ev.departure, requested=ev.requested_energy,
                                                 station=ev.station_id, session=ev.session_id),
                   expected=dict(arrival=ea, departure=ed, requested=er))
        if (ev.arrival, ev.departure) != (ea, ed):
            obs.violate("doc_period_index", f"arrival/departure {(ev.arrival, ev.departure)} expected {(ea, ed)}", **wit)
        if not (ev.departure >= ev.arrival):
            obs.violate("doc_departure_before_arrival", "", **wit)
        if prev is not None and ev.arrival < prev:
            obs.violate("doc_order_not_preserved", "arrival decreases along connection-time order", **wit)
        prev = ev.arrival
        if not (abs(ev.requested_energy - er) <= 1e-12 * max(1, er)):
            obs.violate("doc_requested_energy", f"{ev.requested_energy!r} expected {er!r}", **wit)
        if ev.station_id != d["spaceID"] or ev.session_id != d["sessionID"]:
            obs.violate("doc_ids", "station/session id not taken from spaceID/sessionID", **wit)
        _check_battery(obs, ev, er, P, "doc+fit" if case["bp"] == "fit" else "doc", wit)
        if case["bp"] == "fit":
            obs.regime("regime:doc-capacity_fn")
            _check_fit_on_ev(obs, ev, er, ed - ea, V, period, "doc", wit)
        if _ts(d["connectionTime"]) % int(F(period) * 60) if F(period) * 60 == int(F(period) * 60) else True:
            interesting = interesting or True
    if len(evs) >= 2 and interesting:
        obs.nontrivial()
    obs.evals = max(1, len(evs))
    obs.sample = {"kind": "docs", "config": cfg, "n_docs": len(docs), "first_doc": docs[0] if docs else None,
                  "first_ev": None if not evs else [evs[0].arrival, evs[0].departure, evs[0].requested_energy]}
    # private single-document converter, when present: simulation start *after* the connection
    conv = getattr(ae, "_convert_to_ev", None)
    if conv is not None and docs and case["bp"] != "fit":
        from acnportal.acndata.utils import parse_dates
        import copy
        d = copy.deepcopy(docs[0])
        parse_dates(d)
        late = datetime.fromtimestamp(_ts(docs[0]["connectionTime"]) + rng.randint(1, 7200), tz=timezone.utc)
        off2 = _fl(int(late.timestamp()), period)
        ev = conv(d, off2, period, V, P, case["max_len"], bp, case["ff"])
        ea = _fl(_ts(docs[0]["connectionTime"]), period) - off2
        ed = _fl(_ts(docs[0]["disconnectTime"]), period) - off2
        if case["max_len"] is not None and ed - ea > case["max_len"]:
            ed = ea + case["max_len"]
        obs.ev("doc_evs_start_after_connection")
        if (ev.arrival, ev.departure) != (ea, ed):
            obs.violate("doc_period_index", f"start after connection: {(ev.arrival, ev.departure)} expected {(ea, ed)}",
                        doc=docs[0], config=cfg, late_start=late.isoformat())


def _ts(s):
    from email.utils import parsedate_to_datetime
    return int(parsedate_to_datetime(s).timestamp())


# ------------------------------------------------------------------ stochastic
def _run_stoch(case, obs):
    from acnportal.acnsim.events.stochastic_events import StochasticEvents
    rng = random.Random(case["seed"])
    period, V, P = case["period"], case["V"], case["P"]
    bp = _bp(case["bp"], rng)
    if case["bp"] == "fit":
        P = 32 * V / 1000.0
    mats = []

    int_samples = case["seed"] % 7 == 0  # whole-number samples handed over as an integer-typed matrix

    def draw():
        if int_samples:
            return [rng.randint(0, 23), rng.randint(1, 30), rng.randint(1, 90)]
        if case["dyadic"]:
            a = rng.randint(0, 24 * 64) / 64.0
            d = rng.randint(1, 40 * 64) / 64.0
        else:
            a = rng.uniform(0, 24)
            d = rng.uniform(0.05, 40)
        if not mats and rng.random() < 0.06:
            # a sample that falls before the simulation start (a generator with a negative lower clip): a hair, a fraction of a
            # period, several periods before hour 0 of the first day
            a = -rng.choice([1e-9, period / 60.0 * rng.choice([0.01, 0.5, 0.99]), period / 60.0 * rng.choice([1.5, 3]), rng.uniform(0, 2)])
            obs.ev("samples_before_the_simulation_start")
        e = rng.choice([rng.uniform(0.5, 5), rng.uniform(0.5, 60), rng.uniform(0.5, 150)])
        return [a, d, e]

    class Gen(StochasticEvents):
        def sample(self, n_samples):
            m = np.array([draw() for _ in range(n_samples)], dtype=(int if int_samples else float))
            if int_samples and n_samples:
                obs.ev("integer_typed_sample_matrices")
            mats.append(m.astype(float))
            return m

    spd = [case["n"] if rng.random() < 0.8 else 0 for _ in range(case["days"])]
    if not any(spd):
        spd[0] = case["n"]
    cfg = dict(period=period, V=V, P=P, max_len=case["max_len"], ff=case["ff"], bp=case["bp"], sessions_per_day=spd)
    try:
        kw_ = dict(max_len=case["max_len"], battery_params=bp, force_feasible=case["ff"])
        if case["seed"] % 2 == 0:
            kw_ = {k_: v_ for k_, v_ in kw_.items() if not (v_ is None or v_ is False)}  # documented defaults left unmentioned
            obs.ev("calls_leaving_default_options_unmentioned")
        q = Gen().generate_events(spd, period, V, P, **kw_)
    except ValueError as e:
        # a fit request that cannot be met is refused with ValueError: "No feasible battery size", or - for a stay of zero
        # periods, where the closed form divides by zero - the Battery constructor's own "Initial Charge cannot be greater
        # than capacity"; both are refusals, judged below (a refusal is wrong only if every sample was absorbable)
        if case["bp"] == "fit" and ("No feasible battery size" in str(e) or "Initial Charge cannot be greater" in str(e)):
            obs.ev("stoch_batches_refused_by_fit")
            rows = _stoch_rows(mats, spd)
            ok = False
            for a, dur, en in rows:
                if case["max_len"] is not None and dur > case["max_len"]:
                    dur = case["max_len"]
                if case["ff"]:
                    en = min(en, P * dur)
                stay = math.floor(F(a + dur) * F(60) / F(period)) - math.floor(F(a) * F(60) / F(period))
                fe = _fit_feasible(en, stay, V, period)
                if fe is None or en > fe * (1 - 1e-6) or stay == 0:
                    ok = True
            if not ok:
                obs.violate("fit_refused_feasible_request",
                            "generate_events with batt_cap_fn raised although every sample is absorbable during its stay",
                            config=cfg, rows=rows[:5])
            return
        raise
    events = []
    while not q.empty():
        events.append(q.get_event())
    evs = {e.ev.session_id: e.ev for e in events}
    rows = _stoch_rows(mats, spd)
    n_pre = sum(1 for r_ in rows if r_[0] < 0)
    if not (len(rows) - n_pre <= len(evs) <= len(rows)):
        obs.violate("stoch_count", f"{len(evs)} EVs for {len(rows)} samples ({n_pre} of them before the simulation start)", config=cfg)
        return
    pph = F(60) / F(period)
    interesting = False
    for idx, (a, dur, en) in enumerate(rows):
        ev = evs.get(f"session_{idx}")
        if ev is None and a < 0:
            obs.ev("samples_before_the_start_refused")  # nothing may start before period 0: dropping the sample is the library's answer;
            continue                                    # an EV made of it is judged like any other (period index = floor, i.e. negative)
        if ev is None:
            obs.violate("stoch_ids", f"no EV named session_{idx}", config=cfg)
            continue
        d_eff = dur
        if case["max_len"] is not None and dur > case["max_len"]:
            d_eff = case["max_len"]
            obs.regime("regime:max_len-capped")
            interesting = True
        e_exp = en
        if case["ff"] and P * d_eff < en:
            e_exp = P * d_eff
            obs.regime("regime:force_feasible-capped")
            interesting = True
        xa, xd = F(a) * pph, F(a + d_eff) * pph
        dyadic_row = case["dyadic"] and float(a * 64).is_integer() and float(dur * 64).is_integer()  # (a sample drawn before the start is not)
        if min(abs(xa - round(xa)), abs(xd - round(xd))) < F(1, 10 ** 9) and not dyadic_row:
            obs.boundary += 1
            continue
        ea, ed = math.floor(xa), math.floor(xd)
        obs.ev("stoch_evs_judged")
        wit = dict(sample=[a, dur, en], config=cfg, got=dict(arrival=ev.arrival, departure=ev.departure,
                                                             requested=float(ev.requested_energy)),
                   expected=dict(arrival=ea, departure=ed, requested=e_exp))
        if (ev.arrival, ev.departure) != (ea, ed):
            obs.violate("stoch_period_index", f"arrival/departure {(ev.arrival, ev.departure)} expected {(ea, ed)}", **wit)
        if not (ev.departure >= ev.arrival):
            obs.violate("stoch_departure_before_arrival", "", **wit)
        # force_feasible: "what the maximum power delivers during the stay" - the stay measured in hours as sampled (the library's
        # reading) or in whole periods as simulated are both faithful
        alts = [e_exp] + ([min(en, P * (ed - ea) * period / 60.0)] if case["ff"] else [])
        if not any(abs(float(ev.requested_energy) - x_) <= 1e-12 * max(1, x_) for x_ in alts):
            obs.violate("stoch_requested_energy", f"{ev.requested_energy!r} expected {e_exp!r}", **wit)
        e_exp = min(alts, key=lambda x_: abs(float(ev.requested_energy) - x_))
        _check_battery(obs, ev, e_exp, P, "stoch+fit" if case["bp"] == "fit" else "stoch", wit)
        if case["bp"] == "fit":
            obs.regime("regime:stoch-capacity_fn")
            _check_fit_on_ev(obs, ev, e_exp, ed - ea, V, period, "stoch", wit)
    # order preservation: arrival index non-decreasing in arrival time
    srt = sorted(range(len(rows)), key=lambda i: rows[i][0])
    arr = [evs[f"session_{i}"].arrival for i in srt if f"session_{i}" in evs]
    if arr != sorted(arr):
        obs.violate("stoch_order_not_preserved", "arrival index not monotone in arrival time", config=cfg)
    if len(rows) >= 2 and interesting:
        obs.nontrivial()
    obs.evals = max(1, len(rows))
    obs.sample = {"kind": "stoch", "config": cfg, "first_sample": rows[0] if rows else None}


def _stoch_rows(mats, spd):
    rows = []
    days = [d for d, n in enumerate(spd) if n > 0]
    for d, m in zip(days, mats):
        for r in m:
            rows.append([float(r[0]) + 24 * d, float(r[1]), float(r[2])])
    return rows


def _run_gmm(case, obs):
    """A fitted Gaussian mixture: generated sessions are well-formed (no oracle for the draws themselves)."""
    import pytz
    from acnportal.acnsim.events.stochastic_events import GaussianMixtureEvents
    rng = random.Random(case["seed"])
    tz = pytz.timezone("America/Los_Angeles")
    data = []
    for i in range(200):
        c = tz.localize(datetime(2019, 5, rng.randint(1, 28), rng.randint(5, 18), rng.randint(0, 59)))
        data.append({"connectionTime": c, "disconnectTime": c + timedelta(hours=rng.uniform(0.5, 10)),
                     "kWhDelivered": rng.uniform(1, 40)})
    g = GaussianMixtureEvents(n_components=3, random_state=case["seed"])
    g.fit(data)
    for period, ml, ff in [(5, None, False), (15, 2, True), (1, 1, False)]:
        q = g.generate_events([20, 0, 15], period, 208, 6.656, max_len=ml, force_feasible=ff)
        while not q.empty():
            ev = q.get_event().ev
            obs.ev("gmm_evs_judged")
            if not (ev.departure >= ev.arrival >= 0):
                obs.violate("stoch_departure_before_arrival", f"gmm: {ev.arrival}, {ev.departure}")
            if ml is not None and ev.departure - ev.arrival > ml * 60 / period + 1:
                obs.violate("stoch_max_len", f"gmm: stay {ev.departure - ev.arrival} periods with max_len {ml} h")
            if ff and float(ev.requested_energy) > 6.656 * (ev.departure - ev.arrival + 1) * period / 60 + 1e-9:
                obs.violate("stoch_requested_energy", "gmm: force_feasible request above deliverable")
            _check_battery(obs, ev, float(ev.requested_energy), 6.656, "gmm", {})
    obs.nontrivial()
    obs.evals = max(1, obs.events["gmm_evs_judged"])


# ------------------------------------------------------------------ capacity fit
def _fit_one(obs, energy, stay, V, period, tag="", stay_type=None):
    from acnportal.acnsim.models import Linear2StageBattery
    from acnportal.acnsim.models.battery import batt_cap_fn
    fe = _fit_feasible(energy, stay, V, period)
    wit = dict(energy=energy, stay=stay, voltage=V, period=period)
    try:
        cap, init = batt_cap_fn(energy, stay if stay_type is None else stay_type(stay), V, period)
    except ValueError as e:
        if "No feasible battery size" not in str(e):
            raise
        obs.ev("fits_refused")
        if fe is not None and energy <= fe * (1 - 1e-6):
            obs.violate("fit_refused_feasible_request", f"refused although {fe!r} kWh is absorbable", **wit)
        return
    b = Linear2StageBattery(cap, init, 32 * V / 1000.0)
    got = 0.0
    for _ in range(stay):
        got += b.charge(32, V, period) * V / 1000.0 * (period / 60.0)
    obs.ev("fits_judged")
    soc = init / cap
    obs.regime("regime:fit-init-above-transition" if soc >= 0.8 else "regime:fit-init-below-transition")
    if not (0 <= init <= cap):
        obs.violate("fit_init_outside_capacity", f"cap {cap!r} init {init!r}", **wit)
    if not (abs(got - energy) <= 1e-6):
        obs.violate("fit_wrong_energy", f"cap {cap} init {init!r}: charging at 32 A for {stay} periods delivers {got!r}, requested {energy!r}",
                    cap=cap, init=init, delivered=got, **wit)
    if cap - init < energy - 1e-6:
        obs.violate("battery_cannot_hold_request", f"fit: free {cap - init!r} < {energy!r}", **wit)


def _run_fit(case, obs):
    rng = random.Random(case["seed"])
    for _ in range(case["n"]):
        V = rng.choice([120, 208, 240, 277])
        period = rng.choice([1, 5, 15, 60])
        stay = rng.choice([1, 2, 6, 12, 24, 64, 144, rng.randint(1, 300)])
        if rng.random() < 0.08:
            # magnitudes outside everyday use but inside the signature: day- and week-long periods, medium- and high-voltage supplies
            V = rng.choice([480, 1000, 11000, 1e6, 208, 240])
            period = rng.choice([1440, 10080, 5, 60])
            stay = rng.choice([1, 7, 40, 52, 288])
            obs.ev("fits_at_unusual_magnitudes")
        maxE = 32 * V / 1000.0 * stay * period / 60.0
        frac = rng.choice([0.001, 0.01, 0.05, 0.1, 0.2, 0.3, 0.5, 0.8, 0.95, 1.0, rng.random()])
        energy = min(maxE * frac, 100.0)
        if energy <= 0:
            continue
        # the stay as the caller has it: a python int, or an element of a numpy table (signed or unsigned, narrow or wide)
        st_ = rng.choice([None, None, np.int64, np.int32, np.uint16, np.uint32, np.uint64, np.int16, np.uint8 if stay < 256 else np.uint16])
        if st_ is not None:
            obs.ev("fits_with_the_stay_as_a_numpy_integer")
        _fit_one(obs, energy, stay, V, period, stay_type=st_)
    obs.evals = case["n"]
    obs.nontrivial()
    obs.sample = {"kind": "fit", "n": case["n"]}


def _run_fit_grid(obs):
    n = 0
    for V, per in [(208, 5), (240, 1), (120, 15)]:
        for dur in [1, 2, 6, 12, 24, 64, 144]:
            maxE = 32 * V / 1000.0 * dur / (60.0 / per)
            for frac in [0.01, 0.05, 0.1, 0.2, 0.3, 0.5, 0.8, 1.0]:
                _fit_one(obs, min(maxE * frac, 100.0), dur, V, per)
                n += 1
    obs.evals = n
    obs.nontrivial()
    obs.sample = {"kind": "fit_grid", "fits": n, "witness_shape": "batt_cap_fn(0.0111, 2, 208, 5)"}


def _run_case_inner(case, obs):
    k = case["kind"]
    if k == "docs":
        _run_docs(case, obs)
    elif k == "stoch":
        _run_stoch(case, obs)
    elif k == "gmm":
        _run_gmm(case, obs)
    elif k == "fit":
        _run_fit(case, obs)
    else:
        _run_fit_grid(obs)


def classify(v):
    if v["kind"] in ("fit_wrong_energy_via_converter", "fit_refused_feasible_request"):
        w = v.get("witness") or {}
        cfg = w.get("config") or {}
        if cfg.get("bp") == "fit" and "sessions_per_day" in cfg:
            return "stochastic_capacity_fn_stay_in_hours"
    return None


PROC_TZS = [None, None, "America/Los_Angeles", "Asia/Kolkata", "Pacific/Auckland", "Europe/Berlin"]


def run_case(case, obs):
    # the interpreter's own local time zone varies from case to case: nothing about aware datetimes may depend on it
    from vlib import env as _env
    import zlib
    tzn = PROC_TZS[zlib.crc32(repr(sorted(case.items())).encode()) % len(PROC_TZS)]
    _env.set_process_tz(tzn)
    obs.ev("process_time_zone:" + str(tzn))
    try:
        return _run_case_inner(case, obs)
    finally:
        _env.set_process_tz(None)
