"""C01 — every session plugged/unplugged exactly once, in order; run() terminates one period after the last event."""
import random
import re

import numpy as np

from vlib import gen, simrun

ID = "C01"
META = {
    "technique": "runtime monitoring: per-period event trace recorded by wrapping public network/scheduler methods, checked online against a trace specification (U* P* S? A X), an interval model of occupancy and a bounded-progress counter",
    "design_ref": "DESIGN.md section 6 C01",
    "level_text": "exploration: hundreds (quick) / tens of thousands (thorough) of generated simulations over all schedulers, max_recompute values, EVSE and battery types, with a regime-complete corpus (back-to-back reuse, simultaneous arrivals/departures, recompute events after the last departure, one-period sessions); exactly-once plug/unplug, event order, occupancy per period, connectivity through recorded rates and termination judged on every run; also on the contrib StochasticNetwork (more cars than spaces), on simulators built on an empty queue that is filled afterwards, with default (infinite-maximum) EVSEs, zero-energy requests and verbose runs; second simulations built from the event objects, the emptied network or the scheduler of the first; unusual identifiers and numpy integer period indices; an arrival for an unregistered space (executed events vs event history after run() raised); run() again on finished simulations; event batches in any container",
    "level_note": "termination is decided as bounded progress: a run that simulates more than last event + 1 (+3) periods is stopped by the probe and reported; wall clock only drives the watchdog; sorted schedulers are driven on continuous-from-zero and finite-rate EVSEs only (C07's quantifier)",
}
LEVEL = "exploration"
RULE = ("case = one generated scenario (network, sessions, recompute events, scheduler) run once under the probe; non-trivial = >=2 "
        "sessions and (a station reused or >=2 events in one period); distinct = distinct scenario descriptors")
ASSUMPTIONS = [
    "sessions do not overlap on a station (back-to-back reuse allowed); departure > arrival; timestamps >= 0",
    "the connectivity clause ('can receive current in exactly these periods') is decided on runs where a scripted scheduler offers every station its maximum in every period and batteries never limit",
    "sorted algorithms run on EVSE(min 0)/FiniteRatesEVSE networks",
]
ANCHORS = [
    "acnportal.acnsim.simulator:Simulator.run",
    "acnportal.acnsim.simulator:Simulator._process_event",
    "acnportal.acnsim.events.event_queue:EventQueue.get_current_events",
    "acnportal.acnsim.network.charging_network:ChargingNetwork.plugin",
    "acnportal.acnsim.network.charging_network:ChargingNetwork.unplug",
    "acnportal.acnsim.models.evse:BaseEVSE.plugin",
    "acnportal.acnsim.models.evse:BaseEVSE.unplug",
]
REQUIRED = ["runs_judged", "executed_events_compared_with_the_event_history", "run_called_again_on_finished_simulations", "second_simulations_built_from_objects_of_the_first", "second_simulation_shares:events", "second_simulation_shares:network", "plug_events", "unplug_events", "regime:back-to-back-reuse", "regime:simultaneous-events",
            "regime:recompute-after-last-departure", "regime:one-period-session", "connectivity_runs", "second_runs_on_a_reused_queue", "regime:over-128-events-due-at-once", "sched:scripted",
            "sched:uncontrolled", "sched:sorted", "snapshots_checked", "runs_where_a_waiting_ev_took_over_a_freed_space", "simulators_built_on_an_empty_queue_filled_afterwards", "runs_with_all_events_beyond_period_100000", "runs_with_user_defined_arrival_events", "runs_where_the_scheduler_adds_the_next_arrival_from_inside_the_run"]
BUDGET_S = {"quick": 240, "thorough": 3000}
TRACE_RE = re.compile(r"^U*P*S?AX$")


def _corpus():
    out = []
    ev = {"t": "EVSE", "max": 32, "min": 0}
    big = {"t": "ideal", "cap": 1e6, "init": 0, "maxp": 1e4}
    full = {"kind": "scripted", "mr": 1, "seed": 1, "t0": 0, "mode": "full"}
    # one station reused back-to-back five times
    net1 = {"stations": [{"id": "s0", "evse": ev, "voltage": 208, "phase": 0}], "constraints": [], "tol": None}
    sess = [{"id": f"x{k}", "station": "s0", "arrival": 2 * k, "departure": 2 * k + 2, "requested": 1e5, "est_dep": 2 * k + 2,
             "battery": big} for k in range(5)]
    out.append({"period": 5, "network": net1, "sessions": sess, "recompute": [], "scheduler": full, "np_seed": 1})
    # N sessions arriving and N departing in the same period on N stations, with a binding constraint
    for n in (2, 6):
        net = {"stations": [{"id": f"s{i}", "evse": ev, "voltage": 208, "phase": [30, -90, 150][i % 3]} for i in range(n)],
               "constraints": [{"name": "agg", "coeffs": {f"s{i}": 1 for i in range(n)}, "limit": 16.37 * n}], "tol": None}
        sess = [{"id": f"a{i}", "station": f"s{i}", "arrival": 1, "departure": 4, "requested": 1e5, "est_dep": 4, "battery": big}
                for i in range(n)]
        sess += [{"id": f"b{i}", "station": f"s{i}", "arrival": 4, "departure": 5, "requested": 1e5, "est_dep": 5, "battery": big}
                 for i in range(n)]
        for mr in (None, 1, 2):
            out.append({"period": 7.5, "network": net, "sessions": sess, "recompute": [9, 4],
                        "scheduler": dict(full, mr=mr) if mr == 1 else {"kind": "scripted", "mr": mr, "seed": 5, "t0": 0,
                                                                          "p_empty": 0.2, "max_len": 3, "p_st": 0.8,
                                                                          "mode": "random"}, "np_seed": 2})
        out.append({"period": 1, "network": net, "sessions": sess, "recompute": [], "scheduler": {"kind": "uncontrolled"}, "np_seed": 3})
        out.append({"period": 1, "network": net, "sessions": sess, "recompute": [7],
                    "scheduler": {"kind": "sorted", "algo": "rr", "sort": "edf", "est": None, "unint": False, "inc": 1}, "np_seed": 3})
    # mass events: 70 / 140 stations all vacated and re-occupied in the same period, plus a recompute there (hundreds of
    # pending events of mixed kinds, all due at once)
    for n in (70, 140):
        net = {"stations": [{"id": f"m{i}", "evse": ev, "voltage": 208, "phase": 0} for i in range(n)], "constraints": [], "tol": None}
        sess = [{"id": f"a{i}", "station": f"m{i}", "arrival": 0, "departure": 3, "requested": 1e5, "est_dep": 3, "battery": big} for i in range(n)]
        sess += [{"id": f"b{i}", "station": f"m{i}", "arrival": 3, "departure": 5, "requested": 1e5, "est_dep": 5, "battery": big} for i in range(n)]
        out.append({"period": 5, "network": net, "sessions": sess, "recompute": [3], "scheduler": full, "np_seed": 4})
        sess2 = [dict(x, departure=2, est_dep=2) if x["id"].startswith("b") is False else dict(x, arrival=2, departure=4, est_dep=4) for x in sess]
        out.append({"period": 1, "network": net, "sessions": sess2, "recompute": [2, 4], "scheduler": {"kind": "uncontrolled"}, "np_seed": 4})
    cases_ = [{"desc": d, "corpus": True} for d in out]
    # far from the time origin: every event beyond period 100000 (70 days of 1-minute periods), back-to-back reuse there
    for off in (100000, 131071):
        sess = [{"id": f"f{k}", "station": f"s{k % 2}", "arrival": off + 2 * (k // 2) * 2 + (k % 2), "departure": off + 2 * (k // 2) * 2 + (k % 2) + 2,
                 "requested": 1e5, "est_dep": off + 2 * (k // 2) * 2 + (k % 2) + 2, "battery": big} for k in range(6)]
        net2 = {"stations": [{"id": "s0", "evse": ev, "voltage": 208, "phase": 0}, {"id": "s1", "evse": ev, "voltage": 240, "phase": 0}],
                "constraints": [], "tol": None}
        cases_.append({"desc": {"period": 1, "network": net2, "sessions": sess, "recompute": [off + 1], "scheduler": dict(full, t0=off, mr=None, full_len=6), "np_seed": 1},
                       "corpus": True, "far": True})
    # reentrancy: a line of cars for one space; only the first arrival is queued, the scheduler announces the next arrival through the
    # public EventQueue.add_event at the moment the space frees up (the queue is otherwise empty then)
    for n_ in (3, 6):
        sess = [{"id": f"l{k}", "station": "s0", "arrival": 3 * k, "departure": 3 * k + 2, "requested": 1e5, "est_dep": 3 * k + 2, "battery": big}
                for k in range(n_)]
        cases_.append({"desc": {"period": 5, "network": net1, "sessions": sess, "recompute": [], "scheduler": dict(full, mr=None, full_len=4),
                                "np_seed": 1, "hold_back": [f"l{k}" for k in range(1, n_)]}, "corpus": True, "reentrant": True})
    return cases_


def cases(seed, tier):
    rng = random.Random(f"C01:{seed}")
    n = 1200 if tier == "quick" else 30000
    out = _corpus()
    for i in range(n):
        r = rng.random()
        if r < 0.25:
            d = gen.scenario(rng, sched="scripted", big=True, kinds=("EVSE", "DB", "FR"), mode="full", mr=1)
            d["connectivity"] = True
        elif r < 0.6:
            d = gen.scenario(rng, sched="scripted", noise_p=0.2)
        elif r < 0.75:
            d = gen.scenario(rng, sched="uncontrolled", noise_p=0.2)
        else:
            d = gen.scenario(rng, sched="sorted", kinds=("EVSE", "FR"), noise_p=0.2, constraint_free_p=0.15)
        if rng.random() < 0.06:
            d["arrival_event"] = "user"
        c_ = {"desc": d, "reuse_queue": rng.random() < 0.12, "late_fill": rng.random() < 0.1}
        if rng.random() < 0.15 and not c_["reuse_queue"]:
            # what a second simulator of the same process is built from: objects that already served the first one
            c_["second_life"] = sorted(set(rng.choice([["events"], ["events"], ["network"], ["scheduler"], ["events", "network"],
                                                        ["events", "network", "scheduler"]])))
            c_["reset_evs"] = rng.random() < 0.5
        if rng.random() < 0.06 and not c_.get("second_life") and not c_["reuse_queue"] and not c_["late_fill"]:
            # one arrival is for a space the network does not have (a typo in the data): run() raises the network's KeyError in that
            # period; the caller catches it and calls run() again
            c_["ghost_at"] = rng.choice([s_["arrival"] for s_ in d["sessions"]] + [s_["departure"] for s_ in d["sessions"]])
        out.append(c_)
    # networks that assign spaces at run time (contrib StochasticNetwork): sessions name no space of their own, more cars than
    # spaces, so late arrivals wait and take over a freed space (their station changes after their plug-in event)
    for i in range(n // 8):
        d = gen.scenario(rng, sched=rng.choice(["scripted", "uncontrolled"]), kinds=("EVSE", "FR"), nmax=3, sess_max=2, noise_p=0.0)
        ids = [s_["id"] for s_ in d["network"]["stations"]]
        sess = []
        for k in range(rng.randint(len(ids) + 1, len(ids) + 6)):
            a = rng.randint(0, 8)
            req = rng.choice([0.3, 3, 25])
            sess.append({"id": f"q{k}", "station": rng.choice(ids), "arrival": a, "departure": a + rng.randint(1, 8), "requested": req,
                         "est_dep": a + 3, "battery": gen.rand_battery(rng, req)})
        d["sessions"] = sess
        d["recompute"] = []
        out.append({"desc": d, "stochastic": True, "rseed": rng.randrange(1 << 30)})
    return out


def run_case(case, obs):
    d = case["desc"]
    if case.get("stochastic"):
        from acnportal.contrib.acnsim.network import StochasticNetwork
        random.seed(case["rseed"])
        sim, evs, probe = simrun.run_traced(d, net_cls=StochasticNetwork)
        obs.ev("runs_on_a_network_assigning_spaces_at_run_time")
        if getattr(sim.network, "swaps", 0):
            obs.ev("runs_where_a_waiting_ev_took_over_a_freed_space")
        _judge(case, obs, d, sim, evs, probe)
        return
    if case.get("reentrant"):
        from acnportal.acnsim.events import PluginEvent
        from vlib import build as _b
        sch_ = _b.build_scheduler(d)
        box_ = {}

        def announce(self_, t, active):
            sim_ = box_["sim"]
            for e_ in box_["evs"]:
                if e_.session_id in d["hold_back"] and e_.arrival == t + 1 and e_.session_id not in box_.setdefault("done", set()):
                    box_["done"].add(e_.session_id)
                    sim_.event_queue.add_event(PluginEvent(e_.arrival, e_))

        sch_.hook = announce
        sim, evs = _b.build_sim(d, scheduler=sch_)
        box_["sim"], box_["evs"] = sim, evs
        from vlib.monitors import SimProbe
        probe = SimProbe(sim)
        probe.step_limit = simrun.last_event_ts(d) + 4
        probe.attach()
        probe.run()
        probe.detach()
        obs.ev("runs_where_the_scheduler_adds_the_next_arrival_from_inside_the_run")
        _judge(case, obs, d, sim, evs, probe)
        return
    if case.get("ghost_at") is not None:
        return _run_ghost(case, obs, d)
    sim, evs, probe = simrun.run_traced(d, late_fill=bool(case.get("late_fill")), snapshots=not case.get("far"))
    if case.get("far"):
        obs.ev("runs_with_all_events_beyond_period_100000")
    if case.get("late_fill"):
        obs.ev("simulators_built_on_an_empty_queue_filled_afterwards")
    _judge(case, obs, d, sim, evs, probe)
    if probe.exception is None and int(obs.case_hash[:4], 16) % 5 == 0:
        # run() once more on the finished simulation (a notebook cell executed twice): it returns, and nothing is simulated again
        before = (sim.iteration, len(sim.event_history), sorted(sim.ev_history), float(np.asarray(sim.charging_rates).sum()))
        n_tr = len(probe.trace)
        probe.attach()
        exc2 = probe.run()
        probe.detach()
        after = (sim.iteration, len(sim.event_history), sorted(sim.ev_history), float(np.asarray(sim.charging_rates).sum()))
        obs.ev("run_called_again_on_finished_simulations")
        if exc2 is not None or before != after or len(probe.trace) != n_tr:
            obs.violate("second_run_call_on_a_finished_simulation_did_something", f"exception {exc2!r}; (iteration, events, sessions, sum of rates) "
                        f"{before} -> {after}; {len(probe.trace) - n_tr} more plug-in / unplug / scheduler / period steps traced", scenario=d)
    if case.get("second_life") and probe.exception is None and not d.get("hold_back"):
        # a second simulation in the same process, built from objects that already served the first: the very event objects (and
        # with them the EV objects, after their public reset() or as they are), the emptied network object, the scheduler object.
        # It is a simulation like any other: plug-in / unplug exactly once, order, occupancy, termination
        share = case["second_life"]
        kw = {}
        if "events" in share:
            kw["event_objs"] = [e_ for e_ in sim.event_history if getattr(e_, "event_type", None) in ("Plugin", "Recompute")]
            if case.get("reset_evs"):
                for e_ in kw["event_objs"]:
                    if hasattr(e_, "ev"):
                        e_.ev.reset()
        if "network" in share:
            kw["network"] = sim.network
        sim2, evs2, probe2 = simrun.run_traced(d, scheduler=sim.scheduler if "scheduler" in share else None, **kw)
        obs.ev("second_simulations_built_from_objects_of_the_first")
        for x_ in share:
            obs.ev("second_simulation_shares:" + x_)
        keep = obs.sample
        _judge(dict(case, second=True), obs, dict(d, connectivity=False), sim2, evs2, probe2)
        obs.sample = keep
    if case.get("reuse_queue") and probe.exception is None and sim.event_queue.empty():
        # the drained EventQueue object is refilled and handed to a second, fresh simulator (starts at period 0 again)
        sim2, evs2, probe2 = simrun.run_traced(d, queue=sim.event_queue, late_fill=bool(case.get("late_fill")))
        obs.ev("second_runs_on_a_reused_queue")
        keep = obs.sample
        _judge(dict(case, second=True), obs, d, sim2, evs2, probe2)
        obs.sample = keep


def _run_ghost(case, obs, d):
    """An arrival for an unregistered space makes run() raise in that period (the failure is the user's data, not the library's).
    Whatever was executed before the failure - and whatever is executed when the caller calls run() again - must be in the event
    history: every plug-in and unplug the network carried out is recorded as an event, in time order."""
    from acnportal.acnsim.events import PluginEvent
    from acnportal.acnsim.models import EV, Battery
    from vlib.monitors import SimProbe
    from vlib import build
    sim, evs = build.build_sim(d)
    t_g = case["ghost_at"]
    sim.event_queue.add_event(PluginEvent(t_g, EV(t_g, t_g + 3, 5.0, "no-such-space", "ghost", Battery(50, 0, 7))))
    probe = SimProbe(sim, snapshots=False)
    probe.step_limit = simrun.last_event_ts(d) + 8
    probe.attach()
    raised = []
    for attempt in range(4):
        exc = probe.run()
        if exc is None:
            break
        raised.append(type(exc).__name__)
        if not isinstance(exc, KeyError):
            break
    probe.detach()
    obs.ev("runs_with_an_arrival_for_an_unregistered_space")
    if not raised:
        obs.ev("ghost_arrival_not_refused_not_judged")
        return
    if raised[-1] != "KeyError" and len(raised) and not all(r_ == "KeyError" for r_ in raised):
        obs.ev("ghost_runs_ended_by_another_exception_not_judged")
    executed = [(t, {"P": "Plugin", "U": "Unplug"}[l_], info) for t, l_, info in probe.trace if l_ in "PU" and info != "ghost"]
    recorded = [(e_.timestamp, getattr(e_, "event_type", None), getattr(getattr(e_, "ev", None), "session_id", None)) for e_ in sim.event_history]
    missing = [x_ for x_ in executed if (x_[0], x_[1], x_[2]) not in [(int(a_), b_, c_) for a_, b_, c_ in recorded]]
    obs.ev("executed_events_compared_with_the_event_history", len(executed))
    wit = dict(scenario=d, ghost_arrival_at=t_g, run_raised=raised)
    if missing:
        obs.violate("executed_event_missing_from_event_history", f"the network carried out {missing[:4]} (period, kind, session), the event history has "
                    f"no such event; run() raised {raised} (an arrival for an unregistered space in period {t_g})", **wit)
    ts_ = [r_[0] for r_ in recorded]
    if ts_ != sorted(ts_):
        obs.violate("event_history_order", f"event history not in time order after run() raised {raised}: {ts_}", **wit)
    if len(d["sessions"]) >= 2:
        obs.nontrivial()
    obs.sample = {"kind": "ghost_arrival", "at": t_g, "run_raised": raised, "executed": len(executed), "recorded": len(recorded)}


def _judge(case, obs, d, sim, evs, probe):
    obs.ev("runs_judged")
    if d.get("arrival_event") == "user":
        obs.ev("runs_with_user_defined_arrival_events")
    obs.ev("sched:" + d["scheduler"]["kind"])
    model = simrun.occupant_model(d)
    sess = {s["id"]: s for s in d["sessions"]}
    last = simrun.last_event_ts(d)
    wit = dict(scenario=d, second_run_on_reused_queue=bool(case.get("second")))
    exc = probe.exception
    if exc is not None:
        from vlib.monitors import StepLimitExceeded
        if isinstance(exc, StepLimitExceeded):
            obs.violate("no_termination_within_bound", f"{exc}; last event at {last}", **wit)
        else:
            obs.violate("run_raised", f"{type(exc).__name__}: {exc}", exc_type=type(exc).__name__, iteration=sim.iteration, **wit)
        return
    # --- end state
    if not sim.event_queue.empty():
        obs.violate("queue_not_empty_after_run", f"{len(sim.event_queue)} events pending", **wit)
    occ_end = {st: getattr(sim.network.get_ev(st), "session_id", None) for st in sim.network.station_ids}
    if any(v is not None for v in occ_end.values()):
        obs.violate("station_not_vacated", f"occupied after run: {occ_end}", **wit)
    if sim.iteration != last + 1:
        obs.violate("end_iteration", f"iteration {sim.iteration} after run, last event at {last} (expected {last + 1})", **wit)
    # --- exactly-once plug / unplug, in the right period
    plugs, unplugs = {}, {}
    for t, letter, info in probe.trace:
        if letter == "P":
            plugs.setdefault(info, []).append(t)
            obs.ev("plug_events")
        elif letter == "U":
            unplugs.setdefault(info, []).append(t)
            obs.ev("unplug_events")
    for sid, s in sess.items():
        if plugs.get(sid, []) != [s["arrival"]]:
            obs.violate("plug_count_or_period", f"session {sid}: plugged in periods {plugs.get(sid, [])}, arrival {s['arrival']}", **wit)
        if unplugs.get(sid, []) != [s["departure"]]:
            obs.violate("unplug_count_or_period", f"session {sid}: unplugged in periods {unplugs.get(sid, [])}, departure {s['departure']}", **wit)
    extra = (set(plugs) | set(unplugs)) - set(sess)
    if extra:
        obs.violate("unknown_session_event", f"plug/unplug for unknown sessions {sorted(map(str, extra))}", **wit)
    # --- event history: non-decreasing time, within a period U < P < R; complete
    from acnportal.acnsim.events import UnplugEvent, PluginEvent, RecomputeEvent
    rank = lambda e: {"Unplug": 0, "Plugin": 1, "Recompute": 2}.get(getattr(e, "event_type", None), 3)  # by documented type tag (user event classes too)
    hist = [(e.timestamp, rank(e)) for e in sim.event_history]
    if hist != sorted(hist):
        obs.violate("event_history_order", f"event_history (timestamp, class rank) = {hist}", **wit)
    exp_hist = sorted([(s["arrival"], 1) for s in sess.values()] + [(s["departure"], 0) for s in sess.values()] +
                      [(t, 2) for t in d.get("recompute", [])])
    if sorted(hist) != exp_hist:
        obs.violate("event_history_content", f"event_history {sorted(hist)} expected {exp_hist}", **wit)
    if set(sim.ev_history) != set(sess):
        obs.violate("ev_history_content", f"ev_history keys {sorted(sim.ev_history)} expected {sorted(sess)}", **wit)
    # --- per-period trace specification
    ps = probe.period_strings()
    for t in range(sim.iteration):
        s_ = ps.get(t, "")
        if not TRACE_RE.match(s_):
            obs.violate("period_trace", f"period {t}: trace {s_!r} does not match U* P* S? A X", **wit)
            break
    if sorted(ps) != list(range(sim.iteration)):
        obs.violate("period_trace", f"periods traced {sorted(ps)[:5]}..{sorted(ps)[-3:]} vs iteration {sim.iteration}", **wit)
    if case.get("stochastic"):
        # spaces are assigned at run time: the interval model per station does not apply; C19 judges placement
        if len(sess) >= 2:
            obs.nontrivial()
        obs.sample = {"stations": len(d["network"]["stations"]), "sessions": len(sess), "scheduler": d["scheduler"]["kind"],
                      "stochastic": True, "periods": sim.iteration, "swaps": getattr(sim.network, "swaps", None)}
        return
    # --- occupancy per period against the interval model
    for snap in probe.snaps:
        t = snap["t"]
        for st, who in snap["occ"].items():
            exp = simrun.occupant_at(model, st, t)
            obs.ev("snapshots_checked")
            if who != exp:
                obs.violate("occupant_mismatch", f"period {t} station {st}: connected {who!r}, interval model says {exp!r}", **wit)
                break
        else:
            continue
        break
    # --- connectivity through recorded rates (full-offer runs with non-limiting batteries)
    if d.get("connectivity") or (case.get("corpus") and d["scheduler"].get("mode") == "full"):
        obs.ev("connectivity_runs")
        T = sim.iteration
        ids = sim.network.station_ids
        for i, st in enumerate(ids):
            row = sim.charging_rates[i, :T]
            exp = np.array([simrun.occupant_at(model, st, t) is not None for t in range(T)])
            if not np.array_equal(row > 0, exp):
                bad = [int(t) for t in np.nonzero((row > 0) != exp)[0][:6]]
                obs.violate("connectivity_periods", f"station {st}: current received in a period it should not / not received, periods {bad}", **wit)
                break
    # --- regimes
    by_st = {}
    for s in sess.values():
        by_st.setdefault(s["station"], []).append(s)
    reuse = any(any(a["departure"] == b["arrival"] for a in v for b in v if a is not b) for v in by_st.values())
    times = [s["arrival"] for s in sess.values()] + [s["departure"] for s in sess.values()] + list(d.get("recompute", []))
    simult = len(times) != len(set(times))
    from collections import Counter as _C
    if max(_C(times).values()) >= 128:
        obs.regime("regime:over-128-events-due-at-once")
    if reuse:
        obs.regime("regime:back-to-back-reuse")
    if simult:
        obs.regime("regime:simultaneous-events")
    if d.get("recompute") and max(d["recompute"]) > max(s["departure"] for s in sess.values()):
        obs.regime("regime:recompute-after-last-departure")
    if any(s["departure"] == s["arrival"] + 1 for s in sess.values()):
        obs.regime("regime:one-period-session")
    if len(sess) >= 2 and (any(len(v) > 1 for v in by_st.values()) or simult):
        obs.nontrivial()
    obs.sample = {"stations": len(d["network"]["stations"]), "sessions": len(sess), "scheduler": d["scheduler"]["kind"],
                  "mr": d["scheduler"].get("mr"), "periods": sim.iteration,
                  "trace_head": [ps.get(t) for t in range(min(8, sim.iteration))]}


def classify(v):
    return None
