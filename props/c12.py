"""C12 — constraint matrix, limits and names stay aligned under add/remove/update (model-based)."""
import cmath
import math
import random
import warnings

import numpy as np

ID = "C12"
META = {
    "technique": "runtime monitoring: history of register/add/remove/update calls replayed against an executable dict-of-dicts model; network tables compared after every operation",
    "design_ref": "DESIGN.md section 6 C12",
    "level_text": "exploration: thousands of random operation sequences with Currents built by random expression trees (sum, difference, scalar multiple on either side, all constructor forms); after every operation constraints_as_df(), constraint_matrix, magnitudes and constraint_index are compared with the model, then subset/period queries of constraint_current against the model product; the frame returned by constraints_as_df() is edited by the client; constraint_current over up to 20000 periods; every Current also handed, as the same object, to a second network with other stations; unusual and absent constraint names",
    "level_note": "names are explicit and unique except one deliberate duplicate per some sequences (judged only on row count and contents, not on the generated name); coefficients compared with atol 1e-12",
}
LEVEL = "exploration"
RULE = ("case = one seeded operation sequence (2-12 ops) on a network of 1-8 stations registered in shuffled order; every "
        "operation is one evaluation; non-trivial = sequence with >=3 ops including a remove or update and at least one "
        "Current built from >=2 operands over different station subsets; distinct = distinct sequence seeds")
ASSUMPTIONS = [
    "scalars from {2,0.25,-1,3,0.5}; leaf coefficients from {1,-1,0.5,2,0.25}; limits uniform in [5,100]",
    "constraint names explicit and unique (one deliberate duplicate in ~10% of sequences)",
    "time_indices passed as a sorted list of distinct indices",
]
ANCHORS = [
    "acnportal.acnsim.network.charging_network:ChargingNetwork.add_constraint",
    "acnportal.acnsim.network.charging_network:ChargingNetwork.remove_constraint",
    "acnportal.acnsim.network.charging_network:ChargingNetwork.update_constraint",
    "acnportal.acnsim.network.charging_network:ChargingNetwork.register_evse",
    "acnportal.acnsim.network.charging_network:ChargingNetwork.constraint_current",
    "acnportal.acnsim.network.current:Current.__add__",
    "acnportal.acnsim.network.current:Current.__sub__",
    "acnportal.acnsim.network.current:Current.__mul__",
]
REQUIRED = ["second_networks_judged", "op:refused_update_with_unknown_station", "subset_names_given_as:set", "subset_names_given_as:keys", "currents_shared_with_a_second_network:second", "op:add_with_an_unusual_name", "op:add_without_a_name", "op:update_with_a_current_derived_from_the_registered_object", "tree:same_station_set_in_different_orders", "subset_queries_with_unsorted_or_repeated_periods", "op:accumulate_then_scale_in_place", "queries_over_thousands_of_periods", "op:add", "op:remove", "op:update", "op:update_rename", "op:register_refused", "op:register_refused_existing_id", "op:refused_add_unknown_station", "op:refused_remove_unknown_name", "op:refused_update_unknown_name", "subset_queries",
            "tree:+", "tree:-", "tree:*left", "tree:*right", "tree:scalar_multiple_as_operand", "leaf:dict",
            "leaf:list", "leaf:str", "leaf:series", "leaf:tiny_coefficient"]
BUDGET_S = {"quick": 200, "thorough": 2400}


def cases(seed, tier):
    rng = random.Random(f"C12:{seed}")
    n = 5000 if tier == "quick" else 120000
    return [{"seed": rng.randrange(1 << 40), "n": rng.randint(1, 8), "ops": rng.randint(2, 12)} for _ in range(n)]


def _tree(rng, ids, depth, obs, stats):
    from acnportal.acnsim.network import Current
    import pandas as pd
    if depth == 0 or rng.random() < 0.3:
        sub = rng.sample(ids, rng.randint(1, len(ids)))
        form = rng.choice(["dict", "list", "str", "series"])
        obs.ev("leaf:" + form)
        stats["subsets"].add(tuple(sorted(sub)))
        if form == "str":
            return Current(sub[0]), {sub[0]: 1.0}
        if form == "list":
            return Current(sub), {s: 1.0 for s in sub}
        d = {s: rng.choice([1, -1, 0.5, 2, 0.25]) for s in sub}
        if rng.random() < 0.12:
            # a genuine but tiny coupling coefficient (far below any 'residue' threshold, far above the comparison's 1e-12... no: compared exactly)
            tiny = rng.choice(sub)
            d[tiny] = rng.choice([5e-10, -3e-11, 7e-13, 2.5e-7])
            obs.ev("leaf:tiny_coefficient")
        return (Current(d) if form == "dict" else Current(pd.Series(d))), {k: float(v) for k, v in d.items()}
    op = rng.choice(["+", "-", "*"])
    if op != "*" and rng.random() < 0.15 and len(ids) >= 2:
        # both operands name exactly the same stations, listed in different orders, with different coefficients
        sub = rng.sample(ids, rng.randint(2, len(ids)))
        ma = {s_: rng.choice([1, -1, 0.5, 2, 0.25, 3]) for s_ in sub}
        mb = {s_: rng.choice([1, -1, 0.5, 2, 0.25, 7]) for s_ in reversed(sub)}
        a, b = Current(dict(ma)), Current(pd.Series(mb) if rng.random() < 0.5 else dict(mb))
        obs.ev("tree:same_station_set_in_different_orders")
        stats["binary"] += 1
        if op == "+":
            return a + b, {s_: ma[s_] + mb[s_] for s_ in sub}
        return a - b, {s_: ma[s_] - mb[s_] for s_ in sub}
    if op == "*":
        c, m = _tree(rng, ids, depth - 1, obs, stats)
        k = rng.choice([2, 0.25, -1, 3, 0.5])
        if rng.random() < 0.5:
            r = k * c
            obs.ev("tree:*left")
        else:
            r = c * k
            obs.ev("tree:*right")
        stats["last_scalar"] = True
        return r, {s: k * v for s, v in m.items()}
    stats["last_scalar"] = False
    a, ma = _tree(rng, ids, depth - 1, obs, stats)
    sa = stats["last_scalar"]
    stats["last_scalar"] = False
    b, mb = _tree(rng, ids, depth - 1, obs, stats)
    sb = stats["last_scalar"]
    if sa or sb:
        obs.ev("tree:scalar_multiple_as_operand")
    stats["binary"] += 1
    stats["last_scalar"] = False
    keys = set(ma) | set(mb)
    obs.ev("tree:" + op)
    if op == "+":
        return a + b, {s: ma.get(s, 0) + mb.get(s, 0) for s in keys}
    return a - b, {s: ma.get(s, 0) - mb.get(s, 0) for s in keys}


def run_case(case, obs):
    from acnportal.acnsim.network import ChargingNetwork, Current
    from acnportal.acnsim.network.charging_network import EVSERegistrationError
    from acnportal.acnsim.models import EVSE
    rng = random.Random(case["seed"])
    n = case["n"]
    ids = [f"s{i}" for i in range(n)]
    rng.shuffle(ids)
    angles = {s: rng.choice([0, 30, -90, 150, 17.5]) for s in ids}
    net = ChargingNetwork()
    for s in ids:
        net.register_evse(EVSE(s, max_rate=32), 208, angles[s])
    # a second network of the same process (another site: some of the stations, in another order, plus one of its own); every
    # Current that names only stations it has is handed to BOTH networks as the very same object, in either order
    ids2 = rng.sample(ids, rng.randint(1, len(ids)))
    if rng.random() < 0.5:
        ids2.insert(rng.randint(0, len(ids2)), "only-here")
    net2 = ChargingNetwork()
    for s in ids2:
        net2.register_evse(EVSE(s, max_rate=32), 240, 0)
    model2 = {}

    def share(c_, m_, lim_, nm_, first):
        """hand the same Current object to the second network too (before or after the first network got it)"""
        if not set(m_) <= set(ids2):
            return
        net2.add_constraint(c_, lim_, nm_)
        model2[nm_] = (m_, lim_)
        obs.ev("currents_shared_with_a_second_network:" + ("first" if first else "second"))

    def check2():
        names2 = list(net2.constraint_index)
        if sorted(names2) != sorted(model2):
            obs.violate("constraint_names", f"second network sharing the Current objects: index {names2} expected {sorted(model2)}", stations=ids2)
            return
        if not names2:
            return
        cm_ = np.array(net2.constraint_matrix, dtype=float)
        mg_ = np.asarray(net2.magnitudes, dtype=float)
        for i_, nm_ in enumerate(names2):
            co_, lim_ = model2[nm_]
            exp_ = [co_.get(s_, 0.0) for s_ in net2.station_ids]
            if cm_.shape != (len(names2), len(ids2)) or not np.allclose(cm_[i_], exp_, rtol=1e-12, atol=1e-15) or mg_[i_] != lim_:
                obs.violate("matrix_row", f"second network sharing the Current objects: row {nm_} = {cm_[i_].tolist() if cm_.ndim == 2 else cm_} limit "
                            f"{mg_[i_]!r}, expected {exp_} limit {lim_!r}", name=nm_, stations=ids2)
                return
        obs.ev("second_networks_judged")

    model = {}   # name -> (coeffs, limit)
    order = []   # names in the order the network should list them
    log = []
    cnt = 0
    stats = {"subsets": set(), "binary": 0, "last_scalar": False}
    objs = {}   # name -> (the Current object handed to add_constraint, its coefficients)
    had_rm_upd = False

    def check(tag):
        names = list(net.constraint_index)
        wit = dict(ops=log[-12:], stations=ids)
        if names != order:
            if sorted(names) != sorted(order) or len(set(names)) != len(names):
                obs.violate("constraint_names", f"after {tag}: index {names} expected {order}", **wit)
                return False
            # the same constraints listed in another order (where an updated row goes is not promised): rows, limits and queries
            # are judged by NAME below, so the model simply follows the network's listing
            obs.ev("constraint_listing_order_differs_from_insertion_order")
            order[:] = names
        mags = np.asarray(net.magnitudes, dtype=float)
        if len(mags) != len(names):
            obs.violate("limits_length", f"after {tag}: {len(mags)} limits for {len(names)} names", **wit)
            return False
        if not names:
            return True
        cm = np.array(net.constraint_matrix, dtype=float)  # a copy
        if cm.shape != (len(names), len(net.station_ids)):
            obs.violate("matrix_shape", f"after {tag}: {cm.shape}", **wit)
            return False
        if list(net.station_ids) != ids:
            obs.violate("station_order", f"after {tag}: {net.station_ids} vs registration {ids}", **wit)
            return False
        with warnings.catch_warnings():
            warnings.simplefilter("ignore")
            df = net.constraints_as_df()
        for i, nm in enumerate(names):
            co, lim = model[nm]
            exp = [co.get(s, 0.0) for s in net.station_ids]
            row = cm[i]
            if np.isnan(row).any() or not np.allclose(row, exp, rtol=1e-12, atol=1e-15):
                obs.violate("matrix_row", f"after {tag}: row {nm} = {row.tolist()} expected {exp}", name=nm, **wit)
                return False
            if not (mags[i] == lim):
                obs.violate("limit_misaligned", f"after {tag}: limit of {nm} = {mags[i]!r} expected {lim!r}", **wit)
                return False
            try:
                dfrow = [float(df.loc[nm, s]) for s in net.station_ids]
            except Exception as e:
                obs.violate("constraints_as_df", f"after {tag}: {type(e).__name__}: {e}", **wit)
                return False
            if not np.allclose(dfrow, exp, rtol=1e-12, atol=1e-15):
                obs.violate("constraints_as_df", f"after {tag}: df row {nm} = {dfrow} expected {exp}", **wit)
                return False
        # a client edits the frame it was handed (a what-if study): the network's own rows must not follow
        try:
            df.iloc[:, :] = 7.25
            df.loc[names[0]] = 0.0
            obs.ev("returned_frames_edited_by_the_client")
        except Exception:
            obs.ev("returned_frames_read_only")
        cm2 = np.asarray(net.constraint_matrix, dtype=float)
        if cm2.shape != cm.shape or not np.array_equal(cm2, cm):
            obs.violate("accessor_result_aliases_network_state", f"after {tag}: editing the DataFrame returned by constraints_as_df() changed "
                        f"the network's constraint matrix", **wit)
            return False
        return True

    nops = 0
    for step in range(case["ops"]):
        op = rng.choice(["add", "add", "remove", "update", "register", "dup", "refused", "acc"])
        if op in ("remove", "update", "dup") and not model:
            op = "add"
        if op == "refused":
            # an operation the network must refuse (unknown station / unknown name): it raises and changes nothing,
            # which the model comparison below and every later operation then confirm
            from acnportal.acnsim.network import Current as _Cur
            kind = rng.choice(["add_unknown_station", "remove_unknown_name", "update_unknown_name", "update_with_unknown_station"])
            if kind == "update_with_unknown_station" and not order:
                kind = "update_unknown_name"
            if kind == "update_with_unknown_station":
                # an EXISTING constraint is updated with a Current that names a station the network does not have (a typo): the
                # call raises. Whether the old constraint survives (restored) or is gone (removed before the new one was refused)
                # is the library's choice; either way rows, limits and names of what remains stay aligned
                nm_ = rng.choice(order)
                log.append(["refused:update_with_unknown_station", nm_])
                known = rng.sample(ids, rng.randint(0, min(2, len(ids))))
                try:
                    net.update_constraint(nm_, _Cur({**{k_: 1 for k_ in known}, "ghost-station": 1}), round(rng.uniform(5, 999), 3),
                                          new_name=rng.choice([None, f"k{cnt}r"]))
                    obs.violate("invalid_operation_accepted", "update_constraint with an unregistered station did not raise", ops=log[-6:])
                    return
                except Exception:
                    obs.ev("op:refused_update_with_unknown_station")
                if nm_ not in net.constraint_index:
                    del model[nm_]
                    order.remove(nm_)
                    objs.pop(nm_, None)
                    obs.ev("op:refused_update_dropped_the_old_constraint")
                cnt += 1
                if not check(log[-1][0]):
                    return
                continue
            log.append(["refused:" + kind])
            try:
                if kind == "add_unknown_station":
                    known = rng.sample(ids, rng.randint(0, min(2, len(ids))))
                    net.add_constraint(_Cur({**{k_: 1 for k_ in known}, "ghost-station": 1}), round(rng.uniform(5, 999), 3), f"bad{cnt}")
                elif kind == "remove_unknown_name":
                    net.remove_constraint(f"nope{cnt}")
                else:
                    net.update_constraint(f"nope{cnt}", _Cur({ids[0]: 1}), 12.5)
                obs.violate("invalid_operation_accepted", f"{kind} did not raise", ops=log[-6:])
                return
            except Exception as e_:
                obs.ev("op:refused_" + kind)  # refused; the error class is the library's choice
                if not isinstance(e_, KeyError):
                    obs.ev("op:refused_with_other_error:" + type(e_).__name__)
            cnt += 1
            if not check(log[-1][0]):
                return
            continue
        if op == "dup" and rng.random() > 0.1:
            op = "add"
        nops += 1
        if op == "add":
            c, m = _tree(rng, ids, rng.randint(0, 3), obs, stats)
            if c is None or not hasattr(c, "index"):
                obs.violate("current_algebra_returned_non_current", f"expression evaluated to {type(c).__name__}", ops=log[-6:])
                return
            nm = f"k{cnt}"
            if rng.random() < 0.1:
                # names that are legal strings but unusual: empty, blank, numeric-looking, spelled like the library's own
                # automatic names or like its suffix for repeated names
                alt = rng.choice(["", " ", "0", "_const_0", f"_const_{len(order)}", f"k{max(cnt - 1, 0)}_v2", "\u00e9", "None", "k 1"])
                if alt not in model:
                    nm = alt
                    obs.ev("op:add_with_an_unusual_name")
            cnt += 1
            lim = round(rng.uniform(5, 100), 4)
            log.append(["add", nm, m, lim])
            first2 = rng.random() < 0.5
            noname = rng.random() < 0.05
            if first2 and not noname and nm not in model2:
                share(c, m, lim, nm, True)
            if noname:
                # no name given: the library picks one; read back, it must be a new one
                net.add_constraint(c, lim)
                new = [x for x in net.constraint_index if x not in model]
                if len(new) != 1:
                    obs.violate("constraint_names", f"add_constraint without a name: index {list(net.constraint_index)}, known {sorted(model)}", ops=log[-6:])
                    return
                obs.ev("op:add_without_a_name")
                nm = new[0]
                log[-1][1] = nm
            else:
                net.add_constraint(c, lim, nm)
            if not first2 and not noname and nm not in model2:
                share(c, m, lim, nm, False)
            model[nm] = (m, lim)
            objs[nm] = (c, m)
            order.append(nm)
            obs.ev("op:add")
        elif op == "acc":
            # the accumulator pattern: total = Current(); total = total + part ...; the total is then rescaled IN PLACE (*=), and
            # the parts are used again afterwards as constraints of their own - they must still be what they were built as
            parts = [_tree(rng, ids, rng.randint(0, 1), obs, stats) for _ in range(rng.randint(1, 3))]
            total = Current() if rng.random() < 0.5 else Current([])
            mt = {}
            for pc, pm in parts:
                total = (total + pc) if rng.random() < 0.6 else (pc + total)
                mt = {s_: mt.get(s_, 0) + pm.get(s_, 0) for s_ in set(mt) | set(pm)}
            if total is None or not hasattr(total, "index"):
                obs.violate("current_algebra_returned_non_current", f"accumulated sum evaluated to {type(total).__name__}", ops=log[-6:])
                return
            k_ = rng.choice([0.5, 2, -1, 0.25])
            total *= k_
            mt = {s_: k_ * v_ for s_, v_ in mt.items()}
            obs.ev("op:accumulate_then_scale_in_place")
            for c_, m_, tag_ in [(total, mt, "total")] + [(pc, pm, "part") for pc, pm in parts[:2]]:
                nm = f"k{cnt}"
                cnt += 1
                lim = round(rng.uniform(5, 100), 4)
                log.append(["add-" + tag_, nm, m_, lim])
                net.add_constraint(c_, lim, nm)
                model[nm] = (m_, lim)
                order.append(nm)
        elif op == "dup":
            nm = rng.choice(order)
            c, m = _tree(rng, ids, 1, obs, stats)
            if c is None:
                obs.violate("current_algebra_returned_non_current", "expression evaluated to None", ops=log[-6:])
                return
            lim = round(rng.uniform(5, 100), 4)
            log.append(["add-duplicate-name", nm, m, lim])
            with warnings.catch_warnings():
                warnings.simplefilter("ignore")
                net.add_constraint(c, lim, nm)
            new = [x for x in net.constraint_index if x not in model]
            if len(new) != 1 or len(net.constraint_index) != len(order) + 1:
                obs.violate("duplicate_name_add", f"index after adding duplicate name: {net.constraint_index}", ops=log[-6:])
                return
            model[new[0]] = (m, lim)
            order.append(new[0])
            obs.ev("op:add_duplicate_name")
        elif op == "remove":
            nm = rng.choice(order)
            log.append(["remove", nm])
            net.remove_constraint(nm)
            del model[nm]
            order.remove(nm)
            had_rm_upd = True
            obs.ev("op:remove")
        elif op == "update":
            nm = rng.choice(order)
            c, m = _tree(rng, ids, rng.randint(0, 3), obs, stats)
            how_ = rng.random()
            if nm in objs and how_ < 0.45:
                # the new Current is DERIVED from the very object that was registered under this name (a scalar multiple, the object
                # plus / minus something, a relative tweak far below any 'unchanged' threshold a shortcut might use)
                oc, om = objs[nm]
                if how_ < 0.15:
                    k_ = rng.choice([0.5, 2, -1, 1 + 4e-7, 1 - 3e-8])
                    c, m = k_ * oc, {s_: k_ * v_ for s_, v_ in om.items()}
                elif how_ < 0.3:
                    c, m = oc + c, {s_: om.get(s_, 0) + m.get(s_, 0) for s_ in set(om) | set(m)}
                else:
                    c, m = oc - c, {s_: om.get(s_, 0) - m.get(s_, 0) for s_ in set(om) | set(m)}
                obs.ev("op:update_with_a_current_derived_from_the_registered_object")
            if c is None or not hasattr(c, "index"):
                obs.violate("current_algebra_returned_non_current", f"expression evaluated to {type(c).__name__}", ops=log[-6:])
                return
            lim = round(rng.uniform(5, 100), 4)
            new = rng.choice([None, f"k{cnt}"])
            cnt += 1
            log.append(["update", nm, new, m, lim])
            net.update_constraint(nm, c, lim, new_name=new)
            del model[nm]
            order.remove(nm)
            model[new or nm] = (m, lim)
            objs.pop(nm, None)
            objs[new or nm] = (c, m)
            order.append(new or nm)   # an updated constraint is re-added: it moves to the end
            had_rm_upd = True
            obs.ev("op:update_rename" if new else "op:update")
        else:
            log.append(["register"])
            if not model and net.constraint_matrix is not None:
                obs.ev("op:register_skipped_after_all_constraints_removed")  # neither allowed nor forbidden by the statement
            elif model:
                before = (list(net.station_ids), dict(net.voltages), dict(net.phase_angles))
                newid = "zz" if rng.random() < 0.5 else rng.choice(ids)
                try:
                    net.register_evse(EVSE(newid, max_rate=32), 240, 0)
                    obs.violate("register_after_constraints_allowed", f"register_evse({newid!r}) succeeded although constraints exist "
                                f"({'an already registered id' if newid in ids else 'a new id'})", ops=log[-6:])
                    return
                except Exception:
                    obs.ev("op:register_refused" if newid == "zz" else "op:register_refused_existing_id")
                after = (list(net.station_ids), dict(net.voltages), dict(net.phase_angles))
                if before != after:
                    obs.violate("register_refused_but_state_changed", f"{before} -> {after}")
                    return
            else:
                s = f"s{len(ids)}"
                angles[s] = rng.choice([0, 30, -90, 150])
                net.register_evse(EVSE(s, max_rate=32), 208, angles[s])
                ids.append(s)
                obs.ev("op:register")
        if step % 4 == 1:
            from vlib.monitors import poke
            poke(net, ChargingNetwork())
            if model:
                poke(net.constraints_as_df())
            obs.ev("objects_printed_compared_hashed_between_operations")
        if not check(log[-1][0]):
            return
        # subset / period queries against the model product
        if order and rng.random() < 0.5:
            T = rng.randint(1, 4)
            S = [[rng.uniform(0, 30) for _ in range(T)] for _ in ids]
            sub = rng.sample(order, rng.randint(1, len(order)))
            rng.shuffle(sub)
            ti = sorted(rng.sample(range(T), rng.randint(1, T)))
            unsorted_ti = False
            if T >= 3 and rng.random() < 0.25:
                ti = [rng.randrange(T) for _ in range(rng.randint(2, T + 2))]  # any order, repetitions allowed
                ti[0], ti[-1] = min(ti), max(ti)
                unsorted_ti = ti != sorted(set(ti))
            linear = rng.random() < 0.3
            # the requested names / periods in whatever container the caller holds them (membership and order of iteration are all
            # the function needs): list, tuple, set / frozenset / keys view for names; list, tuple, numpy array, range for periods
            cform = rng.choice(["list", "list", "tuple", "set", "frozenset", "keys"])
            sub_arg = {"list": list, "tuple": tuple, "set": set, "frozenset": frozenset, "keys": lambda r_: {k_: 0 for k_ in r_}.keys()}[cform](sub)
            tform = rng.choice(["list", "list", "tuple", "array", "range"])
            ti_arg = ti
            if tform == "tuple":
                ti_arg = tuple(ti)
            elif tform == "array":
                ti_arg = np.array(ti)
            elif tform == "range" and ti == list(range(ti[0], ti[-1] + 1)):
                ti_arg = range(ti[0], ti[-1] + 1)
            obs.ev("subset_names_given_as:" + cform)
            got = np.asarray(net.constraint_current(np.array(S), constraints=sub_arg, time_indices=ti_arg, linear=linear))
            names = [nm for nm in order if nm in sub]
            exp = []
            for nm in names:
                co = model[nm][0]
                rowv = []
                for t in ti:
                    if linear:
                        rowv.append(abs(math.fsum(abs(co.get(s, 0)) * S[i][t] for i, s in enumerate(ids))))
                    else:
                        rowv.append(sum(co.get(s, 0) * S[i][t] * cmath.exp(1j * math.radians(angles[s])) for i, s in enumerate(ids)))
                exp.append(rowv)
            # which rows and columns come back is the subject here; of each entry the MAGNITUDE is what the library defines (C06) -
            # the phase reference of the complex value is a convention
            exp = np.abs(np.array(exp))
            got = np.abs(got)
            obs.ev("subset_queries")
            if unsorted_ti:
                # periods listed out of order / more than once: the columns of exactly those periods, in the listed or in ascending
                # order (both are 'the corresponding columns'); anything else is not
                obs.ev("subset_queries_with_unsorted_or_repeated_periods")
                order_ = np.argsort(ti, kind="stable")
                if got.shape == exp.shape and (np.allclose(got, exp, rtol=1e-9, atol=1e-9) or np.allclose(got, exp[:, order_], rtol=1e-9, atol=1e-9)):
                    continue
                obs.violate("subset_current", f"constraints={sub} time_indices={ti} linear={linear}: the result holds neither the listed periods' "
                            f"columns nor those columns in ascending order (shape {got.shape} vs {exp.shape})", ops=log[-8:], stations=ids)
                return
            if got.shape != exp.shape or not np.allclose(got, exp, rtol=1e-9, atol=1e-9):
                obs.violate("subset_current", f"constraints={sub} time_indices={ti} linear={linear}: got {got.tolist()} expected {exp.tolist()}",
                            ops=log[-8:], stations=ids)
                return
    # one query over very many periods at the end of the sequence (lengths on both sides of block sizes an implementation might
    # use): all periods, and a sorted subset that reaches into the tail
    if order and case["seed"] % 25 == 0:
        Tl = rng.choice([1025, 4097, 8193, 10000, 16385, 20000])
        Sl = np.array([[((7 * i + 3 * t) % 29) + 0.5 for t in range(Tl)] for i in range(len(ids))], dtype=float)
        A_ = np.array([[model[nm][0].get(s_, 0.0) for s_ in ids] for nm in order], dtype=float)
        rot = np.exp(1j * np.deg2rad(np.array([angles[s_] for s_ in ids], dtype=float)))
        full = (A_ * rot[None, :]) @ Sl
        for ti in (None, sorted(set(rng.sample(range(Tl), 40)) | {Tl - 1, Tl - 2, 8191 % Tl, 8192 % Tl, 1024 % Tl})):
            for linear in (False, True):
                got = np.abs(np.asarray(net.constraint_current(Sl, time_indices=ti, linear=linear)))
                exp = (np.abs(np.abs(A_) @ Sl) if linear else np.abs(full))
                exp = exp if ti is None else exp[:, ti]
                obs.ev("queries_over_thousands_of_periods")
                if got.shape != exp.shape or not np.allclose(got, exp, rtol=1e-9, atol=1e-9):
                    badc = int(np.argwhere(~np.isclose(got, exp, rtol=1e-9, atol=1e-9))[0][1]) if got.shape == exp.shape else -1
                    obs.violate("subset_current", f"{Tl} periods, time_indices={'all' if ti is None else 'subset'}, linear={linear}: first wrong column {badc} "
                                f"(shape {got.shape} vs {exp.shape})", ops=log[-8:], stations=ids, periods=Tl)
                    return
    obs.evals = nops
    if nops >= 3 and had_rm_upd and stats["binary"] >= 1 and len(stats["subsets"]) >= 2:
        obs.nontrivial()
    check2()
    obs.sample = {"stations": ids, "ops": log[:6], "final_names": order}


def classify(v):
    return None
