"""C05 — the scheduler is invoked exactly when required and sees the true, isolated state."""
import copy
import random
from datetime import timedelta

import numpy as np

from vlib import build, gen, simrun
from vlib.monitors import SimProbe

ID = "C05"
META = {
    "technique": "runtime monitoring: a recording scheduler logs its arguments and every Interface query at each invocation; invocation periods are checked against a 6-line reference model, observations against ground truth recomputed from the recorded trajectory and the case descriptor; a mutating twin run checks isolation",
    "design_ref": "DESIGN.md section 6 C05",
    "level_text": "exploration: generated event histories x max_recompute in {None,1,2,5} x scheduler programs (scripted, uncontrolled, sorted, each with a recording and a mutating wrapper); every invocation is judged on time, datetime, active set and delivered energy, previous rates/peak/pilots and the infrastructure description; every scenario is run twice (recording vs scribbling over everything handed or queried) and the trajectories and the network description must be identical; scheduler exceptions followed by run() again; schedulers attached through update_scheduler after a placeholder (also after JSON); derived session quantities (remaining demand, remaining time, arrival offset); a leg on the contrib StochasticNetwork (more cars than spaces, early departure) judged against a ledger of every EV.charge call; batteries with less room than the request",
    "level_note": "ground truth for 'delivered energy' and 'previous rates' is the recorded trajectory up to t-1 (C02 ties that trajectory to the EV/battery ledgers); sessions within 1e-9 kWh of the 1e-3 kWh activity cut are not judged; the mutating twin decides on clean data first, then mutates",
}
LEVEL = "exploration"
RULE = ("case = one scenario run twice (recording twin, mutating twin); each scheduler invocation is one evaluation; non-trivial = "
        ">=3 invocations of which >=1 in a period without an event; distinct = distinct scenario descriptors")
ASSUMPTIONS = [
    "infrastructure ground truth = the values the network was built from (descriptor), in registration order",
    "activity cut: requested - delivered > 1e-3 kWh, guard band 1e-9 kWh",
    "last_applied_pilot_signals is judged from the third period on (t >= 2), as the property states; before that it must be empty",
]
ANCHORS = [
    "acnportal.acnsim.simulator:Simulator.run",
    "acnportal.acnsim.simulator:Simulator.get_active_evs",
    "acnportal.acnsim.interface:Interface.active_sessions",
    "acnportal.acnsim.interface:Interface.infrastructure_info",
    "acnportal.acnsim.interface:Interface.last_applied_pilot_signals",
    "acnportal.acnsim.interface:Interface.last_actual_charging_rate",
    "acnportal.acnsim.interface:Interface.get_constraints",
    "acnportal.acnsim.interface:Interface.remaining_amp_periods",
    "acnportal.algorithms.base_algorithm:BaseAlgorithm.run",
]
REQUIRED = ["stochastic_invocations_judged", "runs_with_early_departures", "schedulers_swapped_from_inside_an_invocation", "schedulers_swapped_mid_run_after_an_exception", "schedulers_attached_with_update_scheduler", "runs_resumed_after_a_scheduler_exception", "deep_copied_algorithm_and_simulator_runs", "interface_queried_at_registration", "invocations_judged", "invocations_without_event", "runs_judged", "mutating_twins", "active_sets_judged",
            "sessions_filtered_as_satisfied", "pilot_queries_judged", "infrastructure_judged", "regime:mr-None", "regime:mr-1",
            "regime:mr-k", "inner:scripted", "inner:uncontrolled", "inner:sorted"]
BUDGET_S = {"quick": 240, "thorough": 3000}


def cases(seed, tier):
    rng = random.Random(f"C05:{seed}")
    n = 800 if tier == "quick" else 20000
    out = []
    for i in range(n):
        r = rng.random()
        # session ids: of their own kind, equal to their own station's id, or spelled like ANOTHER station's id
        ss = rng.choice(["x", "x", "station", "other_station", "other_station"])
        if r < 0.6:
            d = gen.scenario(rng, sched="scripted", noise_p=0.0, sid_style=ss)
        elif r < 0.8:
            d = gen.scenario(rng, sched="uncontrolled", noise_p=0.0, sid_style=ss)
        else:
            d = gen.scenario(rng, sched="sorted", kinds=("EVSE", "FR"), noise_p=0.0, est=None, sid_style=ss)
        out.append({"desc": d, "copy_pair": rng.choice(["dict", "tuple"]) if rng.random() < 0.15 else None,
                    "fault_at": rng.choice([0, 1, 2, 3, 5]) if rng.random() < 0.25 else None})
        if rng.random() < 0.15 and not out[-1]["copy_pair"]:
            d["swap_from"] = {"mr": rng.choice([1, 2, 3, 7, None]), "json": rng.random() < 0.4}
    for i in range(n // 6):
        # more cars than spaces on a network that assigns spaces at run time
        d = gen.scenario(rng, sched="uncontrolled", kinds=("EVSE",), nmax=3, sess_max=2, noise_p=0.0, inf_evse_p=0.0, odd_ids_p=0.0)
        ids = [s_["id"] for s_ in d["network"]["stations"]]
        sess = []
        for k in range(rng.randint(len(ids) + 1, len(ids) + 6)):
            a = rng.randint(0, 6)
            req = rng.choice([0.3, 1, 3, 25])
            sess.append({"id": f"q{k}", "station": rng.choice(ids), "arrival": a, "departure": a + rng.randint(2, 9), "requested": req,
                         "est_dep": a + 3, "battery": gen.rand_battery(rng, req, ("ideal", "l2c"))})
        d["sessions"], d["recompute"] = sess, []
        out.append({"desc": d, "stochastic": True, "rseed": rng.randrange(1 << 30), "early": rng.random() < 0.6})
    for i in range(n // 8):
        d = gen.scenario(rng, sched="scripted", noise_p=0.0, mr=rng.choice([2, 3, 4, 5, 7, None, 1]), recompute_p=0.2)
        out.append({"desc": d, "swap_mid": {"at": rng.choice([1, 2, 2, 3, 4]), "mr2": rng.choice([1, 2, 3, 5, None]), "json": rng.random() < 0.35,
                                             "inside": rng.random() < 0.35}})
    return out


def scribble(x, depth=0):
    if depth > 4:
        return
    if isinstance(x, np.ndarray):
        try:
            if x.dtype == bool:
                x[...] = ~x
            elif x.dtype.kind in "fiu":
                x[...] = -777
            elif x.dtype == object:
                for v in x:
                    scribble(v, depth + 1)
        except ValueError:
            pass  # read-only array: cannot be mutated at all
    elif isinstance(x, list):
        for i, v in enumerate(x):
            if isinstance(v, (np.ndarray, list, dict)):
                scribble(v, depth + 1)
            else:
                x[i] = "JUNK"
        x.append("EXTRA")
    elif isinstance(x, dict):
        for k in list(x):
            if isinstance(x[k], (np.ndarray, list, dict)):
                scribble(x[k], depth + 1)
            else:
                x[k] = -777
        x["EXTRA"] = 1


PREQ = {"n": 0, "failed": 0}


class InjectedFault(Exception):
    pass


def make_wrapper(inner, mutate, rec, fault_at=None, fault_box=None):
    from acnportal.algorithms import BaseAlgorithm

    class Rec(BaseAlgorithm):
        def __init__(self):
            super().__init__()
            self.inner = inner
            self.max_recompute = inner.max_recompute

        def register_interface(self, interface):
            super().register_interface(interface)
            self.inner.register_interface(interface)
            # a scheduler program may look around as soon as it gets its interface (period 0, before any event has been
            # applied); what it is shown at its first real invocation must not be affected by that
            try:
                interface.active_sessions()
                interface.last_actual_charging_rate
                interface.last_applied_pilot_signals
                interface.infrastructure_info()
                interface.get_prev_peak()
                PREQ["n"] += 1
            except Exception:
                PREQ["failed"] += 1

        def schedule(self, active):
            i = self.interface
            t = i.current_time
            if fault_at is not None and not fault_box.get("fired") and len(rec) == fault_at:
                # fault model of C09: the scheduling algorithm raises once in this period; the caller calls run() again
                fault_box["fired"] = True
                fault_box["t"] = t
                raise InjectedFault(f"injected at invocation {fault_at} (period {t})")
            o = {"t": t, "dt": i.current_datetime, "period": i.period, "mr": i.max_recompute_time,
                 "active": [dict(station_id=a.station_id, session_id=a.session_id, requested=a.requested_energy,
                                 delivered=a.energy_delivered, arrival=a.arrival, departure=a.departure,
                                 est=a.estimated_departure, now=a.current_time,
                                 amp_periods=i.remaining_amp_periods(a), rem_demand=getattr(a, "remaining_demand", None),
                                 rem_time=getattr(a, "remaining_time", None), arr_off=getattr(a, "arrival_offset", None)) for a in active],
                 "last_rate": dict(i.last_actual_charging_rate), "last_pilot": dict(i.last_applied_pilot_signals),
                 "peak": i.get_prev_peak()}
            info = i.infrastructure_info()
            o["info"] = dict(A=np.array(info.constraint_matrix, dtype=float).tolist(), L=np.array(info.constraint_limits, dtype=float).tolist(),
                             phases=list(map(float, info.phases)), voltages=list(map(float, info.voltages)),
                             cids=list(info.constraint_ids), sids=list(info.station_ids), maxp=list(map(float, info.max_pilot)),
                             minp=list(map(float, info.min_pilot)), allow=[list(map(float, a)) for a in info.allowable_pilots],
                             cont=list(map(bool, info.is_continuous)))
            o["per_station"] = {s: dict(allow=i.allowable_pilot_signals(s), maxp=float(i.max_pilot_signal(s)), minp=float(i.min_pilot_signal(s)),
                                        v=float(i.evse_voltage(s)), ph=float(i.evse_phase(s))) for s in info.station_ids}
            c = i.get_constraints()
            o["gc"] = dict(A=np.array(c.constraint_matrix, dtype=float).tolist(), L=np.array(c.magnitudes, dtype=float).tolist(),
                           cids=list(c.constraint_index), sids=list(c.evse_index))
            rec.append(o)
            out = self.inner.schedule(active)  # decide on clean data first
            if mutate:
                import warnings
                for a in active:
                    for k, v in list(vars(a).items()):
                        if isinstance(v, np.ndarray):
                            scribble(v)
                        else:
                            try:
                                setattr(a, k, -777)
                            except Exception:
                                pass
                active.clear()
                inf = i.infrastructure_info()
                for k, v in vars(inf).items():
                    if isinstance(v, (np.ndarray, list, dict)):
                        scribble(v)
                for a in i.active_sessions():
                    a.energy_delivered = 999
                    a.requested_energy = 0
                with warnings.catch_warnings():
                    warnings.simplefilter("ignore")
                    try:
                        handed = i.active_evs  # public (deprecated) accessor: copies of the EV objects
                    except Exception:
                        handed = []
                for e in handed:
                    e.charge(32, 208, 60)
                    e.arrival, e.departure, e.estimated_departure = -5, -4, -3
                    e.update_station_id("elsewhere")
                    e.reset()
                scribble(i.last_applied_pilot_signals)
                scribble(i.last_actual_charging_rate)
                for st in list(inf.station_ids)[:3] if not isinstance(inf.station_ids, str) else []:
                    pass
                for st in [s for s in o["info"]["sids"]][:3]:
                    _, al = i.allowable_pilot_signals(st)
                    scribble(al)
                c2 = i.get_constraints()
                for part in c2:
                    scribble(part)
            return out

    return Rec()


def _run(d, mutate, copy_pair=False, fault_at=None, fault_box=None):
    rec = []
    inner = build.build_scheduler(d)
    sch = make_wrapper(inner, mutate, rec, fault_at, fault_box)
    swap = d.get("swap_from")
    if swap is not None:
        # the simulator is first built with ANOTHER scheduler (other recompute interval, possibly after a JSON round trip) and
        # the scheduler under observation is attached with the public update_scheduler(); its interval is what counts from then on
        from acnportal.acnsim import Simulator
        from acnportal.algorithms import BaseAlgorithm

        class Placeholder(BaseAlgorithm):
            def __init__(self, mr):
                super().__init__()
                self.max_recompute = mr

            def schedule(self, active_sessions):
                return {}

        sim, evs = build.build_sim(d, scheduler=Placeholder(swap["mr"]))
        if swap.get("json"):
            import warnings as _w
            with _w.catch_warnings():
                _w.simplefilter("ignore")
                sim = Simulator.from_json(sim.to_json())
            evs = list(sim.ev_history.values())
        sim.update_scheduler(sch)
    else:
        sim, evs = build.build_sim(d, scheduler=sch)
    if copy_pair:
        # an experiment record holding the algorithm and the simulator is deep-copied and the COPY is run: its scheduler must
        # observe the copy's own state (the recording list is shared through the closure, so observations still arrive here)
        import copy
        holder = copy.deepcopy({"algorithm": sch, "simulator": sim} if copy_pair == "dict" else (sch, sim))
        sim = holder["simulator"] if copy_pair == "dict" else holder[1]
    probe = SimProbe(sim, snapshots=False)
    probe.step_limit = simrun.last_event_ts(d) + 5
    probe.attach()
    probe.run()
    if isinstance(probe.exception, InjectedFault):
        probe.run()  # the caller catches the scheduler's exception and continues the run
    probe.detach()
    return sim, evs, probe, rec


def _net_description(net):
    return dict(A=None if net.constraint_matrix is None else np.array(net.constraint_matrix, dtype=float).tolist(),
                L=np.array(net.magnitudes, dtype=float).tolist(), cids=list(net.constraint_index), sids=list(net.station_ids),
                v=dict(net.voltages), ph=dict(net.phase_angles), maxp=list(map(float, net.max_pilot_signals)),
                minp=list(map(float, net.min_pilot_signals)), allow=[list(map(float, a)) for a in net.allowable_rates],
                cont=list(map(bool, net.is_continuous)))


def _run_swap_mid(case, obs):
    """Scheduler A (interval mrA) raises at its j-th invocation; the caller attaches scheduler B (another interval) with
    update_scheduler(), optionally after a JSON round trip, and calls run() again. Completed invocations of A and of B must be
    exactly what the rule gives: an event in the period (still to be resolved), or B's interval elapsed since the last completed
    invocation of either."""
    import warnings as _w
    from acnportal.acnsim import Simulator
    from acnportal.algorithms import BaseAlgorithm
    d = case["desc"]
    sd, netd = d["scheduler"], d["network"]
    sw = case["swap_mid"]
    logs = {"A": [], "B": []}
    st_ = {"fired": False, "t": None}

    class S(BaseAlgorithm):
        def __init__(self, mr, name, fail_at):
            super().__init__()
            self.max_recompute, self.name, self.fail_at = mr, name, fail_at

        def schedule(self, active_sessions):
            t = self.interface.current_time
            if self.fail_at is not None and not st_["fired"] and len(logs[self.name]) == self.fail_at:
                st_["fired"], st_["t"] = True, t
                if sw.get("inside"):
                    # hand-over from inside the invocation (reentrancy): this call completes, the successor takes over from the
                    # next period on, with its own interval
                    st_["sim"].update_scheduler(st_["B"])
                    st_["inside_done"] = True
                else:
                    raise InjectedFault(f"period {t}")
            logs[self.name].append(t)
            return gen.scripted_schedule(sd, netd, t)[0]

    mrA, mrB = sd.get("mr"), sw["mr2"]
    sim, evs = build.build_sim(d, scheduler=S(mrA, "A", sw["at"]))
    st_["sim"], st_["B"] = sim, S(mrB, "B", None)
    wit = dict(scenario=d, swap_mid=sw)
    with _w.catch_warnings():
        _w.simplefilter("ignore")
        try:
            sim.run()
        except InjectedFault:
            pass
        except Exception as e:
            obs.violate("run_raised", f"{type(e).__name__}: {e}", **wit)
            return
        if not st_["fired"]:
            obs.ev("swap_mid_fault_never_reached_not_judged")
            return
        tf = st_["t"]
        if not sw.get("inside"):
            if sw.get("json"):
                sim = Simulator.from_json(sim.to_json())
            sim.update_scheduler(st_["B"])
            try:
                sim.run()
            except Exception as e:
                obs.violate("run_raised", f"after update_scheduler at period {tf}: {type(e).__name__}: {e}", **wit)
                return
    obs.ev("schedulers_swapped_from_inside_an_invocation" if sw.get("inside") else "schedulers_swapped_mid_run_after_an_exception")
    T = sim.iteration
    evt = simrun.event_times(d)
    expA, expB, last = [], [], None
    inside = bool(sw.get("inside"))
    for t in range(T):
        # swap after an exception: B decides from the faulted period on; swap from inside: A completes the period of the swap
        mr = mrA if (t < tf or (inside and t == tf)) else mrB
        if t in evt or (mr is not None and (last is None or t - last >= mr)):
            (expA if (t < tf or (inside and t == tf)) else expB).append(t)
            last = t
    obs.evals = len(expA) + len(expB)
    if logs["A"] != expA or logs["B"] != expB:
        obs.violate("invocation_periods", f"A (interval {mrA}) ran in {logs['A']}, raised in period {tf}; B (interval {mrB}) attached with "
                    f"update_scheduler ran in {logs['B']}; required A {expA}, B {expB}; events in {sorted(evt)}", **wit)
    if len(expB) >= 2:
        obs.nontrivial()
    obs.sample = {"kind": "swap_mid", "mrA": mrA, "mrB": mrB, "fault_period": tf, "A": logs["A"], "B": logs["B"][:12]}


def _run_stochastic(case, obs):
    """The same clauses on a network that assigns spaces at run time (contrib StochasticNetwork, more cars than spaces, early
    departure on or off): who is connected, what each session received, the previous period's rates and the previous peak are
    taken from a ledger of every EV.charge call (period, session, returned rate, voltage) and from the network's own public
    get_ev(), not from the simulator's matrices."""
    import warnings as _w
    from acnportal.acnsim.models import EV
    from acnportal.algorithms import BaseAlgorithm
    from acnportal.contrib.acnsim.network import StochasticNetwork
    from vlib.monitors import Wrap
    d = case["desc"]
    per = d["period"]
    box, ledger, rec = {}, {}, []
    wit = dict(scenario=d, rseed=case["rseed"], early_departure=case["early"])

    def after_charge(ctx, result, exc):
        if exc is None and "sim" in box:
            ev_, a_, k_ = ctx
            volt = a_[1] if len(a_) > 1 else k_.get("voltage")
            ledger[(box["sim"].iteration, ev_.session_id)] = (float(result), float(volt))

    class Rec(BaseAlgorithm):
        def __init__(self):
            super().__init__()
            self.max_recompute = 1

        def schedule(self, active):
            i = self.interface
            net = box["sim"].network
            rec.append({"t": i.current_time, "active": {a.session_id: (a.station_id, float(a.energy_delivered), float(a.requested_energy)) for a in active},
                        "last_rate": {k: float(v) for k, v in i.last_actual_charging_rate.items()}, "peak": float(i.get_prev_peak()),
                        "connected": {net.get_ev(st).session_id: st for st in net.station_ids if net.get_ev(st) is not None}})
            return {a.station_id: [float(i.max_pilot_signal(a.station_id))] for a in active}

    random.seed(case["rseed"])
    sim, evs = build.build_sim(d, scheduler=Rec(), net_cls=StochasticNetwork, net_kw={"early_departure": case["early"]})
    box["sim"] = sim
    w = Wrap(EV, "charge", before=lambda o, a, k: (o, a, k), after=after_charge).install()
    try:
        with _w.catch_warnings():
            _w.simplefilter("ignore")
            try:
                sim.run()
            except Exception as e:
                obs.violate("run_raised", f"{type(e).__name__}: {e}", **wit)
                return
    finally:
        w.remove()
    obs.ev("runs_on_a_network_assigning_spaces_at_run_time")
    if getattr(sim.network, "early_unplug", 0):
        obs.ev("runs_with_early_departures")
    req = {s["id"]: s["requested"] for s in d["sessions"]}
    obs.evals = len(rec)
    for o in rec:
        t = o["t"]
        ww = dict(period=t, **wit)
        got = {sid: sum(r * v for (u, s_), (r, v) in ledger.items() if s_ == sid and u < t) * per / 60.0 / 1000.0 for sid in o["connected"]}
        margin = min([abs(req[sid] - got[sid] - 1e-3) for sid in got] + [1.0])
        if margin < 1e-9:
            obs.boundary += 1
            continue
        exp_active = {sid for sid in o["connected"] if req[sid] - got[sid] > 1e-3}
        obs.ev("stochastic_invocations_judged")
        if set(o["active"]) != exp_active:
            obs.violate("active_set", f"period {t}: scheduler saw {sorted(o['active'])}; connected (network.get_ev) and unsatisfied (charge-call "
                        f"ledger) are {sorted(exp_active)}", **ww)
            continue
        for sid, (st, dl, rq) in o["active"].items():
            if st != o["connected"][sid]:
                obs.violate("observed_session_fields", f"period {t}: session {sid} shown on {st}, connected to {o['connected'][sid]}", **ww)
            if not abs(dl - got[sid]) <= 1e-9 * max(1.0, got[sid]):
                obs.violate("observed_energy_delivered", f"period {t} session {sid}: saw {dl!r}, the charge calls sum to {got[sid]!r}", **ww)
        exp_rate = {sid: ledger.get((t - 1, sid), (0.0, 0.0))[0] for sid in exp_active}
        if set(o["last_rate"]) != exp_active or any(not abs(o["last_rate"][k] - e) <= 1e-9 * max(1.0, abs(e)) for k, e in exp_rate.items()):
            obs.violate("observed_last_actual_rate", f"period {t}: saw {o['last_rate']}, the charge calls of period {t - 1} returned {exp_rate}", **ww)
        per_u = {}
        for (u, s_), (r, v) in ledger.items():
            if u < t:
                per_u[u] = per_u.get(u, 0.0) + r
        pk = max([0.0] + list(per_u.values()))
        if not abs(o["peak"] - pk) <= 1e-9 * max(1.0, pk):
            obs.violate("observed_prev_peak", f"period {t}: saw {o['peak']!r}; the largest per-period sum of the rates the cars actually drew is {pk!r}", **ww)
    if len(rec) >= 3:
        obs.nontrivial()
    obs.sample = {"kind": "stochastic", "stations": len(d["network"]["stations"]), "sessions": len(d["sessions"]), "early_departure": case["early"],
                  "invocations": len(rec), "early_unplugs": getattr(sim.network, "early_unplug", None)}


def run_case(case, obs):
    if case.get("swap_mid"):
        return _run_swap_mid(case, obs)
    if case.get("stochastic"):
        return _run_stochastic(case, obs)
    d = case["desc"]
    nd = d["network"]
    fbox = {}
    sim, evs, probe, rec = _run(d, False, copy_pair=case.get("copy_pair"), fault_at=case.get("fault_at"), fault_box=fbox)
    if fbox.get("fired"):
        obs.ev("runs_resumed_after_a_scheduler_exception")
    if d.get("swap_from") is not None:
        obs.ev("schedulers_attached_with_update_scheduler")
    if case.get("copy_pair"):
        obs.ev("deep_copied_algorithm_and_simulator_runs")
    wit = dict(scenario=d, copy_pair=case.get("copy_pair"))
    if probe.exception is not None:
        obs.violate("run_raised", f"{type(probe.exception).__name__}: {probe.exception}", **wit)
        return
    obs.ev("runs_judged")
    obs.ev("interface_queried_at_registration", PREQ["n"])
    PREQ["n"] = 0
    obs.ev("inner:" + d["scheduler"]["kind"])
    mr = d["scheduler"].get("mr") if d["scheduler"]["kind"] == "scripted" else 1
    obs.regime("regime:mr-None" if mr is None else "regime:mr-1" if mr == 1 else "regime:mr-k")
    T = sim.iteration
    ids = [s["id"] for s in nd["stations"]]
    st_of = {s["id"]: s for s in nd["stations"]}
    row = {st: i for i, st in enumerate(sim.network.station_ids)}
    cr, ps = sim.charging_rates, sim.pilot_signals
    per = d["period"]
    start = build.start_of(d)
    # ---- (i) invocation periods
    got = [o["t"] for o in rec]
    exp = simrun.expected_invocations(d, T, default_mr=getattr(sim.scheduler, "max_recompute", 1) or 1)
    if got != exp:
        obs.violate("invocation_periods", f"scheduler ran in periods {got}, required {exp} (max_recompute={mr})", **wit)
    traced = [t for t, letter, _ in probe.trace if letter == "S"]
    if fbox.get("fired") and fbox["t"] in traced:
        traced.remove(fbox["t"])  # the call that raised; the completed invocations are what the statement is about
    if traced != got:
        obs.violate("invocation_periods", f"scheduler.run calls {traced} vs schedule() calls {got}", **wit)
    strs = probe.period_strings()
    for t, s_ in strs.items():
        if "S" in s_ and not (s_.index("S") > max([s_.rfind("U"), s_.rfind("P")]) and ("A" not in s_ or s_.index("S") < s_.index("A"))):
            obs.violate("invocation_before_events_applied", f"period {t}: trace {s_}", **wit)
    evt = simrun.event_times(d)
    obs.ev("invocations_without_event", sum(1 for t in got if t not in evt))
    # ---- (ii) observations vs ground truth
    sess = {s["id"]: s for s in d["sessions"]}
    A_exp = [[float(c["coeffs"].get(i, 0.0)) for i in ids] for c in nd["constraints"]]
    info_exp = dict(A=A_exp if A_exp else [], L=[float(c["limit"]) for c in nd["constraints"]],
                    phases=[float(s["phase"]) for s in nd["stations"]], voltages=[float(s["voltage"]) for s in nd["stations"]],
                    cids=[c["name"] for c in nd["constraints"]], sids=ids,
                    maxp=[float(gen.evse_max(s["evse"])) for s in nd["stations"]],
                    minp=[float(gen.evse_min(s["evse"])) for s in nd["stations"]],
                    cont=[s["evse"]["t"] != "FR" for s in nd["stations"]],
                    allow=[_allow(s["evse"]) for s in nd["stations"]])
    def delivered_before(s, t):
        i = row[s["station"]]
        return float(sum(cr[i, u] for u in range(s["arrival"], min(t, s["departure"])))) * st_of[s["station"]]["voltage"] / 1000.0 * per / 60.0
    for o in rec:
        t = o["t"]
        obs.ev("invocations_judged")
        w = dict(period=t, **wit)
        if o["dt"] != start + timedelta(minutes=per) * t:
            obs.violate("observed_datetime", f"current_datetime {o['dt']} at period {t}, expected {start + timedelta(minutes=per) * t}", **w)
        if o["period"] != per or o["mr"] != mr:
            obs.violate("observed_period_or_max_recompute", f"period {o['period']} max_recompute {o['mr']}", **w)
        # active set
        exp_active, boundary = {}, False
        for s in sess.values():
            if s["arrival"] <= t < s["departure"]:
                dl = delivered_before(s, t)
                rem = s["requested"] - dl
                if abs(rem - 1e-3) < 1e-9:
                    boundary = True
                if rem > 1e-3:
                    exp_active[s["id"]] = dl
                else:
                    obs.ev("sessions_filtered_as_satisfied")
        got_active = {a["session_id"]: a for a in o["active"]}
        if boundary:
            obs.boundary += 1
        else:
            obs.ev("active_sets_judged")
            if set(got_active) != set(exp_active):
                obs.violate("active_set", f"period {t}: scheduler saw sessions {sorted(got_active)}, connected and unsatisfied are {sorted(exp_active)}", **w)
        for sid, a in got_active.items():
            s = sess.get(sid)
            if s is None or sid not in exp_active:
                continue
            dl = exp_active[sid]
            if not (abs(a["delivered"] - dl) <= 1e-9 * max(1.0, dl)):
                obs.violate("observed_energy_delivered", f"period {t} session {sid}: saw {a['delivered']!r}, recorded trajectory gives {dl!r}", **w)
            if (a["station_id"], a["requested"], a["arrival"], a["departure"], a["est"], a["now"]) != \
                    (s["station"], s["requested"], s["arrival"], s["departure"], s["est_dep"], t):
                obs.violate("observed_session_fields", f"period {t} session {sid}: {a}", **w)
            # the derived quantities a session object documents: demand still to be met, periods until departure (0 once overdue),
            # periods until arrival (0 for a connected car)
            if a.get("rem_demand") is not None:
                obs.ev("derived_session_quantities_judged")
                if not (abs(a["rem_demand"] - (s["requested"] - dl)) <= 1e-9 * max(1.0, abs(s["requested"]))):
                    obs.violate("observed_session_fields", f"period {t} session {sid}: remaining_demand {a['rem_demand']!r}, requested - delivered = {s['requested'] - dl!r}", **w)
            if a.get("rem_time") is not None and a["rem_time"] != max(min(s["departure"] - s["arrival"], s["departure"] - t), 0):
                obs.violate("observed_session_fields", f"period {t} session {sid}: remaining_time {a['rem_time']!r} (arrival {s['arrival']}, departure {s['departure']})", **w)
            if a.get("arr_off") is not None and a["arr_off"] != max(s["arrival"] - t, 0):
                obs.violate("observed_session_fields", f"period {t} session {sid}: arrival_offset {a['arr_off']!r} (arrival {s['arrival']})", **w)
            ap = (s["requested"] - dl) * 1000.0 / st_of[s["station"]]["voltage"] * 60.0 / per
            if not (abs(a["amp_periods"] - ap) <= 1e-9 * max(1.0, abs(ap))):
                obs.violate("remaining_amp_periods", f"period {t} session {sid}: {a['amp_periods']!r} expected {ap!r}", **w)
        # previous actual rates (of the active sessions), previous peak
        for sid, r in o["last_rate"].items():
            s = sess.get(sid)
            if s is None:
                obs.violate("last_rate_unknown_session", f"{sid}", **w)
                continue
            e = cr[row[s["station"]], t - 1] if (t >= 1 and s["arrival"] <= t - 1) else 0.0
            if not (abs(r - e) <= 1e-9 * max(1.0, abs(e))):
                obs.violate("observed_last_actual_rate", f"period {t} session {sid}: saw {r!r}, recorded rate of period {t - 1} is {e!r}", **w)
        if not boundary and set(o["last_rate"]) != set(exp_active):
            obs.violate("observed_last_actual_rate", f"period {t}: keys {sorted(o['last_rate'])} vs active {sorted(exp_active)}", **w)
        pk = max([0.0] + [float(cr[:, u].sum()) for u in range(t)])
        if not (abs(o["peak"] - pk) <= 1e-9 * max(1.0, pk)):
            obs.violate("observed_prev_peak", f"period {t}: saw {o['peak']!r}, running max of recorded aggregate is {pk!r}", **w)
        # previous pilots
        obs.ev("pilot_queries_judged")
        if t >= 2:
            exp_lp = {sid: float(ps[row[sess[sid]["station"]], t - 1]) for sid in exp_active if sess[sid]["arrival"] <= t - 1}
            if not boundary and {k: float(v) for k, v in o["last_pilot"].items()} != exp_lp:
                obs.violate("observed_last_applied_pilots", f"period {t}: saw {o['last_pilot']}, recorded pilots of period {t - 1}: {exp_lp}", **w)
        elif o["last_pilot"] != {}:
            # the statement starts at the third period; before it "nothing yet" is what the library answers, and the true pilots
            # of period 0 (asked in period 1) would be just as truthful
            exp_lp = {sid: float(ps[row[sess[sid]["station"]], 0]) for sid in exp_active if sess[sid]["arrival"] <= 0} if t == 1 else None
            if boundary or (exp_lp is not None and {k: float(v) for k, v in o["last_pilot"].items()} == exp_lp):
                obs.ev("early_pilot_queries_answered_with_period_0_pilots")
            else:
                obs.violate("observed_last_applied_pilots", f"period {t} (< 2): expected no pilots (or those of period 0), saw {o['last_pilot']}", **w)
        # infrastructure
        obs.ev("infrastructure_judged")
        inf = dict(o["info"])
        if not _info_eq(inf, info_exp):
            diff = [k for k in info_exp if not _eq(inf.get(k), info_exp[k])]
            obs.violate("observed_infrastructure", f"period {t}: infrastructure_info differs from the build values in {diff}",
                        seen={k: inf.get(k) for k in diff}, expected={k: info_exp[k] for k in diff}, **w)
        for j, s_ in enumerate(nd["stations"]):
            p_ = o["per_station"].get(s_["id"])
            if p_ is None or p_["v"] != float(s_["voltage"]) or p_["ph"] != float(s_["phase"]) or p_["maxp"] != info_exp["maxp"][j] \
                    or p_["minp"] != info_exp["minp"][j] or bool(p_["allow"][0]) != info_exp["cont"][j] or \
                    [float(x) for x in p_["allow"][1]] != info_exp["allow"][j]:
                obs.violate("observed_station_accessors", f"period {t} station {s_['id']}: {p_}", **w)
        gc = o["gc"]
        if not (_eq(gc["A"], info_exp["A"]) and _eq(gc["L"], info_exp["L"]) and gc["cids"] == info_exp["cids"] and gc["sids"] == ids):
            obs.violate("observed_constraints", f"period {t}: get_constraints differs from the build values", seen=gc, **w)
    # ---- (iii) isolation: mutating twin
    sim2, evs2, probe2, rec2 = _run(d, True)
    obs.ev("mutating_twins")
    if probe2.exception is not None:
        obs.violate("mutation_alters_simulation", f"mutating twin raised {type(probe2.exception).__name__}: {probe2.exception}", **wit)
    else:
        e1 = {k: v.energy_delivered for k, v in sim.ev_history.items()}
        e2 = {k: v.energy_delivered for k, v in sim2.ev_history.items()}
        if sim2.pilot_signals.shape != ps.shape or not np.array_equal(sim2.pilot_signals, ps) or not np.array_equal(sim2.charging_rates, cr) \
                or e1 != e2 or sim2.iteration != T or [o["t"] for o in rec2] != got:
            obs.violate("mutation_alters_simulation", "trajectory of the run whose scheduler scribbles over everything it is handed differs from its twin", **wit)
        for tag, s_ in (("recording", sim), ("mutating", sim2)):
            nd2 = _net_description(s_.network)
            exp_nd = dict(A=A_exp if A_exp else None, L=info_exp["L"], cids=info_exp["cids"], sids=ids,
                          v={s["id"]: s["voltage"] for s in nd["stations"]}, ph={s["id"]: s["phase"] for s in nd["stations"]},
                          maxp=info_exp["maxp"], minp=info_exp["minp"], allow=info_exp["allow"], cont=info_exp["cont"])
            bad = [k for k in exp_nd if not _eq(nd2[k], exp_nd[k])]
            if bad:
                obs.violate("network_description_changed", f"after the {tag} run the network's {bad} differ from the build values",
                            seen={k: nd2[k] for k in bad}, **wit)
        # observations of the mutating twin must equal those of the recording twin
        if len(rec2) == len(rec):
            for o1, o2 in zip(rec, rec2):
                if o1["active"] != o2["active"] or not _info_eq(o1["info"], o2["info"]) or o1["gc"] != o2["gc"] or o1["last_rate"] != o2["last_rate"]:
                    obs.violate("mutation_alters_observations", f"period {o1['t']}: what the scheduler observes differs after earlier mutations", **wit)
                    break
    obs.evals = max(1, len(rec))
    if len(got) >= 3 and any(t not in evt for t in got):
        obs.nontrivial()
    obs.sample = {"scheduler": d["scheduler"]["kind"], "mr": mr, "invocations": got[:12], "events_at": sorted(evt)[:12],
                  "first_observation": {k: (str(v) if k == "dt" else v) for k, v in rec[0].items() if k in ("t", "dt", "active", "peak")} if rec else None}


def _allow(e):
    if e["t"] == "EVSE":
        return [float(e.get("min", 0)), float(e["max"])]
    if e["t"] == "DB":
        return [float(e["end"]), float(e["max"])]
    return sorted({float(r) for r in e["rates"]} | {0.0})


def _eq(a, b):
    if a is None or b is None:
        return a is b or (a in (None, []) and b in (None, []))
    if any(isinstance(x_, str) for x_ in (list(a) if isinstance(a, (list, tuple)) else [a]) + (list(b) if isinstance(b, (list, tuple)) else [b])):
        return list(a) == list(b) if isinstance(a, (list, tuple)) and isinstance(b, (list, tuple)) else a == b  # identifiers: text, never numbers ("nan", "10")
    try:
        a_, b_ = np.array(a, dtype=float), np.array(b, dtype=float)
        if a_.size == 0 and b_.size == 0:
            return True
        return a_.shape == b_.shape and np.array_equal(a_, b_)
    except (ValueError, TypeError):
        return a == b


def _info_eq(x, y):
    return all(_eq(x.get(k), y.get(k)) for k in y)


def classify(v):
    return None
