"""C19 — stochastic space assignment never loses, duplicates or starves a session."""
import random

import numpy as np
import warnings

from vlib import build, simrun
from vlib.monitors import Wrap

ID = "C19"
META = {
    "technique": "runtime monitoring: instance-level wrappers on StochasticNetwork.plugin / unplug / post_charging_update inside real simulations; after each call returns (quiescent point) an invariant walker reads get_ev for every station, the waiting queue and the counters and compares them with a shadow model (placement map + FIFO list) updated from the call arguments and the observed station choice only; reproducibility decided by re-running with the same random seed",
    "design_ref": "DESIGN.md section 6 C19",
    "level_text": "exploration: thousands (quick) / hundreds of thousands (thorough) of simulated histories with more simultaneous sessions than stations, simultaneous departures of connected and waiting EVs, tiny and unfillable requests, early_departure on/off, three scheduler kinds, many random seeds per history; every plugin/unplug/post-update call is followed by the full invariant walk; early_departure given as bool / numpy bool / int / attribute; verbose runs; half of the networks built without mentioning early_departure; a sixth of the runs with warnings turned into errors (a raising call must leave nobody lost or doubled); second runs on the network object of the first; a car of the user's own EV class that refuses to wait",
    "level_note": "the station chosen for an arriving EV is read back from the network (it is the only nondeterminism) and must be one the shadow model knows to be free; which freed station an admitted waiter takes is not prescribed beyond 'a station freed by that departure'; 'fully charged' = requested - delivered <= 1e-3 kWh with a 1e-9 guard",
}
LEVEL = "exploration"
RULE = ("case = one (history, seed) simulated under the monitor (+ one replay with the same seed); each monitored call is one "
        "evaluation; non-trivial = at some moment more present sessions than stations (somebody waits) and >=1 admission from "
        "the queue; distinct = distinct (history, seed) pairs")
ASSUMPTIONS = [
    "session ids unique; departure > arrival; the simulator is the only caller of plugin/unplug",
    "admission order is judged against the order in which plugin() was called for the waiting sessions",
]
ANCHORS = [
    "acnportal.contrib.acnsim.network.stochastic_network:StochasticNetwork.plugin",
    "acnportal.contrib.acnsim.network.stochastic_network:StochasticNetwork.unplug",
    "acnportal.contrib.acnsim.network.stochastic_network:StochasticNetwork.post_charging_update",
    "acnportal.contrib.acnsim.network.stochastic_network:StochasticNetwork.available_evses",
]
REQUIRED = ["runs_under_warnings_as_errors", "arrivals_refused_by_the_users_own_ev_class", "second_runs_on_the_network_object_of_the_first", "networks_built_without_mentioning_early_departure", "calls:plugin", "calls:unplug", "calls:post_update", "walks", "placed_on_free_station", "enqueued", "admitted_from_queue",
            "departed_while_waiting", "early_departures", "late_unplug_of_early_leaver", "runs_completed", "replays_compared", "xproc_runs_compared", "energy_ledgers_checked",
            "arrivals_delivered_in_the_legacy_two_argument_form", "runs_with_cars_connected_by_hand_before_the_run", "early_option_given_as:np", "early_option_given_as:int", "early_option_given_as:attr", "regime:early-on", "regime:early-off", "regime:more-sessions-than-stations", "regime:simultaneous-departure-connected-and-waiting",
            "distinct_station_choices"]
BUDGET_S = {"quick": 240, "thorough": 3000}


def _alone(rng, sessions):
    """A session whose arrival is the only event of its period (an arrival that fails takes the rest of its period's events with
    it on the unchanged simulator: that is the simulator's event loop, not the car park)."""
    times = [s_["arrival"] for s_ in sessions] + [s_["departure"] for s_ in sessions]
    c = [s_["id"] for s_ in sessions if times.count(s_["arrival"]) == 1 and s_["arrival"] > 0]
    return rng.choice(c) if c else None


def gen_history(rng):
    nst = rng.randint(1, 4)
    ev = {"t": "EVSE", "max": 32, "min": 0}
    stations = [{"id": f"s{i}", "evse": ev, "voltage": rng.choice([208, 240]), "phase": [30, -90, 150][i % 3]} for i in range(nst)]
    cons = []
    if rng.random() < 0.5:
        cons = [{"name": "agg", "coeffs": {s["id"]: 1 for s in stations}, "limit": rng.choice([20.37, 48.37, 200.37])}]
    n = rng.randint(1, 12)
    burst = rng.randint(0, 6)
    sessions = []
    for k in range(n):
        a = burst if rng.random() < 0.45 else rng.randint(0, 9)
        dur = rng.choice([1, 1, 2, 3, 4, 6, 9])
        req = rng.choice([0.0005, 0.02, 0.3, 0.3, 2, 8, 60])
        sessions.append({"id": f"x{k}", "station": "s0", "arrival": a, "departure": a + dur, "requested": req, "est_dep": a + dur,
                         "battery": {"t": "ideal", "cap": req + rng.choice([0, 0.5, 10]), "init": 0, "maxp": rng.choice([3.3, 6.6, 20])}})
    if rng.random() < 0.4 and n >= 2:
        # a connected and a waiting EV (likely) leaving in the same period
        d0 = max(s["departure"] for s in sessions[:2])
        for s in sessions[:rng.randint(2, min(n, 4))]:
            s["departure"] = s["est_dep"] = max(d0, s["arrival"] + 1)
    rng.shuffle(sessions)
    r = rng.random()
    if r < 0.45:
        sd = {"kind": "uncontrolled"}
    elif r < 0.75:
        sd = {"kind": "sorted", "algo": rng.choice(["greedy", "rr"]), "sort": rng.choice(["fcfs", "edf", "llf"]), "est": None,
              "unint": False, "inc": 1}
    else:
        sd = {"kind": "scripted", "mr": 1, "seed": rng.randrange(1 << 30), "t0": 0, "mode": "full"}
    return {"period": rng.choice([1, 5, 15]), "network": {"stations": stations, "constraints": cons, "tol": None},
            "sessions": sessions, "recompute": [], "scheduler": sd, "np_seed": 0, "early": rng.random() < 0.55,
            "early_as": rng.choice(["bool", "bool", "np", "int", "attr"]), "verbose": rng.random() < 0.3,
            "legacy_plugin": rng.random() < 0.12,
            "hold_back": ([s_["id"] for s_ in sessions if s_["arrival"] == 0][:2] if rng.random() < 0.12 else []),
            "sticky": _alone(rng, sessions) if rng.random() < 0.15 else None}


def cases(seed, tier):
    rng = random.Random(f"C19:{seed}")
    nh, per = (260, 8) if tier == "quick" else (6000, 30)
    out = []
    # reproducibility across interpreter launches: the same histories and seeds in fresh processes with different hash seeds
    for _ in range(2 if tier == "quick" else 24):
        hs = []
        for _ in range(25):
            h = gen_history(rng)
            # several free stations while some are occupied is where the choice among free stations matters
            if len(h["network"]["stations"]) < 3:
                ev = h["network"]["stations"][0]["evse"]
                h["network"]["stations"] = [{"id": f"s{i}", "evse": ev, "voltage": 208, "phase": 0} for i in range(rng.randint(4, 8))]
                h["network"]["constraints"] = []
            hs.append({"desc": h, "rseed": rng.randrange(1 << 30)})
        out.append({"xproc": hs})
    for i in range(nh):
        d = gen_history(rng)
        for j in range(per):
            out.append({"desc": d, "rseed": rng.randrange(1 << 30)})
    return out


class Shadow:
    """Reference model of the car park: who is where, who waits (FIFO)."""

    def __init__(self, stations):
        self.placed = {s: None for s in stations}
        self.waiting = []
        self.arrived, self.gone, self.early = set(), set(), set()
        self.never_charged = 0
        self.early_unplug = 0
        self.swaps = 0

    def free(self):
        return [s for s, v in self.placed.items() if v is None]

    def station_of(self, sid):
        for s, v in self.placed.items():
            if v == sid:
                return s
        return None


def fully_charged(ev):
    rem = ev.requested_energy - ev.energy_delivered
    if abs(rem - 1e-3) <= 1e-9:
        return None
    return not (rem > 1e-3)


def monitored_run(d, rseed, obs, judge=True, network=None, strict=False):
    """network: the (emptied) network object of an earlier run, used again.  strict: the process turns warnings into exceptions;
    a call that raises one is judged for what it left behind (nobody lost, nobody twice, nobody waiting beside a free space)."""
    from acnportal.contrib.acnsim.network.stochastic_network import StochasticNetwork
    random.seed(rseed)

    # the option arrives as the caller has it: a python bool, a numpy bool out of a parameter sweep, 0/1, or it is switched
    # after construction through the public attribute
    how = d.get("early_as", "bool")
    flag = {"bool": bool, "np": np.bool_, "int": int}.get(how, bool)(d["early"])
    if network is not None:
        sim, evs = build.build_sim(d, network=network)
    elif how == "attr":
        sim, evs = build.build_sim(d, net_cls=StochasticNetwork, net_kw={"early_departure": not d["early"]})
        sim.network.early_departure = d["early"]
    else:
        # documented default: early_departure=False - every other caller who wants it off does not mention it
        terse_ = (not d["early"]) and rseed % 2 == 0
        sim, evs = build.build_sim(d, net_cls=StochasticNetwork, net_kw={} if terse_ else {"early_departure": flag})
        if terse_ and obs is not None:
            obs.ev("networks_built_without_mentioning_early_departure")
    if obs is not None:
        obs.ev("early_option_given_as:" + how)
    net = sim.network
    if d.get("legacy_plugin"):
        # arrivals are delivered in the legacy two-argument form network.plugin(ev, station_id) (the argument is documented as
        # deprecated and ignored: the space is still chosen by the network); the nominal station is whatever the EV carries
        _orig_plugin = net.plugin

        def _legacy(ev, station_id=None):
            return _orig_plugin(ev, ev.station_id if ev.station_id in stations_ else stations_[0])

        stations_ = list(net.station_ids)
        net.plugin = _legacy
        if obs is not None:
            obs.ev("arrivals_delivered_in_the_legacy_two_argument_form")
    if rseed % 5 == 0:
        from vlib.monitors import poke
        poke(net, sim)
        poke(sim.event_queue)
    sticky_sid = None
    refused_arrivals = set()
    if d.get("sticky") is not None and not strict:
        # one car is of the user's own EV class, which insists on always having a space (update_station_id(None) raises): when it
        # arrives at a full car park its arrival fails
        from acnportal.acnsim.models import EV as _EV

        class SpaceBoundEV(_EV):
            def update_station_id(self, station_id):
                if station_id is None:
                    raise ValueError("an EV of this class must always have a station")
                super().update_station_id(station_id)

        for e_ in evs:
            if e_.session_id == d["sticky"]:
                e_.__class__ = SpaceBoundEV
                sticky_sid = e_.session_id
    stations = list(net.station_ids)
    sh = Shadow(stations)
    if network is not None:  # the counters of a network that served before go on counting
        sh.never_charged, sh.early_unplug, sh.swaps = net.never_charged, net.early_unplug, net.swaps
    log = []  # placement log: (iteration, op, session, station)
    posts = {"n": 0}
    state = {"in_post": False, "depth": 0}
    wit = dict(scenario=d, rseed=rseed)

    def real():
        occ = {}
        for s in stations:
            ev = net.get_ev(s)
            occ[s] = ev.session_id if ev is not None else None
        return occ, list(net.waiting_queue)

    def walk(where):
        """Invariant walk at a quiescent point."""
        if not judge:
            return True
        obs.evals += 1
        obs.ev("walks")
        occ, waiting = real()
        on = [v for v in occ.values() if v is not None]
        if len(on) != len(set(on)):
            obs.violate("ev_on_two_stations", f"{where}: {occ}", **wit)
            return False
        if set(on) & set(waiting):
            obs.violate("ev_connected_and_waiting", f"{where}: {occ} waiting {waiting}", **wit)
            return False
        if len(waiting) != len(set(waiting)):
            obs.violate("ev_waiting_twice", f"{where}: waiting {waiting}", **wit)
            return False
        if waiting and any(v is None for v in occ.values()):
            obs.violate("waiting_while_station_free", f"{where}: free {[s for s, v in occ.items() if v is None]} waiting {waiting}", **wit)
            return False
        present = sh.arrived - sh.gone
        here = set(on) | set(waiting)
        if here != present:
            obs.violate("session_lost_or_ghost", f"{where}: present by history {sorted(present)}, found {sorted(here)} "
                        f"(lost {sorted(present - here)}, ghost {sorted(here - present)})", **wit)
            return False
        if occ != sh.placed:
            obs.violate("placement_differs_from_model", f"{where}: network {occ} model {sh.placed}", **wit)
            return False
        if waiting != sh.waiting:
            obs.violate("queue_order_differs_from_fifo_model", f"{where}: network queue {waiting} model {sh.waiting}", **wit)
            return False
        for sid_, st_ in [(v, s) for s, v in occ.items() if v is not None]:
            ev = net.get_ev(st_)
            if ev.station_id != st_:
                obs.violate("ev_station_id_stale", f"{where}: {sid_} connected to {st_} but ev.station_id={ev.station_id}", **wit)
                return False
        if net.never_charged != sh.never_charged:
            obs.violate("counters", f"{where}: never_charged {net.never_charged}, cars that left while still waiting: {sh.never_charged}", **wit)
            return False
        if net.early_unplug != sh.early_unplug:
            obs.ev("early_unplug_counter_differs_from_model")  # a statistic the statement does not mention: recorded only
        return True

    def half_done(where, subjects):
        """A call raised a Warning turned into an exception: whatever it did or did not do, nobody may be lost or doubled."""
        obs.ev("calls_that_raised_a_warning_as_error")
        occ, waiting = real()
        on = [v for v in occ.values() if v is not None]
        here = set(on) | set(waiting)
        present = sh.arrived - sh.gone
        lost, ghost = present - here - set(subjects), here - present - set(subjects)
        if len(on) != len(set(on)) or set(on) & set(waiting) or lost or ghost or (waiting and any(v is None for v in occ.values())):
            obs.violate("call_interrupted_by_a_warning_left_a_half_done_state", f"{where}: stations {occ} waiting {waiting}; present by history "
                        f"{sorted(present)} (lost {sorted(lost)}, ghost {sorted(ghost)})", **wit)

    # ---------------- plugin
    def plugin_before(_o, a, k):
        if state["in_post"] or state["depth"]:
            return None
        ev = a[0] if a else k.get("ev")
        return {"sid": ev.session_id, "free": sh.free()}

    def plugin_after(ctx, result, exc):
        if ctx is None:
            return
        obs.ev("calls:plugin")
        sid = ctx["sid"]
        if exc is not None and strict and isinstance(exc, Warning):
            half_done(f"plugin({sid}) raised {type(exc).__name__} in period {sim.iteration}", [sid])
            return
        if exc is not None and sid == sticky_sid and "must always have a station" in str(exc):
            # the user's own EV class refused to be parked without a space: the arrival failed, the caller goes on without that
            # car - it is nowhere (not connected, not waiting) and everybody else is where they were
            obs.ev("arrivals_refused_by_the_users_own_ev_class")
            refused_arrivals.add(sid)
            walk(f"after plugin({sid}) was refused by the car's own class in period {sim.iteration}")
            return
        if exc is not None:
            obs.violate("plugin_raised", f"plugin({sid}) raised {type(exc).__name__}: {exc}", **wit)
            return
        sh.arrived.add(sid)
        occ, waiting = real()
        where = [s for s, v in occ.items() if v == sid]
        if ctx["free"]:
            if len(where) == 1 and where[0] in ctx["free"]:
                sh.placed[where[0]] = sid
                obs.ev("placed_on_free_station")
                log.append((sim.iteration, "place", sid, where[0]))
            elif judge:
                obs.violate("arrival_not_placed_on_free_station", f"{sid} arrived with free stations {ctx['free']}; found on {where}, "
                            f"waiting {waiting}", **wit)
                sh.placed.update({s: sid for s in where})
                if sid in waiting:
                    sh.waiting.append(sid)
        else:
            sh.waiting.append(sid)
            obs.ev("enqueued")
            log.append((sim.iteration, "wait", sid, None))
        walk(f"after plugin({sid}) in period {sim.iteration}")

    # ---------------- unplug
    def unplug_before(_o, a, k):
        if state["in_post"]:
            return None
        state["depth"] += 1
        sid = a[1] if len(a) > 1 else k.get("session_id")
        return {"sid": sid}

    def unplug_after(ctx, result, exc):
        if ctx is None:
            return
        state["depth"] -= 1
        obs.ev("calls:unplug")
        sid = ctx["sid"]
        if exc is not None and strict and isinstance(exc, Warning):
            half_done(f"unplug(.., {sid}) raised {type(exc).__name__} in period {sim.iteration}", [sid])
            return
        if exc is not None:
            obs.violate("unplug_raised", f"unplug(.., {sid}) raised {type(exc).__name__}: {exc}", **wit)
            return
        if sid in sh.waiting:
            sh.waiting.remove(sid)
            sh.never_charged += 1
            sh.gone.add(sid)
            obs.ev("departed_while_waiting")
            log.append((sim.iteration, "left_waiting", sid, None))
        elif sh.station_of(sid) is not None:
            st = sh.station_of(sid)
            sh.placed[st] = None
            sh.gone.add(sid)
            log.append((sim.iteration, "left", sid, st))
            if sh.waiting:
                nxt = sh.waiting.pop(0)
                sh.placed[st] = nxt
                sh.swaps += 1
                obs.ev("admitted_from_queue")
                log.append((sim.iteration, "admit", nxt, st))
        elif sid in sh.early:
            obs.ev("late_unplug_of_early_leaver")
        else:
            obs.ev("unplug_of_unknown_session")
        walk(f"after unplug({sid}) in period {sim.iteration}")

    # ---------------- post_charging_update
    def post_before(_o, a, k):
        state["in_post"] = True
        occ, waiting = real()
        fc = {}
        for s, v in occ.items():
            if v is not None:
                fc[v] = fully_charged(net.get_ev(s))
        return {"occ": occ, "waiting": waiting, "fc": fc}

    def post_after(ctx, result, exc):
        state["in_post"] = False
        posts["n"] += 1
        obs.ev("calls:post_update")
        if exc is not None and strict and isinstance(exc, Warning):
            half_done(f"post_charging_update raised {type(exc).__name__} in period {sim.iteration}", [v for v, f_ in ctx["fc"].items() if f_ is not False])
            return
        if exc is not None:
            obs.violate("post_update_raised", f"{type(exc).__name__}: {exc}", **wit)
            return
        occ, waiting = real()
        before = ctx["occ"]
        leavers = [(s, v) for s, v in before.items() if v is not None and occ.get(s) != v]
        where = f"after post_charging_update in period {sim.iteration}"
        if leavers and not d["early"] and judge:
            obs.violate("early_departure_although_disabled", f"{where}: {leavers}", **wit)
        k = len(leavers)
        if judge and k:
            for s, v in leavers:
                if ctx["fc"].get(v) is False:
                    obs.violate("unsatisfied_ev_removed_early", f"{where}: {v} on {s} was not fully charged", **wit)
            if k > len(ctx["waiting"]):
                obs.violate("early_departure_without_waiter", f"{where}: {k} left, only {len(ctx['waiting'])} were waiting", **wit)
        admitted = sh.waiting[:k]
        for (s, v) in leavers:
            sh.placed[s] = None
            sh.gone.add(v)
            sh.early.add(v)
            sh.early_unplug += 1
            obs.ev("early_departures")
            log.append((sim.iteration, "early_left", v, s))
        sh.waiting = sh.waiting[k:]
        # admitted waiters take the freed stations; which one is not prescribed: read back, must be a freed station
        freed = {s for s, _ in leavers}
        for sid in admitted:
            st = [s for s in freed if occ.get(s) == sid]
            if len(st) == 1:
                sh.placed[st[0]] = sid
                freed.discard(st[0])
                sh.swaps += 1
                obs.ev("admitted_from_queue")
                log.append((sim.iteration, "admit", sid, st[0]))
            elif judge:
                obs.violate("fifo_head_not_admitted_on_early_departure", f"{where}: freed {sorted(s for s, _ in leavers)}, queue was "
                            f"{ctx['waiting']}, network now {occ} waiting {waiting}", **wit)
        if judge and d["early"] and waiting:
            stay = [v for s, v in occ.items() if v is not None and before.get(s) == v and ctx["fc"].get(v) is True]
            if stay:
                obs.violate("satisfied_ev_blocks_waiter", f"{where}: fully charged {stay} still connected while {waiting} wait", **wit)
        walk(where)
        steps["n"] += 1
        if steps["n"] > limit:
            from vlib.monitors import StepLimitExceeded
            raise StepLimitExceeded(f"{steps['n']} periods simulated, last event at {limit - 5}")

    steps = {"n": 0}
    limit = simrun.last_event_ts(d) + 5
    wraps = [Wrap(net, "plugin", before=plugin_before, after=plugin_after),
             Wrap(net, "unplug", before=unplug_before, after=unplug_after),
             Wrap(net, "post_charging_update", before=post_before, after=post_after)]
    for w in wraps:
        w.install()
    exc = None
    if d.get("hold_back"):
        # cars that are already there when the simulation begins: connected by hand through the public network.plugin(), their
        # departures queued as explicit UnplugEvents (no PluginEvent ever passes through the simulator for them)
        from acnportal.acnsim.events import UnplugEvent
        with warnings.catch_warnings():
            warnings.simplefilter("ignore")
            for e_ in evs:
                if e_.session_id in d["hold_back"]:
                    net.plugin(e_)
                    sim.event_queue.add_event(UnplugEvent(e_.departure, e_))
        if obs is not None:
            obs.ev("runs_with_cars_connected_by_hand_before_the_run")
    try:
        with warnings.catch_warnings():
            warnings.simplefilter("error" if strict else "ignore")
            for attempt in range(3):
                try:
                    sim.run()
                    break
                except ValueError as e_:
                    if sticky_sid is None or "must always have a station" not in str(e_) or attempt == 2:
                        raise
                    # (the caller catches the failure of that one arrival and continues the run)
    except Exception as e:
        exc = e
    finally:
        for w in reversed(wraps):
            w.remove()
    sim._verif_refused = refused_arrivals
    sim._verif_posts = posts["n"]
    sim._verif_evs = list(evs)
    return sim, sh, log, exc


def _xproc(case, obs):
    import json
    import os
    import subprocess
    import tempfile
    from vlib import env
    fd, path = tempfile.mkstemp(prefix="c19x_", suffix=".json", dir=os.path.join(env.VERIF, ".work"))
    with os.fdopen(fd, "w") as f:
        json.dump(case["xproc"], f)
    outs = {}
    try:
        for hs in ("1", "2", "31337"):
            e = dict(os.environ, PYTHONHASHSEED=hs, PYTHONPATH=env.VERIF + os.pathsep + env.REPO, PYTHONDONTWRITEBYTECODE="1")
            r = subprocess.run([env.PYTHON, "-m", "props.c19", "child", path], cwd=env.VERIF, env=e, capture_output=True, text=True, timeout=600)
            if r.returncode != 0:
                obs.ev("xproc_child_failed")
                obs.violate("harness:xproc_child", r.stderr[-400:]) if False else None
                return
            outs[hs] = json.loads(r.stdout.strip().splitlines()[-1])
    finally:
        try:
            os.remove(path)
        except OSError:
            pass
    obs.evals = 0
    ref = outs["1"]
    for hs, logs in outs.items():
        for i, (a, b) in enumerate(zip(ref, logs)):
            obs.evals += 1
            obs.ev("xproc_runs_compared")
            if a != b:
                j = next((j for j, (x, y) in enumerate(zip(a, b)) if x != y), min(len(a), len(b)))
                obs.violate("not_reproducible_across_processes", f"history {i}, random.seed({case['xproc'][i]['rseed']}): placement log differs between "
                            f"interpreter launches (PYTHONHASHSEED 1 vs {hs}) at entry {j}: {a[j:j + 2]} vs {b[j:j + 2]}",
                            scenario=case["xproc"][i]["desc"], rseed=case["xproc"][i]["rseed"])
                return
    obs.nontrivial()
    obs.sample = {"kind": "xproc", "histories": len(ref), "hash_seeds": list(outs), "first_log": ref[0][:8]}


def _child(path):
    import json
    from vlib import env
    env.setup_repo_path()
    from vlib.result import Obs
    logs = []
    for item in json.load(open(path)):
        o = Obs()
        sim, sh, log, exc = monitored_run(item["desc"], item["rseed"], o, judge=False)
        logs.append([list(x) for x in log] + [[repr(exc)]])
    print(json.dumps(logs))


def run_case(case, obs):
    if "xproc" in case:
        return _xproc(case, obs)
    d, rseed = case["desc"], case["rseed"]
    obs.evals = 0
    wit = dict(scenario=d, rseed=rseed)
    strict = rseed % 6 == 1
    if strict:
        d = dict(d, legacy_plugin=False, hold_back=[], sticky=None)  # (no call forms for which the library itself announces a deprecation)
        wit = dict(scenario=d, rseed=rseed, warnings_as_errors=True)
    sim, sh, log, exc = monitored_run(d, rseed, obs, strict=strict)
    obs.regime("regime:early-on" if d["early"] else "regime:early-off")
    if strict:
        obs.ev("runs_under_warnings_as_errors")
        if isinstance(exc, Warning):
            # the user's own filter ended the run (e.g. the simulator's warning about an infeasible schedule): what the network
            # calls left behind was judged where they returned or raised; the rest of the run did not happen
            obs.ev("runs_ended_by_a_warning_raised_as_error")
            return
    if exc is not None:
        obs.violate("run_raised", f"{type(exc).__name__}: {exc}", **wit)
        return
    obs.ev("runs_completed")
    net = sim.network
    left = {s: net.get_ev(s).session_id for s in net.station_ids if net.get_ev(s) is not None}
    if left or len(net.waiting_queue):
        obs.violate("not_empty_after_run", f"stations {left} waiting {list(net.waiting_queue)}", **wit)
    sids = {s["id"] for s in d["sessions"]} - set(getattr(sim, "_verif_refused", ()))
    if sh.arrived != sids or sh.gone != sids:
        obs.violate("session_never_arrived_or_never_left", f"arrived {sorted(sh.arrived)} gone {sorted(sh.gone)} expected {sorted(sids)}", **wit)
    by_hand = set(d.get("hold_back") or [])  # connected by hand before the run: never seen by the simulator as arrivals
    if set(sim.ev_history) != sids - by_hand:
        obs.violate("ev_history", f"{sorted(sim.ev_history)} vs {sorted(sids - by_hand)}", **wit)
    all_evs = dict(sim.ev_history)
    for e_ in getattr(sim, "_verif_evs", []):
        all_evs.setdefault(e_.session_id, e_)
    # a session that never got a station received no energy
    ever = {e[2] for e in log if e[1] in ("place", "admit")}
    for sid in sids - ever:
        if sid in all_evs and all_evs[sid].energy_delivered != 0:
            obs.violate("never_placed_session_got_energy", f"{sid}: {all_evs[sid].energy_delivered} kWh", **wit)
    # the end-of-period hook ran exactly once in every simulated period (early departures are decided there)
    if sim._verif_posts != sim.iteration:
        obs.violate("post_update_not_once_per_period", f"post_charging_update ran {sim._verif_posts} times in {sim.iteration} periods", **wit)
    # aggregate energy ledger: what the sessions received is what the stations recorded (whoever sat where)
    V = [s_["voltage"] for s_ in d["network"]["stations"]]
    rec = sum(float(sim.charging_rates[i, :sim.iteration].sum()) * V[i] for i in range(len(V))) * d["period"] / 60.0 / 1000.0
    got = sum(float(ev.energy_delivered) for ev in all_evs.values())
    obs.ev("energy_ledgers_checked")
    if not abs(rec - got) <= 1e-9 * max(1.0, abs(got)):
        obs.violate("energy_ledger", f"sessions received {got!r} kWh, recorded rates integrate to {rec!r} kWh", **wit)
    if net.swaps != sh.swaps:
        obs.ev("swaps_counter_differs_from_model")  # a statistic the statement does not mention: recorded only
    # regimes
    sess = d["sessions"]
    nst = len(d["network"]["stations"])
    tmax = max(s["departure"] for s in sess)
    if any(sum(1 for s in sess if s["arrival"] <= t < s["departure"]) > nst for t in range(tmax)):
        obs.regime("regime:more-sessions-than-stations")
    by_t = {}
    for t, op, sid, st in log:
        if op in ("left", "left_waiting"):
            by_t.setdefault(t, set()).add(op)
    if any(v == {"left", "left_waiting"} for v in by_t.values()):
        obs.regime("regime:simultaneous-departure-connected-and-waiting")
    admits = sum(1 for e in log if e[1] == "admit")
    if any(e[1] == "wait" for e in log) and admits:
        obs.nontrivial([obs.case_hash])
    choices = tuple(e[3] for e in log if e[1] == "place")
    obs.ev("distinct_station_choices", 1 if len(set(choices)) > 1 else 0)
    # reproducibility: same seed -> identical placement log
    o2 = type(obs)()
    sim2, sh2, log2, exc2 = monitored_run(d, rseed, o2, judge=False)
    obs.evals += 1
    obs.ev("replays_compared")
    if log2 != log or repr(exc2) != repr(exc):
        i = next((i for i, (a, b) in enumerate(zip(log, log2)) if a != b), min(len(log), len(log2)))
        obs.violate("not_reproducible_under_fixed_seed", f"placement logs diverge at entry {i}: {log[i:i + 2]} vs {log2[i:i + 2]}", **wit)
    obs.sample = {"stations": nst, "sessions": len(sess), "early_departure": d["early"], "scheduler": d["scheduler"]["kind"],
                  "rseed": rseed, "placement_log": log[:14], "never_charged": sh.never_charged, "early_unplug": sh.early_unplug}
    if rseed % 4 == 2 and not d.get("hold_back"):
        # the car park of the first run (empty again) serves a second simulation with the same sessions - a second day, a repeated
        # experiment on one network object: placement, queue, early departures and the final state are judged as in the first
        sim3, sh3, log3, exc3 = monitored_run(d, rseed + 1, obs, network=net)
        obs.ev("second_runs_on_the_network_object_of_the_first")
        w3 = dict(wit, second_run_on_the_same_network_object=True)
        if exc3 is not None:
            obs.violate("run_raised", f"second run on the same network object: {type(exc3).__name__}: {exc3}", **w3)
            return
        left = {s_: net.get_ev(s_).session_id for s_ in net.station_ids if net.get_ev(s_) is not None}
        if left or len(net.waiting_queue):
            obs.violate("not_empty_after_run", f"second run on the same network object: stations {left} waiting {list(net.waiting_queue)}", **w3)
        sids3 = {s_["id"] for s_ in d["sessions"]} - set(getattr(sim3, "_verif_refused", ()))
        if sh3.arrived != sids3 or sh3.gone != sids3:
            obs.violate("session_never_arrived_or_never_left", f"second run on the same network object: arrived {sorted(sh3.arrived)} gone "
                        f"{sorted(sh3.gone)} expected {sorted(sids3)}", **w3)


def classify(v):
    return None


if __name__ == "__main__":
    import sys
    if len(sys.argv) >= 3 and sys.argv[1] == "child":
        _child(sys.argv[2])
