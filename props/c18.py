"""C18 — analysis functions equal their first-principles definitions on the recorded trajectory."""
import math
import random
import warnings
from datetime import timedelta

import numpy as np

from vlib import build, gen, oracles, simrun

ID = "C18"
META = {
    "technique": "runtime monitoring: after each generated simulation completes, every acnsim.analysis function is called (constraint currents for random subsets, orderings and duplicates of ids, several thresholds) and its return value is compared with a recomputation from the recorded charging_rates and the case descriptor (voltages, phase angles, constraint coefficients, session energies) in plain Python complex arithmetic",
    "design_ref": "DESIGN.md section 6 C18",
    "level_text": "exploration: hundreds (quick) / tens of thousands (thorough) of completed simulations with heterogeneous voltages, arbitrary and three-phase angles, mixed-sign constraints registered in shuffled order, ~25 analysis queries per simulation; aggregate current/power, constraint currents by name, energy totals and proportions, demands met at several thresholds, NEMA unbalance incl. NaN positions, datetime array; zero-energy requests; analysis functions also called on the half-done simulator before the run is resumed; constraint ids as set / frozenset / keys view; analysis before the run",
    "level_note": "voltages, angles and coefficients come from the descriptor, not from the network object; both return_magnitudes settings are compared by magnitude (the flag's documented and actual polarity differ and the property does not speak about it); sessions whose unmet energy is within 1e-9 kWh of a threshold are not judged; delivered energy is recomputed from the recorded rates (C02 ties those to the EV counters)",
}
LEVEL = "exploration"
RULE = ("case = one completed simulation + ~25 analysis queries (each query one evaluation); non-trivial = >=2 distinct voltages or a "
        "mixed-sign/multi-angle constraint, non-zero delivered energy, and a constraint query whose requested order differs from the "
        "network order; distinct = distinct scenario descriptors")
ASSUMPTIONS = [
    "requested constraint ids exist in the network (behaviour for unknown names is not part of the statement)",
    "total requested energy > 0 (proportion undefined otherwise)",
    "tolerance rtol 1e-9 atol 1e-9; NaN must appear exactly where the mean constraint current is 0",
]
ANCHORS = [
    "acnportal.acnsim.analysis:aggregate_current",
    "acnportal.acnsim.analysis:aggregate_power",
    "acnportal.acnsim.analysis:constraint_currents",
    "acnportal.acnsim.analysis:proportion_of_energy_delivered",
    "acnportal.acnsim.analysis:total_energy_delivered",
    "acnportal.acnsim.analysis:total_energy_requested",
    "acnportal.acnsim.analysis:proportion_of_demands_met",
    "acnportal.acnsim.analysis:_nema_current_unbalance",
    "acnportal.acnsim.analysis:datetimes_array",
]
REQUIRED = ["q:constraint_ids_given_as:set", "q:constraint_ids_given_as:keys", "q:aggregate_current", "q:aggregate_power", "q:constraint_currents", "q:constraint_currents_reordered",
            "q:constraint_currents_duplicates", "q:energy", "q:demands_met", "q:demands_met_threshold_below_full_cut_discriminating", "q:unbalance", "q:unbalance_nan_positions",
            "q:datetimes", "runs_longer_than_8192_periods", "q:datetimes_partial_run", "analysis_called_mid_run_then_run_resumed", "analysis_called_before_the_run", "q:cost_under_an_explicit_tariff_other_than_the_simulations_own", "stochastic_network_runs_judged", "stochastic_runs_with_never_served_sessions", "regime:hetero-voltage", "regime:mixed-sign", "regime:constraint-free"]
BUDGET_S = {"quick": 240, "thorough": 3000}


def cases(seed, tier):
    rng = random.Random(f"C18:{seed}")
    n = 800 if tier == "quick" else 20000
    out = []
    for i in range(n):
        r = rng.random()
        if r < 0.45:
            d = gen.scenario(rng, sched="scripted", noise_p=0.2, nmax=8, constraint_free_p=0.08, mode="full" if rng.random() < 0.5 else "random")
        elif r < 0.75:
            d = gen.scenario(rng, sched="uncontrolled", noise_p=0.2, nmax=8, constraint_free_p=0.08)
        else:
            d = gen.scenario(rng, sched="sorted", kinds=("EVSE", "FR"), noise_p=0.2, nmax=8, constraint_free_p=0.08, est=None)
        # constraints registered in a shuffled order so that network order != alphabetical / descriptor-sorted order
        rng.shuffle(d["network"]["constraints"])
        out.append({"desc": d, "qseed": rng.randrange(1 << 30)})
    # networks that assign spaces at run time, more cars than spaces (some sessions never get one)
    for i in range(n // 10):
        d = gen.scenario(rng, sched=rng.choice(["uncontrolled", "scripted"]), kinds=("EVSE", "FR"), nmax=3, sess_max=2, noise_p=0.0, inf_evse_p=0.0,
                         mode="full", mr=1)
        ids_ = [s_["id"] for s_ in d["network"]["stations"]]
        sess_ = []
        for k in range(rng.randint(len(ids_) + 1, len(ids_) + 6)):
            a = rng.randint(0, 6)
            req = rng.choice([0.3, 3, 25])
            sess_.append({"id": f"q{k}", "station": rng.choice(ids_), "arrival": a, "departure": a + rng.randint(1, 6), "requested": req,
                          "est_dep": a + 3, "battery": gen.rand_battery(rng, req, ("ideal",))})
        d["sessions"], d["recompute"] = sess_, []
        out.append({"desc": d, "qseed": rng.randrange(1 << 30), "stochastic": True, "early": rng.random() < 0.4})
    # very long trajectories (a month of 5-minute periods and more): sessions charging near the end as well
    for _ in range(1 if tier == "quick" else 6):
        d = gen.scenario(rng, sched="scripted", nmax=4, sess_max=5, constraint_free_p=0.0, mr=1, max_len=1, p_empty=0.0, p_st=1.0, mode="full",
                         kinds=("EVSE",), big=True)
        H = rng.choice([8200, 8928, 16500])
        off, keep = {}, []
        for k, s_ in enumerate(sorted(d["sessions"], key=lambda x: (x["station"], x["arrival"]))):
            base = off.get(s_["station"], rng.choice([0, H // 3]))
            a = base + rng.randint(0, 40)
            if a >= H - 50:
                continue  # this station is busy until the end already
            s_["arrival"] = a
            s_["departure"] = s_["est_dep"] = min(H, a + rng.randint(H // 3, H // 2))
            off[s_["station"]] = s_["departure"]
            keep.append(s_)
        d["sessions"] = keep
        last = max(d["sessions"], key=lambda x: x["departure"])
        last["departure"] = last["est_dep"] = H
        d["recompute"] = []
        out.append({"desc": d, "qseed": rng.randrange(1 << 30), "long": True})
    return out


def close(a, b):
    a, b = np.asarray(a, dtype=float), np.asarray(b, dtype=float)
    return a.shape == b.shape and bool(np.all(np.isclose(a, b, rtol=1e-9, atol=1e-9, equal_nan=True))) and \
        bool(np.array_equal(np.isnan(a), np.isnan(b)))


def _run_stochastic(case, obs):
    """Completed simulation on the contrib StochasticNetwork with more cars than spaces (some never get a space): energy totals,
    proportion, aggregates and the datetime array against the recorded trajectory and the descriptor's requests."""
    import acnportal.acnsim as acnsim
    from acnportal.contrib.acnsim.network import StochasticNetwork
    d = case["desc"]
    random.seed(case["qseed"])
    sim, evs, probe = simrun.run_traced(d, snapshots=False, net_cls=StochasticNetwork, net_kw={"early_departure": bool(case.get("early"))})
    if probe.exception is not None:
        obs.ev("run_raised_not_judged")
        return
    obs.ev("stochastic_network_runs_judged")
    if getattr(sim.network, "never_charged", 0):
        obs.ev("stochastic_runs_with_never_served_sessions")
    V = [s["voltage"] for s in d["network"]["stations"]]
    R = np.array(sim.charging_rates, dtype=float)
    T, n, period = R.shape[1], R.shape[0], d["period"]
    wit = dict(scenario=d, stochastic=True)
    pw = [math.fsum(V[i] * R[i][t] for i in range(n)) / 1000.0 for t in range(T)]
    tot_r = math.fsum(s["requested"] for s in d["sessions"])
    tot_d = math.fsum(pw) * period / 60.0
    with warnings.catch_warnings():
        warnings.simplefilter("ignore")
        checks = [("aggregate_power", acnsim.aggregate_power(sim), pw),
                  ("aggregate_current", acnsim.aggregate_current(sim), [math.fsum(R[i][t] for i in range(n)) for t in range(T)]),
                  ("total_energy_requested", acnsim.total_energy_requested(sim), tot_r),
                  ("total_energy_delivered", acnsim.total_energy_delivered(sim), tot_d),
                  ("proportion_of_energy_delivered", acnsim.proportion_of_energy_delivered(sim), tot_d / tot_r)]
        for th in (0.1, 0.5):
            met = sum(1 for s in d["sessions"] if s["requested"] - sim.ev_history[s["id"]].energy_delivered < th) / len(d["sessions"])
            checks.append((f"proportion_of_demands_met({th})", acnsim.proportion_of_demands_met(sim, threshold=th), met))
    for nm, got, exp in checks:
        obs.evals += 1
        obs.ev("q:stochastic:" + nm.split("(")[0])
        if not close(got, exp):
            obs.violate("analysis:" + nm.split("(")[0], f"stochastic network: {nm}: got {np.asarray(got, dtype=float).ravel()[:5].tolist()} expected "
                        f"{np.asarray(exp, dtype=float).ravel()[:5].tolist()}", **wit)
    obs.nontrivial()
    obs.sample = {"kind": "stochastic", "stations": n, "sessions": len(d["sessions"]), "never_charged": getattr(sim.network, "never_charged", None)}


def run_case(case, obs):
    import acnportal.acnsim as acnsim
    if case.get("stochastic"):
        return _run_stochastic(case, obs)
    d = case["desc"]
    rng = random.Random(case["qseed"])
    if rng.random() < 0.25 and not case.get("long"):
        # the analysis functions are also called on the half-done simulator (after a scheduler exception in period k), their
        # results are scribbled over by the client, the run is resumed to completion and everything is judged on the final state
        from vlib.monitors import SimProbe
        sim, evs = build.build_sim(d)
        probe = SimProbe(sim, snapshots=False)
        probe.attach()
        orig_run = sim.scheduler.run
        st_ = {"fired": False, "k": rng.randint(1, max(1, simrun.last_event_ts(d)))}

        class _Pause(Exception):
            pass

        def flaky():
            if not st_["fired"] and sim.iteration >= st_["k"]:
                st_["fired"] = True
                raise _Pause()
            return orig_run()

        sim.scheduler.run = flaky
        if rng.random() < 0.5:
            # ... and on the simulator that has not run at all yet (a dashboard drawn before the start)
            obs.ev("analysis_called_before_the_run")
            with warnings.catch_warnings():
                warnings.simplefilter("ignore")
                for fn in (acnsim.aggregate_current, acnsim.aggregate_power, acnsim.constraint_currents, acnsim.datetimes_array,
                           acnsim.total_energy_delivered, acnsim.total_energy_requested, acnsim.proportion_of_energy_delivered,
                           acnsim.proportion_of_demands_met):
                    try:
                        r_ = fn(sim)
                        if isinstance(r_, np.ndarray) and r_.dtype.kind == "f":
                            r_[...] = -4.25
                        elif isinstance(r_, dict):
                            for v_ in r_.values():
                                if isinstance(v_, np.ndarray):
                                    v_[...] = -4.25
                    except Exception:
                        pass
        probe.run()
        if st_["fired"] and isinstance(probe.exception, _Pause):
            obs.ev("analysis_called_mid_run_then_run_resumed")
            with warnings.catch_warnings():
                warnings.simplefilter("ignore")
                for fn in (acnsim.aggregate_current, acnsim.aggregate_power, acnsim.constraint_currents, acnsim.datetimes_array,
                           acnsim.total_energy_delivered, acnsim.total_energy_requested, acnsim.proportion_of_energy_delivered,
                           acnsim.proportion_of_demands_met):
                    try:
                        r_ = fn(sim)
                        if isinstance(r_, np.ndarray) and r_.dtype.kind == "f":
                            r_[...] = -4.25
                        elif isinstance(r_, dict):
                            for v_ in r_.values():
                                if isinstance(v_, np.ndarray):
                                    v_[...] = -4.25
                    except Exception:
                        pass
            sim.scheduler.run = orig_run
            probe.run()
        probe.detach()
    else:
        sim, evs, probe = simrun.run_traced(d, snapshots=False)
    if probe.exception is not None:
        obs.ev("run_raised_not_judged")
        return
    if case["qseed"] % 4 == 0:
        from vlib.monitors import poke
        poke(sim, sim.network)
        poke(sim.network, build.build_network(d["network"]))
        for e_ in list(sim.ev_history.values())[:3]:
            poke(e_, sim)
        obs.ev("objects_printed_compared_hashed_before_analysis")
    ids, A, L, angles, names = oracles.dense_rows(d["network"])
    # the simulator's rows are in registration order == descriptor order (build_network)
    if list(sim.network.station_ids) != ids:
        # the row order of the recorded matrices is the network's business (C12): the oracle below is written for registration
        # order, so such a run is not judged here
        obs.ev("runs_whose_station_order_differs_from_registration_order_not_judged")
        return
    V = [s["voltage"] for s in d["network"]["stations"]]
    R = np.array(sim.charging_rates, dtype=float)
    T = R.shape[1]
    n = len(ids)
    period = d["period"]
    obs.evals = 0
    wit = dict(scenario=d)

    def judge(qname, got, exp, **extra):
        obs.evals += 1
        obs.ev("q:" + qname)
        try:
            ok = close(got, exp)
        except Exception as e:  # wrong type/shape
            ok = False
            extra["compare_error"] = repr(e)
        if not ok:
            g = np.asarray(got, dtype=float).ravel()[:6].tolist() if not isinstance(got, dict) else got
            obs.violate("analysis:" + qname, f"{qname}: got {g} expected {np.asarray(exp, dtype=float).ravel()[:6].tolist()}", **extra, **wit)

    with warnings.catch_warnings():
        warnings.simplefilter("ignore")
        # ---- aggregates
        judge("aggregate_current", acnsim.aggregate_current(sim), [math.fsum(R[i][t] for i in range(n)) for t in range(T)])
        pw = [math.fsum(V[i] * R[i][t] for i in range(n)) / 1000.0 for t in range(T)]
        judge("aggregate_power", acnsim.aggregate_power(sim), pw)

        # ---- constraint currents
        def ref_mag(name):
            row = A[names.index(name)]
            return [abs(oracles.phasor_current(row, angles, [R[i][t] for i in range(n)])) for t in range(T)]

        if not names:
            obs.regime("regime:constraint-free")
            try:
                got = acnsim.constraint_currents(sim)
                obs.evals += 1
                obs.ev("q:constraint_currents_constraint_free")
                if dict(got) != {}:
                    obs.violate("analysis:constraint_currents", f"constraint-free network returned {got}", **wit)
            except Exception as e:
                obs.evals += 1
                obs.violate("analysis:constraint_currents_constraint_free_raises", f"constraint_currents on a network without constraints raised {type(e).__name__}: {e}", **wit)
        else:
            reqs = [None, list(names), list(reversed(names))]
            for _ in range(4):
                sub = rng.sample(names, rng.randint(1, len(names)))
                if rng.random() < 0.35:
                    sub = sub + [rng.choice(sub)]
                rng.shuffle(sub)
                reqs.append(sub)
            reordered = False
            for req in reqs:
                for rm in (False, True):
                    try:
                        # the ids in whatever container the caller holds them: a list, a tuple, a set / frozenset, the keys view of
                        # a dict of limits (membership is all the function needs of it)
                        form_ = rng.choice(["list", "list", "tuple", "set", "frozenset", "keys"])
                        ids_arg = None if req is None else {"list": list, "tuple": tuple, "set": set, "frozenset": frozenset,
                                                             "keys": lambda r_: {k_: 1.0 for k_ in r_}.keys()}[form_](req)
                        if req is not None:
                            obs.ev("q:constraint_ids_given_as:" + form_)
                        got = acnsim.constraint_currents(sim, return_magnitudes=rm, constraint_ids=ids_arg)
                    except Exception as e:
                        obs.evals += 1
                        obs.violate("analysis:constraint_currents_raises", f"ids={req} return_magnitudes={rm}: {type(e).__name__}: {e}", **wit)
                        continue
                    want = set(names if req is None else req)
                    obs.ev("q:constraint_currents_keysets")
                    if set(got) != want:
                        obs.evals += 1
                        obs.violate("analysis:constraint_currents_keys", f"requested {req}, got keys {sorted(got)}", **wit)
                        continue
                    for nm in got:
                        judge("constraint_currents", np.abs(np.asarray(got[nm])), ref_mag(nm), constraint=nm, requested=req, return_magnitudes=rm)
                    if req is not None:
                        net_order = [x for x in names if x in req]
                        dedup = list(dict.fromkeys(req))
                        if dedup != net_order:
                            obs.ev("q:constraint_currents_reordered")
                            reordered = True
                        if len(req) != len(set(req)):
                            obs.ev("q:constraint_currents_duplicates")
            # ---- NEMA unbalance for three requested names (repetition allowed when fewer exist)
            ph = [rng.choice(names) for _ in range(3)] if len(names) < 3 else rng.sample(names, 3)
            mags = np.array([ref_mag(p) for p in ph])
            with np.errstate(all="ignore"):
                mean = mags.mean(axis=0)
                exp = (mags.max(axis=0) - mean) / mean
            # where the three magnitudes are nothing but rounding residue of currents that cancel (mean below 1e-9 of what the
            # stations carry), the ratio is noise in any implementation: those periods are not compared
            carried = np.array([max(math.fsum(abs(A[names.index(p)][i]) * abs(R[i][t]) for i in range(n)) for p in ph) for t in range(T)])
            # (a sum that cancels to exactly 0 in one evaluation order is a few 1e-17 in another: NaN here, 0 there)
            noise = (carried > 0) & (mean < 1e-9 * carried)
            try:
                how = rng.random()
                if how < 0.6:
                    got = acnsim.current_unbalance(sim, ph)
                elif how < 0.8:
                    got = acnsim.current_unbalance(sim, list(ph), unbalance_type="NEMA")
                else:
                    import warnings as _w
                    with _w.catch_warnings():
                        _w.simplefilter("ignore")
                        got = acnsim.current_unbalance(sim, ph, type="NEMA")  # deprecated spelling of the same argument
                if noise.any():
                    obs.ev("q:unbalance_periods_of_pure_rounding_residue_skipped", int(noise.sum()))
                    got = np.where(noise, 0.0, np.asarray(got, dtype=float)) if np.shape(got) == np.shape(exp) else got
                    exp = np.where(noise, 0.0, exp)
                judge("unbalance", got, exp, phases=ph)
                if np.any(np.isnan(exp)):
                    obs.ev("q:unbalance_nan_positions")
            except Exception as e:
                obs.evals += 1
                obs.violate("analysis:unbalance_raises", f"{ph}: {type(e).__name__}: {e}", **wit)
            if any(v < 0 for row in A for v in row):
                obs.regime("regime:mixed-sign")

        # ---- energies: recomputed from the recorded rates and the descriptor
        sess = d["sessions"]
        deliv = {}
        for s in sess:
            i = ids.index(s["station"])
            deliv[s["id"]] = math.fsum(R[i][t] for t in range(s["arrival"], min(s["departure"], T))) * V[i] * period / 60.0 / 1000.0
        tot_d, tot_r = math.fsum(deliv.values()), math.fsum(s["requested"] for s in sess)
        judge("energy", acnsim.total_energy_delivered(sim), tot_d, which="total_energy_delivered")
        judge("energy", acnsim.total_energy_requested(sim), tot_r, which="total_energy_requested")
        judge("energy", acnsim.proportion_of_energy_delivered(sim), tot_d / tot_r, which="proportion_of_energy_delivered")
        for th in (0.1, 1e-3, 1.0, rng.choice([0.05, 0.5, 2.0, 7.5]), 0.0, rng.choice([5e-4, 1e-4, -1e-9, -0.5, 2e-3])):
            rem = [s["requested"] - deliv[s["id"]] for s in sess]
            if any(abs(r_ - th) <= 1e-9 * max(1.0, s["requested"]) for r_, s in zip(rem, sess)):
                obs.boundary += 1
                continue
            judge("demands_met", acnsim.proportion_of_demands_met(sim, th), sum(1 for r_ in rem if r_ < th) / len(sess), threshold=th)
            if th <= 1e-3 and any(th <= r_ <= 1e-3 for r_ in rem):
                obs.ev("q:demands_met_threshold_below_full_cut_discriminating")
        obs.ev("q:demands_met_default")
        rem = [s["requested"] - deliv[s["id"]] for s in sess]
        if not any(abs(r_ - 0.1) <= 1e-9 * max(1.0, s["requested"]) for r_, s in zip(rem, sess)):
            judge("demands_met", acnsim.proportion_of_demands_met(sim), sum(1 for r_ in rem if r_ < 0.1) / len(sess), threshold="default")

        # ---- datetimes
        da = acnsim.datetimes_array(sim)
        start = build.start_of(d)
        obs.evals += 1
        obs.ev("q:datetimes")
        exp_da = [np.datetime64(start + timedelta(minutes=period * i)) for i in range(sim.iteration)]
        if len(da) != sim.iteration or any(a != b for a, b in zip(da, exp_da)):
            obs.violate("analysis:datetimes", f"len {len(da)} vs iteration {sim.iteration}; first {list(da[:3])} expected {exp_da[:3]}", **wit)

        # ---- datetimes on a partially simulated run (scheduler raised in period k): one entry per *simulated* period
        if sim.iteration >= 3 and rng.random() < 0.3:
            k = rng.randint(1, sim.iteration - 1)
            sim2, _ = build.build_sim(d)
            orig = sim2.scheduler.run

            class _Stop(Exception):
                pass

            def flaky():
                if sim2.iteration >= k:
                    raise _Stop()
                return orig()

            sim2.scheduler.run = flaky
            try:
                sim2.run()
            except _Stop:
                pass
            da2 = acnsim.datetimes_array(sim2)
            obs.evals += 1
            obs.ev("q:datetimes_partial_run")
            exp2 = [np.datetime64(start + timedelta(minutes=period * i)) for i in range(sim2.iteration)]
            if len(da2) != sim2.iteration or any(a != b for a, b in zip(da2, exp2)):
                obs.violate("analysis:datetimes_partial", f"run stopped in period {k}: len {len(da2)} vs iteration {sim2.iteration}", **wit)

    # ---- cost functions: the tariff passed explicitly is the one that prices the run, whatever tariff the simulation carries in
    # its own signals (what-if costing)
    if case["qseed"] % 6 == 0 and not case.get("long") and sim.iteration <= 400:
        from props import c17 as _c17
        names_ = list(_c17.FILES)
        rng.shuffle(names_)
        t_sig, _ = _c17._load(names_[0])
        t_exp, o_exp = _c17._load(names_[1])
        keep_sig = sim.signals
        sim.signals = {"tariff": t_sig}
        try:
            pw_ = [math.fsum(V[i] * R[i][t] for i in range(n)) / 1000.0 for t in range(T)]
            pr_ = [o_exp.lookup(start + timedelta(minutes=period) * k)[0] for k in range(T)]
            exp_cost = math.fsum(p_ * w_ for p_, w_ in zip(pr_, pw_)) * (period / 60.0)
            exp_dc = o_exp.lookup(start)[1] * max(pw_)
            dc_rates_ = {o_exp.lookup(start + timedelta(minutes=period) * k)[1] for k in range(T)}  # (C17: which instant's rate bills the peak)
            got_c, got_d = acnsim.energy_cost(sim, tariff=t_exp), acnsim.demand_charge(sim, tariff=t_exp)
            obs.evals += 1
            obs.ev("q:cost_under_an_explicit_tariff_other_than_the_simulations_own")
            if not abs(got_c - exp_cost) <= 1e-9 * max(1.0, abs(exp_cost)):
                obs.violate("analysis:energy_cost", f"energy_cost(sim, tariff={names_[1]}) = {got_c!r}, sum(price x power x dt) = {exp_cost!r} "
                            f"(the simulation's own signals carry {names_[0]})", **wit)
            if not any(abs(got_d - r_ * max(pw_)) <= 1e-9 * max(1.0, abs(r_ * max(pw_))) for r_ in dc_rates_):
                obs.violate("analysis:demand_charge", f"demand_charge(sim, tariff={names_[1]}) = {got_d!r}, expected {exp_dc!r}", **wit)
        except LookupError:
            pass
        finally:
            sim.signals = keep_sig
    if case.get("long"):
        obs.ev("runs_longer_than_8192_periods" if sim.iteration > 8192 else "long_runs")
    hetero = len(set(V)) > 1
    if hetero:
        obs.regime("regime:hetero-voltage")
    multi = any(len({angles[i] for i, v in enumerate(row) if v}) > 1 or any(v < 0 for v in row) for row in A)
    if (hetero or multi) and tot_d > 0 and names and reordered:
        obs.nontrivial()
    obs.sample = {"stations": n, "constraints": names, "sessions": len(sess), "periods": sim.iteration, "voltages": V,
                  "total_delivered_kwh": tot_d, "queries": obs.evals}


def classify(v):
    return None
