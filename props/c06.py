"""C06 — feasibility = phasor definition; three checkers agree; linear conservative;
constraint-free networks accept everything and are usable by schedulers."""
import random
from datetime import datetime

import numpy as np

from vlib import build, gen, oracles

ID = "C06"
META = {
    "technique": "runtime monitoring: return values of the three feasibility checkers compared against an independent phasor oracle on boundary-scaled schedules",
    "design_ref": "DESIGN.md section 6 C06",
    "level_text": "exploration: every generated (network, tolerances, schedule) triple is judged by an independent complex-arithmetic oracle in phasor and linear mode, with schedules scaled to k*tolerance of the binding limit; checker agreement and linear conservativeness asserted on the same inputs; constraint-free networks driven through real simulations; schedules of 257-8200 periods with the one decisive column at every seam position (first, last, around powers of two and multiples of 100/128/250/1000); schedules in which every station discharges; schedules as non-dict mappings; a malformed candidate with tolerances of its own before the judged calls",
    "level_note": "oracle uses float64 with compensated sums and a guard band 1e-11*(1+L) (cases inside are counted, not judged); the algorithm-side checker is compared only with explicit tolerances (its defaults are hard-coded)",
}
LEVEL = "exploration"
RULE = ("case = network (1-12 stations, 0-8 mixed-sign constraints, arbitrary angles, tolerances) x direction matrix "
        "(1-6 periods) x margin factor k; each case evaluates all three checkers in both modes; non-trivial = >=2 "
        "constraints, mixed signs or >=2 distinct angles, and oracle margin within 2.5 tolerance scales of a limit; "
        "distinct = distinct case descriptors")
ASSUMPTIONS = [
    "coefficients from {+-1,+-0.5,+-0.25} and reals in [-2,2]; limits in [1,500] A; angles arbitrary degrees",
    "schedules finite; negative entries only used for the agreement/phasor clauses (conservativeness is stated for non-negative schedules)",
    "guard band 1e-11*(1+max limit): verdicts inside it are not judged",
]
ANCHORS = [
    "acnportal.acnsim.network.charging_network:ChargingNetwork.is_feasible",
    "acnportal.acnsim.network.charging_network:ChargingNetwork.constraint_current",
    "acnportal.acnsim.interface:Interface.is_feasible",
    "acnportal.acnsim.interface:Interface._infrastructure_info",
    "acnportal.algorithms.utils:infrastructure_constraints_feasible",
]
REQUIRED = ["schedules_given_as_a_mapping_other_than_dict", "schedules_containing_nan_judged", "malformed_candidates_with_tolerances_of_their_own_refused_before_judging", "schedules_in_which_every_station_discharges", "history_op:update_with_a_current_derived_from_the_registered_object", "schedules_whose_currents_cancel_across_stations", "schedules_of_over_1000_periods", "decisive_column_positions_judged", "integer_row_first_in_mapping", "explicit_tolerances_differ_from_network", "explicit_zero_tolerance_on_tolerant_network", "phasor_judged", "linear_judged", "near_boundary_judged", "constraint_free_sim_runs", "history_rejudged",
            "history_op:remove_not_last", "history_op:update", "history_op:update_rename", "history_op:add",
            "regime:phasor-accept", "regime:phasor-reject", "regime:linear-accept", "regime:linear-reject",
            "regime:T>1", "regime:mixed-sign"]
BUDGET_S = {"quick": 200, "thorough": 2400}
COEFS = [1, -1, 0.5, -0.5, 0.25, -0.25]
KS = [-2, -0.5, 0.5, 2, -1e4, 1e4, -30, 30]


def _net(rng, free=False):
    n = rng.randint(1, 12)
    angs = [rng.choice([0, 30, -90, 150, round(rng.uniform(-180, 180), 2)]) for _ in range(n)]
    if rng.random() < 0.2:
        angs = [angs[0]] * n
    stations = [{"id": f"s{i}", "evse": {"t": "EVSE", "max": 1e6, "min": 0}, "voltage": rng.choice([120, 208, 240]),
                 "phase": a} for i, a in enumerate(angs)]
    rng.shuffle(stations)
    ids = [s["id"] for s in stations]
    cons = []
    if not free:
        for j in range(rng.randint(1, 8)):
            sub = rng.sample(ids, rng.randint(1, n))
            co = {s: (rng.choice(COEFS) if rng.random() < 0.7 else (round(rng.uniform(-2, 2), 3) or 1.0)) for s in sub}
            if rng.random() < 0.3:
                co = {s: abs(v) for s, v in co.items()}
            cons.append({"name": f"c{j}", "coeffs": co, "limit": round(rng.uniform(1, 500), 3)})
    tol = [rng.choice([0, 1e-7, 1e-5, 1e-3]), rng.choice([0, 1e-7, 1e-4])]
    return {"stations": stations, "constraints": cons, "tol": tol}


def cases(seed, tier):
    rng = random.Random(f"C06:{seed}")
    n = 5000 if tier == "quick" else 120000
    out = []
    # corpus: regime-complete by construction
    out.append({"kind": "witness_e"})
    out.append({"kind": "witness_f"})
    for i in range(12 if tier == "quick" else 200):
        out.append({"kind": "free", "seed": rng.randrange(1 << 30), "sched": rng.choice(["uncontrolled", "sorted", "scripted"])})
    for i in range(n):
        nd = _net(rng)
        T = rng.choice([1, 1, 2, 3, 6])
        ns = len(nd["stations"])
        D = [[(round(rng.random(), 4) if rng.random() < 0.8 else 0.0) for _ in range(T)] for _ in range(ns)]
        if not any(any(r) for r in D):
            D[0][0] = 1.0
        if ns >= 2 and rng.random() < 0.35:
            z = rng.randrange(ns)
            if any(any(r) for i_, r in enumerate(D) if i_ != z):
                D[z] = [0.0] * T
        neg = rng.random() < 0.1
        if neg:
            D = [[-x if rng.random() < 0.3 else x for x in r] for r in D]
        if rng.random() < 0.05:
            # every station discharges (vehicle-to-grid): the aggregate is negative, its MAGNITUDE is what the limit bounds
            D = [[-abs(x) for x in r] for r in D]
            neg = "discharge"
        if ns >= 2 and rng.random() < 0.12:
            # bidirectional schedules whose station currents cancel exactly in every period (+x on one station, -x on another,
            # the rest idle): the plain sum of the column is 0, the phase-aware weighted sum in general is not
            D = [[0.0] * T for _ in range(ns)]
            for t_ in range(T):
                a_, b_ = rng.sample(range(ns), 2)
                v_ = round(rng.uniform(0.2, 1.0), 3)
                D[a_][t_], D[b_][t_] = v_, -v_
            neg = "cancel"
        if rng.random() < 0.3:
            # the network is built with one pair of tolerances, every call passes another pair explicitly (zeros included)
            nd["built_tol"] = [rng.choice([1e-5, 1e-3, 1e-2]), rng.choice([1e-7, 1e-4, 1e-3])]
            if rng.random() < 0.6:
                nd["tol"] = [rng.choice([0, 0, 1e-7]), rng.choice([0, 0, 1e-7])]
        out.append({"kind": "feas", "net": nd, "D": D, "k": rng.choice(KS), "mode": rng.choice(["phasor", "linear"]), "cancel": neg == "cancel", "discharge": neg == "discharge",
                    "omit": rng.random() < 0.3, "oseed": rng.randrange(1 << 30), "use_defaults": rng.random() < 0.25})
        if i % (100 if tier == "quick" else 40) == 0:
            # schedules of hundreds to thousands of periods, almost idle, with the one decisive column anywhere: first, last, in
            # the middle, and on either side of every block seam a vectorised implementation might use (powers of two, hundreds)
            Tl = rng.choice([257, 300, 513, 1000, 1025, 1500, 2049, 2500, 4100, 8200])
            seams = sorted({x + dx for m in range(5, 14) for x in (2 ** m,) for dx in (-1, 0, 1)} |
                           {x + dx for x in range(100, Tl, rng.choice([100, 128, 250, 256, 1000])) for dx in (-1, 0)} | {0, 1, Tl - 1, Tl - 2, Tl // 2})
            seams = [x for x in seams if 0 <= x < Tl]
            out.append({"kind": "feas_long", "net": _net(rng), "T": Tl, "seed": rng.randrange(1 << 30), "k": rng.choice(KS),
                        "mode": rng.choice(["phasor", "linear"]), "hot": rng.choice(seams)})
        if i % 6 == 0:
            nd2 = _net(rng)
            T2 = rng.choice([1, 2, 3])
            D2 = [[round(rng.random(), 4) for _ in range(T2)] for _ in nd2["stations"]]
            out.append({"kind": "hist", "net": nd2, "D": D2, "steps": rng.randint(1, 4), "oseed": rng.randrange(1 << 30)})
    return out


def _iface(net):
    from acnportal.acnsim import Simulator
    from acnportal.acnsim.events import EventQueue
    from acnportal.acnsim.interface import Interface
    from acnportal.algorithms import UncontrolledCharging
    sim = Simulator(net, UncontrolledCharging(), EventQueue(), datetime(2020, 1, 1), verbose=False)
    return Interface(sim)


def _scale(nd, D, k, mode):
    """Scale direction D so that the oracle margin of the binding (constraint, period) is ~k tolerance scales."""
    ids, A, L, ang, _ = oracles.dense_rows(nd)
    at, rt = nd["tol"]
    best = None
    T = len(D[0])
    for j, row in enumerate(A):
        for t in range(T):
            col = [D[i][t] for i in range(len(D))]
            v = oracles.linear_current(row, col) if mode == "linear" else abs(oracles.phasor_current(row, ang, col))
            if v > 1e-9:
                bound = L[j] + oracles.feas_tol(L[j], at, rt)
                ts = max(oracles.feas_tol(L[j], at, rt), 1e-7)
                alpha = (bound + k * ts) / v
                if best is None or (bound / v) < best[0]:
                    best = (bound / v, alpha, ts)
    if best is None:
        return 1.0, 1e-7
    return max(best[1], 0.0), best[2]


def run_case(case, obs):
    kind = case["kind"]
    if kind == "feas_long":
        return _run_long(case, obs)
    if kind == "feas":
        return _run_feas(case, obs)
    if kind == "free":
        return _run_free(case, obs)
    if kind == "hist":
        return _run_hist(case, obs)
    if kind == "witness_e":
        nd = {"stations": [{"id": "a", "evse": {"t": "EVSE", "max": 100, "min": 0}, "voltage": 208, "phase": 0},
                           {"id": "b", "evse": {"t": "EVSE", "max": 100, "min": 0}, "voltage": 208, "phase": 180}],
              "constraints": [{"name": "c", "coeffs": {"a": 1, "b": -1}, "limit": 10}], "tol": [1e-5, 1e-7]}
        return _judge(nd, [[20.0], [20.0]], obs, tag="witness_e")
    if kind == "witness_f":
        nd = {"stations": [{"id": "a", "evse": {"t": "EVSE", "max": 100, "min": 0}, "voltage": 208, "phase": 0},
                           {"id": "b", "evse": {"t": "EVSE", "max": 100, "min": 0}, "voltage": 208, "phase": 0}],
              "constraints": [{"name": "c", "coeffs": {"a": 1, "b": 1}, "limit": 10}], "tol": [1e-5, 1e-7]}
        return _judge(nd, [[4.0, 4.0], [4.0, 4.0]], obs, tag="witness_f")


def _run_feas(case, obs):
    nd, D = case["net"], case["D"]
    if case.get("discharge"):
        obs.ev("schedules_in_which_every_station_discharges")
    if case.get("cancel"):
        obs.ev("schedules_whose_currents_cancel_across_stations")
    alpha, ts = _scale(nd, D, case["k"], case["mode"])
    S = [[x * alpha for x in r] for r in D]
    _judge(nd, S, obs, ts=ts, omit=case["omit"], oseed=case["oseed"], use_defaults=case["use_defaults"], k=case["k"])


def _run_long(case, obs):
    """One direction scaled to k tolerance scales beyond/inside its tightest limit, placed as the single decisive column of an
    otherwise almost idle schedule of T periods - at EVERY seam position in turn (first, last, middle, both sides of powers of
    two and of multiples of 100/128/250/256/1000). The oracle's verdict does not depend on the position."""
    from acnportal.algorithms.utils import infrastructure_constraints_feasible as icf
    nd, T = case["net"], case["T"]
    r2 = random.Random(case["seed"])
    ids, A, L, ang, names = oracles.dense_rows(nd)
    ns = len(ids)
    at, rt = nd["tol"]
    hotdir = [round(r2.random(), 4) if r2.random() < 0.8 else 0.0 for _ in range(ns)]
    if not any(hotdir):
        hotdir[0] = 1.0
    net = build.build_network(nd)
    iface = _iface(net)
    info = iface.infrastructure_info()
    seams = sorted({x + dx for m in range(4, 14) for x in (2 ** m,) for dx in (-1, 0, 1)} |
                   {x + dx for step in (100, 128, 250, 1000) for x in range(step, T, step) for dx in (-1, 0)} | {0, 1, T - 1, T - 2, T // 2})
    seams = [x for x in seams if 0 <= x < T]
    if len(seams) > 70:
        seams = sorted(set(r2.sample(seams, 60)) | {0, T - 1, T - 2} | {x for x in seams if x + 1 in (256, 512, 1024, 2048, 4096, 8192)})
    obs.ev("schedules_of_over_1000_periods" if T > 1000 else "schedules_of_hundreds_of_periods")
    g = oracles.guard(L)
    for linear in (False, True):
        mode = "linear" if linear else "phasor"
        alpha, ts = _scale(nd, [[x] for x in hotdir], case["k"], mode)
        hot = [x * alpha for x in hotdir]
        base = [0.01 * x for x in hot]
        m = max(oracles.margins(A, L, ang, [[x] for x in hot], at, rt, linear=linear)[0],
                oracles.margins(A, L, ang, [[x] for x in base], at, rt, linear=linear)[0])
        if abs(m) <= g:
            obs.boundary += 1
            continue
        exp = m <= 0
        Sm = np.zeros((ns, T))
        Sm[:, ::97] = np.array(base)[:, None]
        for n_, p in enumerate(seams):
            keep = Sm[:, p].copy()
            Sm[:, p] = hot
            r_net = bool(net.is_feasible(Sm, linear=linear, violation_tolerance=at, relative_tolerance=rt))
            r_alg = bool(icf(Sm, info, linear, at, rt))
            r_if = None
            if n_ % 8 == 0 or p >= T - 2:
                r_if = bool(iface.is_feasible({i: Sm[r] for r, i in enumerate(ids)}, linear=linear, violation_tolerance=at, relative_tolerance=rt))
            Sm[:, p] = keep
            obs.ev("decisive_column_positions_judged")
            obs.evals += 1
            for nm, got in (("network", r_net), ("interface", r_if), ("algorithm", r_alg)):
                if got is not None and got != exp:
                    obs.violate(f"{mode}_{nm}_vs_oracle", f"{nm} says {got} for a schedule of {T} periods whose only decisive column is period {p}; "
                                f"oracle margin {m!r}", network=nd, periods=T, decisive_period=p, column=hot, mode=mode, atol=at, rtol=rt)
                    return
    if len(A) >= 2:
        obs.nontrivial()
    obs.sample = {"kind": "long", "stations": ns, "constraints": len(A), "periods": T, "positions": len(seams)}


def _judge(nd, S, obs, ts=1e-7, omit=False, oseed=0, use_defaults=False, tag=None, k=None, net=None, iface=None):
    from acnportal.algorithms.utils import infrastructure_constraints_feasible as icf
    from acnportal.acnsim.interface import InvalidScheduleError
    ids, A, L, ang, names = oracles.dense_rows(nd)
    at, rt = nd["tol"]
    if net is None:
        # `built_tol`: the network object carries other tolerances than the ones passed explicitly with each call
        net = build.build_network(dict(nd, tol=nd.get("built_tol") or nd["tol"]))
        if nd.get("built_tol") is not None:
            obs.ev("explicit_tolerances_differ_from_network")
            if 0 in (at, rt):
                obs.ev("explicit_zero_tolerance_on_tolerant_network")
    if iface is None:
        iface = _iface(net)
    if oseed % 5 == 0:
        from vlib.monitors import poke
        poke(net, build.build_network(dict(nd, tol=nd.get("built_tol") or nd["tol"])))
        poke(iface)
        obs.ev("objects_printed_compared_hashed_before_use")
    Sm = np.array(S, dtype=float)
    T = Sm.shape[1]
    g = oracles.guard(L)
    nonneg = bool((Sm >= 0).all())
    sched = {i: list(map(float, Sm[r])) for r, i in enumerate(ids)}
    rng = random.Random(oseed)
    if omit:
        # omitting a station from the mapping must be the same as giving it zeros
        for r, i in enumerate(ids):
            if not Sm[r].any() and rng.random() < 0.7:
                del sched[i]
    items = list(sched.items())
    rng.shuffle(items)
    # value types must not matter: rows may be lists of ints, numpy int arrays, tuples, float arrays, in any position;
    # in particular an all-integer row (e.g. an idle station given as [0, 0, 0]) may come first
    typed = []
    for k_, v_ in items:
        c = rng.random()
        if all(float(x).is_integer() for x in v_) and c < 0.6:
            v_ = [int(x) for x in v_] if c < 0.4 else np.array(v_, dtype=int)
            obs.ev("integer_typed_rows")
            typed.insert(0, (k_, v_)) if rng.random() < 0.7 else typed.append((k_, v_))
            continue
        if c < 0.2:
            v_ = tuple(v_)
        elif c < 0.4:
            v_ = np.array(v_, dtype=float)
        typed.append((k_, v_))
    if typed and isinstance(typed[0][1], (list, np.ndarray)) and len(typed) > 1 and all(isinstance(x, (int, np.integer)) for x in typed[0][1]):
        obs.ev("integer_row_first_in_mapping")
    sched = dict(typed)
    if sched and rng.random() < 0.15:
        # the mapping itself need not be a plain dict: a read-only proxy, a ChainMap of two partial tables, a UserDict, an
        # OrderedDict, a defaultdict, a Mapping of the caller's own
        import collections
        import collections.abc
        import types
        kind = rng.choice(["proxy", "chain", "userdict", "ordered", "defaultdict", "own"])
        if kind == "proxy":
            sched = types.MappingProxyType(dict(sched))
        elif kind == "chain":
            h_ = len(typed) // 2
            sched = collections.ChainMap(dict(typed[:h_]), dict(typed[h_:]))
        elif kind == "userdict":
            sched = collections.UserDict(sched)
        elif kind == "ordered":
            sched = collections.OrderedDict(reversed(typed))
        elif kind == "defaultdict":
            dd_ = collections.defaultdict(lambda: [0] * T)
            dd_.update(sched)
            sched = dd_
        else:
            class Table(collections.abc.Mapping):
                def __init__(self, d_):
                    self._d = dict(d_)

                def __getitem__(self, k__):
                    return self._d[k__]

                def __iter__(self):
                    return iter(self._d)

                def __len__(self):
                    return len(self._d)
            sched = Table(sched)
        obs.ev("schedules_given_as_a_mapping_other_than_dict")
    if rng.random() < 0.2 and len(ids) >= 1:
        # earlier in the same batch a malformed candidate (one station row too many / too few) was checked with generous
        # tolerances of its own; that call raises, the caller moves on to the next candidate: the verdicts below are what they
        # would have been without it
        wrong = np.ones((len(ids) + rng.choice([1, 2, -1]) if len(ids) > 1 else len(ids) + 1, T))
        try:
            net.is_feasible(wrong, linear=rng.random() < 0.3, violation_tolerance=rng.choice([5.0, 50.0]), relative_tolerance=rng.choice([0.2, 0.5]))
            obs.ev("malformed_candidate_with_own_tolerances_accepted_not_judged")
        except Exception:
            obs.ev("malformed_candidates_with_tolerances_of_their_own_refused_before_judging")
    info = iface.infrastructure_info()
    mixed = any(any(x < 0 for x in row) and any(x > 0 for x in row) for row in A)
    res = {}
    for linear in (False, True):
        m, where = oracles.margins(A, L, ang, S, at, rt, linear=linear)
        mode = "linear" if linear else "phasor"
        kw = {} if (use_defaults and nd.get("built_tol") is None) else {"violation_tolerance": at, "relative_tolerance": rt}
        r_net = bool(net.is_feasible(Sm, linear=linear, **kw))
        r_if = bool(iface.is_feasible(sched, linear=linear, **kw))
        r_alg = bool(icf(Sm, info, linear, at, rt))
        r_alg1 = None
        if T == 1:
            r_alg1 = bool(icf(Sm[:, 0], info, linear, at, rt))  # the 1-D form the algorithms use
        res[mode] = (m, r_net, r_if, r_alg)
        wit = dict(network=nd, schedule=S, mode=mode, oracle_margin=m, deciding=where, net=r_net, iface=r_if,
                   algo=r_alg, algo_1d=r_alg1, atol=at, rtol=rt, tag=tag)
        if abs(m) <= g:
            obs.boundary += 1
            continue
        exp = m <= 0
        obs.ev(mode + "_judged")
        obs.regime(f"regime:{mode}-{'accept' if exp else 'reject'}")
        if abs(m) <= 2.5 * ts:
            obs.ev("near_boundary_judged")
        for nm, got in (("network", r_net), ("interface", r_if), ("algorithm", r_alg), ("algorithm_1d", r_alg1)):
            if got is None:
                continue
            if got != exp:
                obs.violate(f"{mode}_{nm}_vs_oracle", f"{nm} says {got}, oracle margin {m!r} (tol scale {ts})", **wit)
        if not (r_net == r_if == r_alg) or (r_alg1 is not None and r_alg1 != r_net):
            obs.violate(f"{mode}_checkers_disagree", f"network {r_net} interface {r_if} algorithm {r_alg} algorithm-1d {r_alg1}", **wit)
    # a schedule with a NaN in it (0/0 in a sharing rule, a diverged optimiser): no aggregate current involving it lies within any
    # limit, so wherever there is a constraint every checker says infeasible (or refuses the input) - in both modes
    if A and rng.random() < 0.12:
        Sn = np.array(Sm, dtype=float)
        Sn[rng.randrange(Sn.shape[0]), rng.randrange(Sn.shape[1])] = float("nan")
        sn_map = {i_: list(Sn[r_]) for r_, i_ in enumerate(ids)}
        info_n = iface.infrastructure_info()
        for linear in (False, True):
            verdicts = {}
            for nm_, call_ in (("network", lambda: net.is_feasible(Sn, linear=linear)), ("interface", lambda: iface.is_feasible(sn_map, linear=linear)),
                               ("algorithm", lambda: icf(Sn, info_n, linear, at, rt))):
                try:
                    with np.errstate(all="ignore"):
                        verdicts[nm_] = bool(call_())
                except Exception:
                    verdicts[nm_] = "raised"
            obs.ev("schedules_containing_nan_judged")
            if any(v_ is True for v_ in verdicts.values()):
                obs.violate(("linear" if linear else "phasor") + "_checkers_disagree", f"a schedule containing NaN: {verdicts} (no aggregate current that "
                            f"involves it lies within a limit)", network=nd, schedule=Sn.tolist(), mode="linear" if linear else "phasor", tag=tag)
    # linear conservative
    mp, ml = res["phasor"][0], res["linear"][0]
    if nonneg and abs(mp) > g and abs(ml) > g:
        for nm, idx in (("network", 1), ("interface", 2), ("algorithm", 3)):
            if res["linear"][idx] and not res["phasor"][idx]:
                obs.violate("linear_not_conservative", f"{nm}: linear accepts, phasor rejects (phasor margin {mp!r})",
                            network=nd, schedule=S, phasor_margin=mp, linear_margin=ml, tag=tag)
        obs.ev("conservative_checked")
    # constraint_current values against the oracle
    if A:
        cc = net.constraint_current(Sm)
        for j in range(len(A)):
            for t in range(T):
                o = oracles.phasor_current(A[j], ang, [S[i][t] for i in range(len(S))])
                # the magnitude is what the property defines; the phase reference of the complex value is a convention
                if not (abs(abs(cc[j, t]) - abs(o)) <= 1e-9 * max(1.0, abs(o))):
                    obs.violate("constraint_current_value", f"row {names[j]} t={t}: {cc[j, t]!r} vs oracle {o!r}",
                                network=nd, schedule=S)
                    break
        obs.ev("constraint_current_rows", len(A))
    if T > 1:
        obs.regime("regime:T>1")
    if mixed:
        obs.regime("regime:mixed-sign")
    # unequal lengths must be refused by the interface-side checker
    if len(ids) >= 2 and k is not None and k > 0 and rng.random() < 0.2:
        bad = {ids[0]: [0.0], ids[1]: [0.0, 0.0]}
        try:
            iface.is_feasible(bad)
            obs.violate("unequal_lengths_accepted", "Interface.is_feasible accepted rows of unequal length", network=nd)
        except Exception as e_:
            obs.ev("unequal_length_rejections")  # refused; with which error class is the library's choice
            if not isinstance(e_, InvalidScheduleError):
                obs.ev("unequal_length_rejections_with_other_error:" + type(e_).__name__)
    if len(A) >= 2 and (mixed or len(set(ang)) >= 2) and abs(mp) <= 2.5 * ts:
        obs.nontrivial()
    obs.sample = {"stations": len(ids), "constraints": len(A), "periods": T, "tolerances": [at, rt], "k": k,
                  "phasor_margin": mp, "linear_margin": ml, "verdicts": {m_: list(map(bool, r[1:])) for m_, r in res.items()}}


def _run_hist(case, obs):
    """The same network object is checked, edited (remove / update / add constraint) and checked again:
    every checker must follow the current constraint set (no stale matrices, limits or cached descriptions)."""
    from acnportal.acnsim.network import Current
    rng = random.Random(case["oseed"])
    nd = {"stations": case["net"]["stations"], "constraints": [dict(c) for c in case["net"]["constraints"]], "tol": case["net"]["tol"]}
    ids = [s["id"] for s in nd["stations"]]
    net = build.build_network(nd)
    iface = _iface(net)  # one interface kept across the edits (what a scheduler holds)
    D = case["D"]
    fresh = len(nd["constraints"])
    for step in range(case["steps"] + 1):
        if nd["constraints"]:
            mode = rng.choice(["phasor", "linear"])
            kk = rng.choice(KS)
            alpha, ts = _scale(nd, D, kk, mode)
            S = [[x * alpha for x in r] for r in D]
            _judge(nd, S, obs, ts=ts, oseed=rng.randrange(1 << 30), k=kk, net=net, iface=iface if rng.random() < 0.7 else None,
                   tag=f"history-step-{step}")
            obs.ev("history_rejudged" if step else "history_first_judged")
        if step == case["steps"]:
            break
        cons = nd["constraints"]
        op = rng.choice(["remove", "remove", "update", "update_rename", "add"]) if len(cons) > 1 else rng.choice(["add", "update"])
        if op == "remove":
            j = rng.randrange(len(cons) - 1)  # never the last one added: later rows must shift
            net.remove_constraint(cons[j]["name"])
            del cons[j]
            obs.ev("history_op:remove_not_last")
        elif op in ("update", "update_rename"):
            j = rng.randrange(len(cons))
            sub = rng.sample(ids, rng.randint(1, len(ids)))
            co = {s_: rng.choice(COEFS) for s_ in sub}
            lim = round(rng.uniform(1, 500), 3)
            new = cons[j]["name"] if op == "update" else f"r{fresh}"
            fresh += 1
            newcur = Current(dict(co))
            old_obj = build.LAST_CURRENTS.get(cons[j]["name"])
            if old_obj is not None and rng.random() < 0.4:
                # the update is given a Current derived from the very object registered under that name
                k_ = rng.choice([0.5, 2, -1, 3])
                if rng.random() < 0.5:
                    newcur, co = k_ * old_obj, {s_: k_ * v_ for s_, v_ in cons[j]["coeffs"].items()}
                else:
                    newcur, co = old_obj + newcur, {s_: cons[j]["coeffs"].get(s_, 0) + co.get(s_, 0) for s_ in set(cons[j]["coeffs"]) | set(co)}
                co = {s_: v_ for s_, v_ in co.items()}
                obs.ev("history_op:update_with_a_current_derived_from_the_registered_object")
            build.LAST_CURRENTS.pop(cons[j]["name"], None)
            build.LAST_CURRENTS[new] = newcur
            net.update_constraint(cons[j]["name"], newcur, lim, new_name=None if op == "update" else new)
            del cons[j]
            cons.append({"name": new, "coeffs": co, "limit": lim})
            obs.ev("history_op:" + op)
        else:
            sub = rng.sample(ids, rng.randint(1, len(ids)))
            co = {s_: rng.choice(COEFS) for s_ in sub}
            lim = round(rng.uniform(1, 500), 3)
            nm = f"n{fresh}"
            fresh += 1
            cur_ = Current(dict(co))
            build.LAST_CURRENTS[nm] = cur_
            net.add_constraint(cur_, lim, name=nm)
            cons.append({"name": nm, "coeffs": co, "limit": lim})
            obs.ev("history_op:add")
        if list(net.constraint_index) != [c["name"] for c in cons]:
            if sorted(net.constraint_index) != sorted(c["name"] for c in cons):
                obs.violate("constraint_index_after_edit", f"{list(net.constraint_index)} vs model {[c['name'] for c in cons]}", network=nd)
                return
            # same constraints in another row order (C12's subject, and no order is promised there either): follow the network
            obs.ev("history_model_reordered_to_the_networks_row_order")
            cons.sort(key=lambda c: list(net.constraint_index).index(c["name"]))


def _run_free(case, obs):
    """A network without constraints accepts every schedule and is usable by schedulers."""
    from vlib.monitors import SimProbe
    rng = random.Random(case["seed"])
    d = gen.scenario(rng, sched=case["sched"], kinds=("EVSE", "FR"), constraint_free_p=1.0, nmax=5)
    net = build.build_network(d["network"])
    n = len(d["network"]["stations"])
    S = np.array([[rng.uniform(0, 1e5) for _ in range(3)] for _ in range(n)])
    if not net.is_feasible(S) or not net.is_feasible(S, linear=True):
        obs.violate("constraint_free_rejects", "constraint-free network rejected a schedule", network=d["network"])
    iface = _iface(net)
    ids = [s["id"] for s in d["network"]["stations"]]
    try:
        ok = iface.is_feasible({i: [1e4] for i in ids})
        info = iface.infrastructure_info()
        cm = np.asarray(info.constraint_matrix)
        if cm.size != 0:
            obs.violate("constraint_free_info_shape", f"constraint matrix shape {cm.shape} for {n} stations")
        for s in d["network"]["stations"]:
            if iface.evse_voltage(s["id"]) != s["voltage"] or iface.evse_phase(s["id"]) != s["phase"]:
                obs.violate("constraint_free_accessor", "voltage/phase accessor wrong on constraint-free network")
            iface.max_pilot_signal(s["id"]); iface.min_pilot_signal(s["id"]); iface.allowable_pilot_signals(s["id"])
        iface.get_constraints()
        from acnportal.algorithms.utils import infrastructure_constraints_feasible as icf
        if not ok or not icf(np.full(n, 1e4), info) or not icf(np.full((n, 2), 1e4), info, linear=True):
            obs.violate("constraint_free_rejects", "interface/algorithm-side check rejected on a constraint-free network")
        obs.ev("constraint_free_queries")
    except Exception as e:
        obs.violate("constraint_free_unusable", f"{type(e).__name__}: {e}", network=d["network"], where="interface queries")
    sim, evs = build.build_sim(d)
    probe = SimProbe(sim, snapshots=False).attach()
    exc = probe.run()
    probe.detach()
    obs.ev("constraint_free_sim_runs")
    if exc is not None:
        obs.violate("constraint_free_unusable", f"simulation with {case['sched']} scheduler ended with {type(exc).__name__}: {exc}",
                    scheduler=d["scheduler"], where="simulation", exc_type=type(exc).__name__)
    elif any("Invalid schedule" in str(w.message) for w in probe.warnings):
        obs.violate("constraint_free_rejects", "infeasible-schedule warning on a constraint-free network")
    obs.sample = {"kind": "constraint-free", "scheduler": case["sched"], "stations": n, "periods": sim.iteration}
    obs.nontrivial()


def classify(v):
    return None
