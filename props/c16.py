"""C16 — predefined site networks never admit more power than the transformer ratings."""
import cmath
import math
import random

import numpy as np

ID = "C16"
META = {
    "technique": "runtime monitoring: the real site networks' is_feasible is driven to its acceptance boundary (bisection along random directions, greedy coordinate filling to vertices, rounding to allowable levels, recorded rates of real simulations) and every schedule it accepts is judged by a physics oracle that recomputes line currents and transformer power from the stations' reported phase angles and a pinned wiring table; the constraint rows are walked once per network for phase angles, sign pattern and coverage",
    "design_ref": "DESIGN.md section 6 C16",
    "level_text": "exploration: thousands (quick) / ~1e6 (thorough) accepted boundary schedules per run over Caltech, JPL and Office001 x {basic, real EVSE types} x transformer capacities (defaults, x1/3, x2, random); transformer power, secondary line currents, pod and sub-panel currents recomputed independently for every accepted schedule; ratings of exactly 0 and tiny ratings; plans of up to 4100 periods with a single overloading column at block seams; whole-ampere schedules in 8/16-bit integer and 16/32-bit float dtypes; numpy print options varied per case; site factories called with an explicit EVSE voltage; a malformed candidate with tolerances of its own before the search",
    "level_note": "V_LL = 120*sqrt(3) (the nominal '208 V'); which stations sit behind which transformer / pod / sub-panel is a pinned wiring table (station ids), the phase of each station is what the network itself reports; bounds carry the network's own acceptance tolerance max(1e-5, 1e-7 L) plus 1e-9 relative; the delta-side (primary) limits are not judged (the statement speaks of power, pods and sub-panels)",
}
LEVEL = "exploration"
RULE = ("case = one site configuration x a batch of directions; each schedule the network accepts is one evaluation; non-trivial = an "
        "accepted schedule with >=2 phase groups loaded and some constraint of the site within 1e-3 relative of its limit (a boundary "
        "point); distinct = distinct (configuration, direction) pairs")
ASSUMPTIONS = [
    "schedules are non-negative and within each EVSE's maximum; with real EVSE types they are additionally rounded down to allowable levels",
    "wiring table (transformer, pod and sub-panel membership by station id) pinned from the site documentation in the sources",
    "stations are line-to-line loads: angle 30 = AB, -90 = BC, 150 = CA; a load on XY adds +I to line X and -I to line Y",
]
ANCHORS = [
    "acnportal.acnsim.network.sites.caltech_acn:caltech_acn",
    "acnportal.acnsim.network.sites.jpl_acn:jpl_acn",
    "acnportal.acnsim.network.sites.jpl_acn:_add_line2line_evses",
    "acnportal.acnsim.network.sites.office001_acn:office001_acn",
    "acnportal.acnsim.network.current:Current.__add__",
    "acnportal.acnsim.network.current:Current.__sub__",
    "acnportal.acnsim.network.charging_network:ChargingNetwork.is_feasible",
]
REQUIRED = ["accepted_schedules_judged", "malformed_candidates_with_tolerances_of_their_own_refused_before_the_search", "sites_built_with_an_explicit_evse_voltage", "narrow_typed_whole_ampere_schedules", "narrow_typed_schedules_accepted", "boundary_points", "vertex_points", "structure_walks", "site:caltech", "site:caltech-via-deprecated-alias", "site:jpl", "site:office001",
            "evse:basic", "evse:real", "cap:default", "cap:scaled", "cap:zero", "sim_columns_judged", "linear_mode_points", "multi_period_matrices", "multi_period_accepted", "long_plans_with_one_overloading_column", "networks_printed_compared_hashed_before_use", "same_array_object_checked_again_after_in_place_edit", "site_factory_called_with_positional_arguments", "transformer_power_within_1pct_of_rating",
            "panel_or_pod_binding"]
BUDGET_S = {"quick": 240, "thorough": 3000}
VLL = 120.0 * math.sqrt(3.0)
ANG = {30: "ab", -90: "bc", 150: "ca"}

CC_POD = ["CA-322", "CA-493", "CA-496", "CA-320", "CA-495", "CA-321", "CA-323", "CA-494"]
AV_POD = ["CA-324", "CA-325", "CA-326", "CA-327", "CA-489", "CA-490", "CA-491", "CA-492"]


def wiring(site, ids, caps):
    """Pinned wiring facts: {transformers: [(name, member predicate, cap kW)], single_phase_groups: [(name, ids, A)],
    three_phase_panels: [(name, predicate, A)]}"""
    if site == "caltech":
        return {"transformers": [("", lambda s: True, caps[0])],
                "pods": [("CC Pod", CC_POD, 80.0), ("AV Pod", AV_POD, 80.0)], "panels": []}
    if site == "office001":
        return {"transformers": [("", lambda s: True, caps[0])], "pods": [], "panels": []}
    sp1 = {"AG-1F11", "AG-1F12", "AG-1F13", "AG-1F14"}
    sp2 = {"AG-1F0%d" % i for i in range(1, 7)}
    return {"transformers": [("First Floor Transformer ", lambda s: s.startswith("AG-1F"), caps[0]),
                             ("Third/Fourth Floor Transformer ", lambda s: s.startswith("AG-3F") or s.startswith("AG-4F"), caps[1])],
            "pods": [],
            "panels": [("First Floor SP1", lambda s: s in sp1, 100.0), ("First Floor SP2", lambda s: s in sp2, 100.0),
                       ("Third Floor Panel", lambda s: s.startswith("AG-3F"), 225.0),
                       ("Fourth Floor Panel", lambda s: s.startswith("AG-4F"), 225.0)]}


def build_site(site, basic, caps, alias=None, voltage=None):
    from acnportal.acnsim.network.sites import caltech_acn, jpl_acn, office001_acn
    if voltage is not None:
        # the documented `voltage` argument (what the EVSEs see; "does not affect the current rating of the transformer which is
        # based on nominal voltages in the network"): the ratings are judged at the nominal 208 V / 120 V whatever it is
        if site == "caltech":
            return caltech_acn(basic_evse=basic, voltage=voltage, transformer_cap=caps[0])
        if site == "office001":
            return office001_acn(basic_evse=basic, voltage=voltage, transformer_cap=caps[0])
        return jpl_acn(basic_evse=basic, voltage=voltage, first_transformer_cap=caps[0], third_fourth_transformer_cap=caps[1])
    if site == "caltech":
        if alias:
            import contextlib
            import io
            from acnportal.acnsim.network.sites import CaltechACN
            with contextlib.redirect_stdout(io.StringIO()):  # the alias prints a deprecation note
                return CaltechACN(basic_evse=basic, transformer_cap=caps[0]) if alias == "kw" else CaltechACN(basic, 208, caps[0])
        if alias == "positional":  # the documented parameter order: (basic_evse, voltage, transformer_cap)
            return caltech_acn(basic, 208, caps[0])
        return caltech_acn(basic_evse=basic, transformer_cap=caps[0])
    if site == "office001":
        if alias == "positional":
            return office001_acn(basic, 208, caps[0])
        return office001_acn(basic_evse=basic, transformer_cap=caps[0])
    if alias == "positional":  # (basic_evse, voltage, first_transformer_cap, third_fourth_transformer_cap)
        return jpl_acn(basic, 208, caps[0], caps[1])
    return jpl_acn(basic_evse=basic, first_transformer_cap=caps[0], third_fourth_transformer_cap=caps[1])


def cases(seed, tier):
    rng = random.Random(f"C16:{seed}")
    reps, nd = (3, 36) if tier == "quick" else (14, 140)
    out = []
    for site, defaults in (("caltech", (150,)), ("office001", (50,)), ("jpl", (45, 150))):
        for basic in (True, False):
            capsets = [("default", defaults), ("scaled", tuple(c / 3 for c in defaults)), ("scaled", tuple(c * 2 for c in defaults))]
            for _ in range(reps):
                capsets.append(("scaled", tuple(round(c * rng.uniform(0.15, 3.0), 2) for c in defaults)))
            # a transformer modelled as out of service / the first point of a capacity sweep: rating exactly 0 (int, float), and tiny
            zero = rng.choice([0, 0.0])
            if len(defaults) == 1:
                capsets += [("zero", (zero,)), ("scaled", (rng.choice([0.001, 0.5]),))]
            else:
                capsets += [("zero", (zero, defaults[1])), ("zero", (defaults[0], zero)), ("scaled", (0.5, 0.001))]
            for tag, caps in capsets:
                for r in range(reps if tag != "zero" else 1):
                    out.append({"site": site, "basic": basic, "caps": list(caps), "captag": tag, "ndirs": nd, "seed": rng.randrange(1 << 30),
                                "sim": r == 0, "alias": (rng.choice(["kw", "pos"]) if site == "caltech" and r == 1 else
                                                         "positional" if (r == 2 or tag == "zero") else None)})
                    if out[-1]["alias"] is None and rng.random() < 0.35:
                        out[-1]["voltage"] = rng.choice([200, 120, 110, 220, 240, 480, 208.0])
    return out


def line_currents(s, ang, members):
    """Phasor line currents (a, b, c) of the line-to-line loads `members` (indices)."""
    grp = {"ab": 0j, "bc": 0j, "ca": 0j}
    for i in members:
        if s[i]:
            grp[ANG[ang[i]]] += s[i] * cmath.exp(1j * math.radians(ang[i]))
    return grp["ab"] - grp["ca"], grp["bc"] - grp["ab"], grp["ca"] - grp["bc"]


def tol(L):
    return max(1e-5, 1e-7 * L) + 1e-9 * L


def judge_schedule(obs, net, W, ids, ang, s, wit, how):
    """s is a schedule the network has just accepted."""
    obs.evals += 1
    obs.ev("accepted_schedules_judged")
    tight = False
    for name, member, cap in W["transformers"]:
        mem = [i for i, x in enumerate(ids) if member(x)]
        P = VLL * math.fsum(s[i] for i in mem) / 1000.0
        # (absolute slack: the network's own 1e-5 A tolerance on three 120 V lines is 3.6e-6 kW; it matters only for ratings near 0)
        if not P <= cap * (1 + 1e-6) + 1e-5:
            obs.violate("transformer_power_above_rating", f"{how}: accepted schedule draws {P:.4f} kW through {name or 'the'} transformer rated "
                        f"{cap} kW (ratio {P / cap if cap else math.inf:.5f})", power_kw=P, rating_kw=cap, schedule={ids[i]: s[i] for i in mem if s[i]}, **wit)
        if P >= 0.99 * cap and cap > 0:
            obs.ev("transformer_power_within_1pct_of_rating")
        lim = cap * 1000.0 / 3.0 / 120.0
        for ph, I in zip("abc", line_currents(s, ang, mem)):
            if not abs(I) <= lim + tol(lim):
                # the statement bounds the transformer's TOTAL power (judged above), not each secondary line: recorded only
                obs.ev("accepted_schedules_with_one_secondary_line_above_a_third_of_the_rating")
            if abs(I) >= lim * (1 - 1e-3) and lim > 0:
                tight = True
    for name, pod, lim in W["pods"]:
        tot = math.fsum(s[ids.index(x)] for x in pod)
        if not tot <= lim + tol(lim):
            obs.violate("pod_current_above_rating", f"{how}: {name}: {tot:.4f} A > {lim} A", pod=name, current=tot, **wit)
        if tot >= lim * (1 - 1e-3):
            tight = True
            obs.ev("panel_or_pod_binding")
    for name, member, lim in W["panels"]:
        mem = [i for i, x in enumerate(ids) if member(x)]
        for ph, I in zip("abc", line_currents(s, ang, mem)):
            if not abs(I) <= lim + tol(lim):
                obs.violate("panel_line_current_above_rating", f"{how}: {name} line {ph}: {abs(I):.4f} A > {lim} A", panel=name, line=ph,
                            current=abs(I), schedule={ids[i]: s[i] for i in mem if s[i]}, **wit)
            if abs(I) >= lim * (1 - 1e-3) and lim > 0:
                tight = True
                obs.ev("panel_or_pod_binding")
    return tight


def structure_walk(obs, net, W, ids, ang, wit):
    """Every EVSE has a line-to-line angle and appears with the right signs in its transformer's secondary rows."""
    obs.ev("structure_walks")
    names = list(net.constraint_index)
    M = np.asarray(net.constraint_matrix, dtype=float)
    for i, x in enumerate(ids):
        if ang[i] not in ANG:
            obs.violate("station_angle_not_line_to_line", f"station {x} has phase angle {ang[i]}", **wit)
            return False
    expect = {"ab": {"A": 1, "B": -1, "C": 0}, "bc": {"A": 0, "B": 1, "C": -1}, "ca": {"A": -1, "B": 0, "C": 1}}
    for name, member, cap in W["transformers"]:
        rows = {}
        for ph in "ABC":
            nm = f"{name}Secondary {ph}"
            if nm not in names:
                # how the transformer constraints are NAMED is not part of the statement: without the names the wiring cannot be
                # walked, and the sampled schedules (which need no names) carry the verdict alone
                obs.ev("structure_walk_without_the_expected_constraint_names")
                return True
            rows[ph] = M[names.index(nm)]
            lim = cap * 1000.0 / 3.0 / 120.0
            got = float(net.magnitudes[names.index(nm)])
            if not got <= lim * (1 + 1e-9):  # a stricter limit than the rating keeps the power within it a fortiori
                obs.violate("secondary_limit_not_rating", f"{nm}: limit {got} A, rating {cap} kW gives {lim} A", **wit)
        # a row and its negation bound the same magnitude
        flip = {ph: (-1 if any(member(x) and expect[ANG[ang[i]]][ph] != 0 and rows[ph][i] == -expect[ANG[ang[i]]][ph] for i, x in enumerate(ids)) and
                     not any(member(x) and expect[ANG[ang[i]]][ph] != 0 and rows[ph][i] == expect[ANG[ang[i]]][ph] for i, x in enumerate(ids)) else 1)
                for ph in "ABC"}
        for i, x in enumerate(ids):
            inside = member(x)
            for ph in "ABC":
                want = flip[ph] * expect[ANG[ang[i]]][ph] if inside else 0
                if rows[ph][i] != want:
                    obs.violate("station_not_covered_or_wrong_sign", f"station {x} (angle {ang[i]}) has coefficient {rows[ph][i]} in "
                                f"'{name}Secondary {ph}', expected {want}", **wit)
                    return False
    return True


def run_case(case, obs):
    site, basic, caps = case["site"], case["basic"], case["caps"]
    rng = random.Random(case["seed"])
    nrng = np.random.default_rng(case["seed"])
    alias = case.get("alias")
    net = build_site(site, basic, caps, alias=alias, voltage=case.get("voltage"))
    if case.get("voltage") is not None:
        obs.ev("sites_built_with_an_explicit_evse_voltage")
    if alias == "positional":
        obs.ev("site_factory_called_with_positional_arguments")
    elif alias:
        obs.ev("site:caltech-via-deprecated-alias")
    if case["seed"] % 3 == 0:
        # the client prints the network, compares it with itself, with a second build and with a JSON copy, hashes it ...
        # before asking anything: none of that may change what the network admits
        import warnings as _w
        from vlib.monitors import poke
        from acnportal.acnsim.network import ChargingNetwork
        with _w.catch_warnings():
            _w.simplefilter("ignore")
            try:
                twin = ChargingNetwork.from_json(net.to_json())
            except Exception:
                twin = None
            poke(net, *([twin] if twin is not None else []), build_site(site, basic, caps, voltage=case.get("voltage")))
        obs.ev("networks_printed_compared_hashed_before_use")
    ids = list(net.station_ids)
    n = len(ids)
    ang = [float(net.phase_angles[x]) for x in ids]
    ang = [int(a) if a == int(a) else a for a in ang]
    W = wiring(site, ids, caps)
    wit = dict(site=site, basic_evse=basic, transformer_caps=caps)
    obs.evals = 0
    obs.ev("site:" + site)
    obs.ev("evse:basic" if basic else "evse:real")
    obs.ev("cap:" + case["captag"])
    if not structure_walk(obs, net, W, ids, ang, wit) and any(a not in ANG for a in ang):
        return  # the physics oracle needs line-to-line angles; otherwise it is evaluated independently of the walk
    maxr = np.array([min(float(net.max_pilot_signals[i]), 80.0) for i in range(n)])
    levels = [np.asarray(a, dtype=float) for a in net.allowable_rates]
    cont = [bool(c) for c in net.is_continuous]
    A = np.array(ang)

    mode = {"linear": False}

    def feasible(v):
        return bool(net.is_feasible(v[:, None], linear=mode["linear"]))

    def round_down(v):
        if basic:
            return v
        out = v.copy()
        for i in range(n):
            if not cont[i]:
                lv = levels[i][levels[i] <= v[i] + 1e-12]
                out[i] = lv.max() if len(lv) else 0.0
        return out

    if case["seed"] % 2 == 0:
        # a malformed candidate (one row too many) checked with generous tolerances of its own raises; the caller moves on - what
        # the network admits afterwards is what it would have admitted without that call
        try:
            net.is_feasible(np.ones((n + 1, 2)), violation_tolerance=50.0, relative_tolerance=0.3)
        except Exception:
            obs.ev("malformed_candidates_with_tolerances_of_their_own_refused_before_the_search")
    groups_loaded = lambda v: len({ANG[ang[i]] for i in range(n) if v[i] > 0})
    max_ratio = 0.0
    accepted_pts, over_pts = [], []
    for k in range(case["ndirs"]):
        gw = [rng.choice([0.0, 1.0, rng.random()]) for _ in range(3)]
        if not any(gw):
            gw[rng.randrange(3)] = 1.0
        w = np.where(A == 30, gw[0], np.where(A == -90, gw[1], gw[2])) * nrng.random(n) ** rng.choice([0, 0.3, 1, 3])
        if rng.random() < 0.3:
            w = w * (nrng.random(n) < rng.choice([0.2, 0.5]))
        if site == "jpl" and rng.random() < 0.4:
            # concentrate on one transformer / one sub-panel
            pick = rng.choice(["AG-1F", "AG-3F", "AG-4F", "AG-1F0", "AG-1F1"])
            w = w * np.array([1.0 if x.startswith(pick) else rng.choice([0.0, 0.05]) for x in ids])
        if w.max() <= 0:
            continue
        d = maxr * w / w.max()
        # every fourth direction is explored with the network's linearised check (it also "reports feasible")
        mode["linear"] = (k % 4 == 1)
        how = "boundary-linear" if mode["linear"] else "boundary"
        if mode["linear"]:
            obs.ev("linear_mode_points")
        if feasible(d):
            s = d
        else:
            lo, up = 0.0, 1.0
            for _ in range(46):
                mid = (lo + up) / 2
                if feasible(mid * d):
                    lo = mid
                else:
                    up = mid
            s = lo * d
        if k % 3 == 2:
            # greedy coordinate filling from the boundary point to a vertex
            how = "vertex-linear" if mode["linear"] else "vertex"
            s = s.copy()
            for i in nrng.permutation(n):
                if rng.random() < 0.5:
                    continue
                base = s[i]
                s[i] = maxr[i]
                if feasible(s):
                    continue
                lo, up = base, maxr[i]
                for _ in range(40):
                    mid = (lo + up) / 2
                    s[i] = mid
                    if feasible(s):
                        lo = mid
                    else:
                        up = mid
                s[i] = lo
            obs.ev("vertex_points")
        s = round_down(s)
        if not feasible(s):
            obs.ev("rounded_point_rejected_not_judged")
            continue
        obs.ev("boundary_points")
        if not mode["linear"]:
            accepted_pts.append(s.copy())
            over_pts.append(np.minimum(d * min(1.0, (s.max() / d.max() if d.max() > 0 else 1.0)) * rng.choice([1.08, 1.3, 2.0]), maxr))
        tight = judge_schedule(obs, net, W, ids, ang, [float(x) for x in s], wit, how)
        if tight and groups_loaded(s) >= 2:
            obs.nontrivial([obs.case_hash, k])
        for name, member, cap in W["transformers"]:
            P = VLL * sum(float(s[i]) for i, x in enumerate(ids) if member(x)) / 1000.0
            if cap > 0:
                max_ratio = max(max_ratio, P / cap)
    # ---- multi-period schedules: whatever matrix the network accepts, every one of its periods must respect the ratings
    mode["linear"] = False
    for _ in range(min(12, len(accepted_pts))):
        T = rng.randint(2, 6)
        cols = []
        for j in range(T):
            pool = over_pts if (over_pts and rng.random() < 0.35) else accepted_pts
            c = pool[rng.randrange(len(pool))]
            cols.append(c * rng.choice([1.0, 1.0, 0.5, 0.02]))
        S = np.stack(cols, axis=1)
        obs.ev("multi_period_matrices")
        for lin in (False, True):
            try:
                acc = bool(net.is_feasible(S, linear=lin))
            except Exception as e:
                obs.violate("is_feasible_raised", f"is_feasible raised {type(e).__name__}: {e} on a {S.shape} schedule (linear={lin})", **wit)
                continue
            if acc:
                obs.ev("multi_period_accepted")
                for j in range(T):
                    judge_schedule(obs, net, W, ids, ang, [float(x) for x in S[:, j]], dict(wit, periods=T, column=j, linear=lin),
                                   "multi-period schedule, period %d of %d" % (j, T))
    # ---- ONE array object is checked, edited in place (rows of two station groups swapped: same total, same shape) and checked
    # again: the verdict belongs to the contents, not to the object
    if accepted_pts:
        B = np.zeros((n, 1))
        for _ in range(6):
            s_ = accepted_pts[rng.randrange(len(accepted_pts))]
            B[:, 0] = s_
            net.is_feasible(B)
            perm_ = nrng.permutation(n)
            B[:, 0] = s_[perm_]  # same multiset of currents, other stations
            v_same = bool(net.is_feasible(B))
            v_copy = bool(net.is_feasible(B.copy()))
            obs.ev("same_array_object_checked_again_after_in_place_edit")
            if v_same != v_copy:
                obs.violate("verdict_depends_on_the_array_object", f"is_feasible says {v_same} for an array object it has seen before (edited in "
                            f"place since) and {v_copy} for a fresh copy with the same contents", **wit)
                break
            if v_same:
                judge_schedule(obs, net, W, ids, ang, [float(x) for x in B[:, 0]], wit, "array object re-used after an in-place edit")
    # ---- plans of hundreds to thousands of periods, idle except for ONE overloading column, placed at the end, at the start and
    # on both sides of block seams: if the network accepts such a plan, that column is judged like any accepted schedule
    if over_pts and case["seed"] % 3 == 0:
        Tl = rng.choice([300, 1025, 1500, 2500, 4100])
        pos = sorted({0, Tl - 1, Tl - 2, Tl // 2} | {x + dx for x in (128, 256, 512, 1000, 1024, 2048, 4096) for dx in (-1, 0) if x < Tl})
        S = np.zeros((n, Tl))
        for _ in range(1):
            c = over_pts[rng.randrange(len(over_pts))]
            for p_ in pos:
                S[:, p_] = c
                for lin in (False, True):
                    obs.ev("long_plans_with_one_overloading_column")
                    if bool(net.is_feasible(S, linear=lin)):
                        judge_schedule(obs, net, W, ids, ang, [float(x) for x in c], dict(wit, periods=Tl, column=p_, linear=lin),
                                       "plan of %d periods, idle except period %d" % (Tl, p_))
                S[:, p_] = 0.0
    # ---- whole-ampere schedules as they come out of a table: narrow numeric types (8/16-bit integers, 16/32-bit floats), uniform
    # levels across all stations, across one phase group, random whole amperes - most of them overloads; whatever the network
    # admits is judged like any accepted schedule (a product evaluated in the schedule's own type must not wrap or saturate)
    top = int(min(32, maxr.max()))
    for q in range(10):
        dt = rng.choice([np.uint8, np.int8, np.uint16, np.int16, np.int32, np.int64, np.float32, np.float16, np.uint8, np.int8])
        r_ = rng.choice(["uniform", "uniform", "group", "random"])
        if r_ == "uniform":
            v = np.full(n, rng.randint(1, top))
        elif r_ == "group":
            g_ = rng.choice([30, -90, 150])
            v = np.where(A == g_, rng.randint(1, top), rng.choice([0, 0, 1]))
        else:
            v = nrng.integers(0, top + 1, n)
        v = np.minimum(v, np.floor(maxr)).astype(int)
        Tn = rng.choice([1, 1, 3])
        S = np.stack([v] + [np.zeros(n, dtype=int)] * (Tn - 1), axis=1).astype(dt)
        for lin in (False, True):
            obs.ev("narrow_typed_whole_ampere_schedules")
            try:
                acc = bool(net.is_feasible(S, linear=lin))
            except Exception as e:
                obs.violate("is_feasible_raised", f"is_feasible raised {type(e).__name__}: {e} on a {S.shape} {S.dtype} schedule (linear={lin})", **wit)
                continue
            if acc:
                obs.ev("narrow_typed_schedules_accepted")
                judge_schedule(obs, net, W, ids, ang, [float(x) for x in v], dict(wit, dtype=str(S.dtype), linear=lin),
                               "whole-ampere schedule of dtype %s" % S.dtype)
    # ---- recorded rates of a real simulation on the site
    if case.get("sim"):
        sim_columns(case, obs, site, basic, caps, W, rng, wit)
    obs.sample = {"site": site, "basic_evse": basic, "caps_kw": caps, "stations": n, "constraints": len(net.constraint_index),
                  "directions": case["ndirs"], "max_power_over_rating_seen": round(max_ratio, 6)}


def sim_columns(case, obs, site, basic, caps, W, rng, wit):
    from datetime import datetime
    from acnportal.acnsim import Simulator
    from acnportal.acnsim.events import EventQueue, PluginEvent
    from acnportal.acnsim.models import EV, Battery
    from acnportal import algorithms as al
    net = build_site(site, basic, caps)
    ids = list(net.station_ids)
    ang = [int(net.phase_angles[x]) for x in ids]
    evs = []
    for k, st in enumerate(ids):
        if rng.random() < 0.8:
            a = rng.randint(0, 4)
            evs.append(EV(a, a + rng.randint(2, 8), rng.choice([3, 10, 40]), st, f"x{k}", Battery(100, 0, 100)))
    algo = rng.choice([al.UncontrolledCharging(), al.SortedSchedulingAlgo(al.earliest_deadline_first),
                       al.RoundRobin(al.first_come_first_served, continuous_inc=1), al.SortedSchedulingAlgo(al.least_laxity_first)])
    import warnings
    sim = Simulator(net, algo, EventQueue([PluginEvent(e.arrival, e) for e in evs]), datetime(2020, 1, 1), period=5, verbose=False)
    with warnings.catch_warnings():
        warnings.simplefilter("ignore")
        sim.run()
    for t in range(sim.iteration):
        col = np.array(sim.charging_rates[:, t], dtype=float)
        if net.is_feasible(col[:, None]):
            obs.ev("sim_columns_judged")
            judge_schedule(obs, net, W, ids, ang, [float(x) for x in col], dict(wit, period=t, algorithm=type(algo).__name__), "recorded rates")
        else:
            obs.ev("sim_columns_infeasible_not_judged")


def classify(v):
    return None
