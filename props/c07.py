"""C07 — sorting-based algorithms only emit safe schedules (in-simulation monitor on every invocation)."""
import math
import random
from fractions import Fraction as F

import numpy as np

from vlib import build, gen, oracles, simrun
from vlib.monitors import SimProbe, Wrap

ID = "C07"
META = {
    "technique": "runtime monitoring: instance-level wrapper around algorithm.run() (and around the estimator's get_maximum_rates) inside real simulations; at every invocation the pre-state is read from the real network objects and the returned schedule is judged by independent oracles — phasor feasibility in plain complex arithmetic, EVSE acceptance in exact rationals, remaining amp-periods, estimator bound / uninterrupted minimum, zero for stations without an active session; warnings, exceptions and final energies of the run are judged too",
    "design_ref": "DESIGN.md section 6 C07",
    "level_text": "exploration: hundreds (quick) / tens of thousands (thorough) of simulations on three-phase mixed-sign networks with binding limits and mixed continuous / finite-rate EVSEs, session ids different from station ids (sometimes equal to another station's id), all 5 sorts x {greedy, round-robin} x estimator {none, SimpleRampdown, fixed bounds} x uninterrupted on/off x continuous increments, two-stage and noisy batteries, nearly finished sessions; every scheduler invocation of every run is judged; max_recompute 2/3/5 with multi-period plans judged column by column; allow_overcharging; scenarios on the predefined Caltech/JPL/Office001 networks; schedulers built with default options unmentioned; algorithm objects that served another study with the same session ids on larger stations; round-robin increments 0.05 ... 2; algorithm objects coming from a study abandoned mid-call, transient post-processing failures; a saturated feeder plus a car needing thousandths of an ampere-period",
    "level_note": "the algorithms hard-code the network's default tolerances, so networks use the defaults; feasibility margins within 1e-11(1+L) and pilots within 1e-9 A of an acceptance boundary are counted as boundary, not judged; the bound uses the loose form allowed by the statement: pilot <= min(remaining amp-periods, station max, max(estimator bound, uninterrupted minimum pilot if the option is on))",
}
LEVEL = "exploration"
RULE = ("case = one simulation under a sorted algorithm; each scheduler invocation is one evaluation; non-trivial = an invocation with "
        ">=2 active sessions and (a constraint within 0.5 A of its limit or a session whose remaining amp-periods are below its "
        "station maximum); distinct = distinct (scenario, period)")
ASSUMPTIONS = [
    "continuous-from-zero EVSE(min_rate=0) and FiniteRatesEVSE stations only (the property's quantifier excludes deadband EVSEs)",
    "default network tolerances (1e-5 absolute, 1e-7 relative)",
    "remaining demand is read from the real EV objects immediately before algorithm.run()",
]
ANCHORS = [
    "acnportal.algorithms.sorted_algorithms:SortedSchedulingAlgo.sorting_algorithm",
    "acnportal.algorithms.sorted_algorithms:SortedSchedulingAlgo.max_feasible_rate",
    "acnportal.algorithms.sorted_algorithms:SortedSchedulingAlgo.discrete_max_feasible_rate",
    "acnportal.algorithms.sorted_algorithms:RoundRobin.round_robin",
    "acnportal.algorithms.preprocessing:enforce_pilot_limit",
    "acnportal.algorithms.preprocessing:apply_upper_bound_estimate",
    "acnportal.algorithms.preprocessing:apply_minimum_charging_rate",
    "acnportal.algorithms.preprocessing:remove_finished_sessions",
    "acnportal.algorithms.postprocessing:format_array_schedule",
    "acnportal.algorithms.utils:infrastructure_constraints_feasible",
    "acnportal.algorithms.upper_bound_estimator:SimpleRampdown.get_maximum_rates",
]
REQUIRED = ["invocations_judged", "runs_judged", "feasibility_judged", "binding_invocations", "acceptance_judged", "bounds_judged",
            "estimator_bound_binding", "estimator_bound_sid_differs_from_station", "amp_periods_binding", "inactive_station_zero_checked",
            "algo:greedy", "algo:rr", "sort:fcfs", "sort:lcfs", "sort:edf", "sort:llf", "sort:lrpt", "est:None", "est:rampdown", "est:fixed",
            "unint:on", "unint:off", "evse:EVSE", "evse:FR", "mixed_sign_network", "invocations_after_an_edit", "runs_with_a_reused_algorithm_object", "runs_on_predefined_sites", "runs_with_a_user_subclass_overriding_run_preprocessing", "runs_resumed_after_a_transient_failure_inside_the_algorithm", "runs_with_an_algorithm_object_whose_previous_study_was_abandoned_mid_call"]
BUDGET_S = {"quick": 270, "thorough": 3300}


def _corpus(rng):
    """Tight shared feeders with mixed continuous / finite-rate stations and uninterrupted charging: the head-room left to one
    station is below another station's minimum pilot; every sort order and both algorithms, sessions in both arrival orders."""
    out = []
    av = {"t": "FR", "rates": [0] + list(range(6, 33))}
    cc = {"t": "FR", "rates": [0, 8, 16, 24, 32]}
    ev = {"t": "EVSE", "max": 32, "min": 0}
    for lim in (10.37, 13.37, 21.37, 30.37):
        for layout in ([ev, av], [av, ev], [ev, cc, av], [cc, av], [ev, ev, av]):
            for flip in (False, True):
                stations = [{"id": f"s{i}", "evse": e, "voltage": rng.choice([208, 240]), "phase": rng.choice([0, 0, 30])}
                            for i, e in enumerate(layout)]
                if stations[0]["phase"] != stations[-1]["phase"]:
                    for s_ in stations:
                        s_["phase"] = 0
                net = {"stations": stations, "constraints": [{"name": "feeder", "coeffs": {s_["id"]: 1 for s_ in stations}, "limit": lim}],
                       "tol": None}
                order = list(range(len(stations)))
                if flip:
                    order.reverse()
                sessions = []
                for k, i in enumerate(order):
                    a = k  # distinct arrivals; later arrivals depart earlier when flipped
                    dep = 14 - 2 * k if flip else 9 + 2 * k
                    sessions.append({"id": f"x{k}", "station": f"s{i}", "arrival": a, "departure": dep, "requested": rng.choice([4, 9, 30]),
                                     "est_dep": dep + rng.choice([0, 0, 2]),
                                     "battery": {"t": "ideal", "cap": 100, "init": 0, "maxp": 20}})
                for sort in gen.SORTS:
                    for algo in ("greedy", "rr"):
                        out.append({"period": 5, "start": [2020, 3, 1, 8, 0], "network": net, "sessions": sessions, "recompute": [],
                                    "scheduler": {"kind": "sorted", "algo": algo, "sort": sort, "est": rng.choice([None, None, "fixed"]),
                                                  "unint": True, "inc": rng.choice([0.5, 1]), "seed": rng.randrange(1 << 20)},
                                    "np_seed": 1})
    # a feeder filled to the last ampere by two cars, a third car whose whole remaining demand is a few thousandths of an
    # ampere-period (still "unsatisfied": more than 1e-3 kWh) - hour-long and day-long periods make that common
    for per_, V_, req3 in ((60, 208, 0.0015), (60, 240, 0.0019), (1440, 208, 0.03), (60, 277, 0.0021), (1440, 240, 0.05)):
        for sort in ("fcfs", "edf", "llf"):
            stations = [{"id": f"s{i}", "evse": {"t": "EVSE", "max": 32, "min": 0}, "voltage": V_, "phase": 0} for i in range(3)]
            net = {"stations": stations, "constraints": [{"name": "feeder", "coeffs": {s_["id"]: 1 for s_ in stations}, "limit": 64}], "tol": None}
            sessions = [{"id": f"x{k}", "station": f"s{k}", "arrival": k, "departure": 6 + k, "requested": [500, 500, req3][k], "est_dep": 6 + k,
                         "battery": {"t": "ideal", "cap": 1000, "init": 0, "maxp": 500}} for k in range(3)]
            out.append({"period": per_, "start": [2020, 3, 1, 8, 0], "network": net, "sessions": sessions, "recompute": [],
                        "scheduler": {"kind": "sorted", "algo": "greedy", "sort": sort, "est": None, "unint": False, "inc": 0.5, "seed": 1}, "np_seed": 1})
    res = [{"desc": d, "corpus": True} for d in out]
    # an algorithm + estimator object that has just served another study in which the SAME session ids sat on larger stations:
    # whatever it remembers about them must not exceed what today's station takes
    for algo in ("greedy", "rr"):
        for est in ("rampdown", "fixed"):
            for big_max, small_max in ((80, 32), (64, 16), (48, 6.5)):
                sd = {"kind": "sorted", "algo": algo, "sort": rng.choice(gen.SORTS), "est": est, "unint": False, "inc": 0.5, "seed": rng.randrange(1 << 20)}

                def study(mx, dep):
                    return {"period": 5, "start": [2020, 3, 1, 8, 0], "recompute": [], "np_seed": 1, "scheduler": dict(sd),
                            "network": {"stations": [{"id": f"s{i}", "evse": {"t": "EVSE", "max": mx, "min": 0}, "voltage": 208, "phase": 0}
                                                     for i in range(2)], "constraints": [], "tol": None},
                            "sessions": [{"id": f"x{i}", "station": f"s{i}", "arrival": i, "departure": dep, "requested": 90, "est_dep": dep,
                                          "battery": {"t": "ideal", "cap": 200, "init": 0, "maxp": 50}} for i in range(2)]}

                res.append({"desc": study(small_max, 8), "warm": study(big_max, 4), "corpus": True})
    return res


def cases(seed, tier):
    rng = random.Random(f"C07:{seed}")
    n = 900 if tier == "quick" else 18000
    out = _corpus(random.Random(f"C07c:{seed}"))
    for i in range(n):
        d = gen.scenario(rng, sched="sorted", kinds=("EVSE", "FR"), noise_p=0.2, constraint_free_p=0.08, nmax=7, sess_max=9,
                         sid_style="other_station", bind=rng.random() < 0.8, bkinds=("ideal", "l2c", "l2c", "l2s"),
                         seed=rng.randrange(1 << 20), sort=gen.SORTS[i % 5], algo=("greedy", "rr")[(i // 5) % 2])
        if i % 2:
            d["sessions"] = gen.dense_sessions(rng, d["network"], sid_other_p=0.25)
            d["recompute"] = []
        if rng.random() < 0.25:
            d["edits"] = gen.rand_edits(rng, d["network"], max(s_["departure"] for s_ in d["sessions"]))
        if rng.random() < 0.2:
            d["scheduler"]["mr"] = rng.choice([2, 3, 5])  # recomputed only every k periods (and at events)
        if rng.random() < 0.07:
            # a user subclass overriding the documented run_preprocessing hook (EVSE limits only): still a sorting-based algorithm
            d["scheduler"].update(user_pre=True, est=None, unint=False)
        c = {"desc": d}
        if rng.random() < 0.15:
            c["transient_post"] = rng.choice([2, 3, 4, 6])
        if rng.random() < 0.12:
            c["warm"] = gen.scenario(rng, sched=dict(d["scheduler"]), kinds=("EVSE", "FR"), nmax=5, sess_max=6, constraint_free_p=0.1)
            if rng.random() < 0.5:
                # (same number of stations as today's network: a work array sized by the network would be taken over as it is)
                c["warm"] = gen.scenario(rng, sched=dict(d["scheduler"]), kinds=("EVSE", "FR"), nmax=len(d["network"]["stations"]), sess_max=8, constraint_free_p=0.3)
                c["warm_abandoned_at"] = rng.choice([1, 2, 3, 5])
        out.append(c)
    # the predefined sites (real three-phase wiring, 54 / 52 / 8 stations), many sessions competing behind the transformers
    for i in range(12 if tier == "quick" else 400):
        out.append({"site": ["caltech", "jpl", "office001"][i % 3], "basic": i % 2 == 0, "seed": rng.randrange(1 << 30),
                    "sort": gen.SORTS[i % 5], "algo": ("greedy", "rr")[(i // 3) % 2]})
    return out


def run_case(case, obs):
    site_net = None
    if "site" in case:
        try:
            d, site_net = build.site_scenario(case)
        except (AttributeError, KeyError, ImportError) as e:
            # the site factories or the private EVSE table are not reachable the way this harness reads them: not judged
            obs.ev("site_scenario_unavailable_not_judged")
            return
        case = dict(case, desc=d)
        obs.ev("runs_on_predefined_sites")
    d = case["desc"]
    sd = d["scheduler"]
    ids, A, L, angles, names = oracles.dense_rows(d["network"])
    st = {s["id"]: s for s in d["network"]["stations"]}
    sess = {s["id"]: s for s in d["sessions"]}
    period = d["period"]
    warm = case.get("warm")
    if warm is not None:
        # the algorithm object is not new: it has just run a whole other simulation (other network, other sessions)
        import warnings as _w
        algo0 = build.build_scheduler(d)
        sim0, _ = build.build_sim(warm, scheduler=algo0)
        abandon_at = case.get("warm_abandoned_at")
        if abandon_at is not None:
            # ... and that other study was ABANDONED half-way: the user's post-processing step raised at its k-th call and the
            # simulation was never resumed; today's study starts with whatever the algorithm object kept from the failed call
            orig_post0 = algo0.run_postprocessing
            st0_ = {"n": 0}

            def failing_post(*a_, **k_):
                st0_["n"] += 1
                if st0_["n"] == abandon_at:
                    raise RuntimeError("failure in the user's post-processing step; study abandoned")
                return orig_post0(*a_, **k_)

            algo0.run_postprocessing = failing_post
        with _w.catch_warnings():
            _w.simplefilter("ignore")
            try:
                sim0.run()
            except Exception:
                if abandon_at is not None:
                    obs.ev("runs_with_an_algorithm_object_whose_previous_study_was_abandoned_mid_call")
        if abandon_at is not None:
            del algo0.run_postprocessing
        sim, evs = build.build_sim(d, scheduler=algo0)
        obs.ev("runs_with_a_reused_algorithm_object")
    else:
        sim, evs = build.build_sim(d, network=site_net)
    algo = sim.scheduler
    net = sim.network
    est = getattr(algo, "max_rate_estimator", None)
    records = []
    est_log = {}
    wit = dict(scenario=d)

    def before_run(_o, a, k):
        pre = {}
        for sid_ in ids:
            ev = net.get_ev(sid_)
            if ev is not None:
                pre[sid_] = (ev.session_id, float(ev.requested_energy) - float(ev.energy_delivered))
        return (sim.iteration, pre)

    def after_run(ctx, result, exc):
        t, pre = ctx
        records.append((t, pre, result, repr(exc) if exc is not None else None, dict(est_log.get(t, {})) if est is not None else None))

    def after_est(ctx, result, exc):
        if exc is None and isinstance(result, dict):
            est_log[sim.iteration] = {k: float(v) for k, v in result.items()}

    wraps = [Wrap(algo, "run", before=before_run, after=after_run)]
    if est is not None:
        wraps.append(Wrap(est, "get_maximum_rates", after=after_est))
    for w in wraps:
        w.install()
    ed = simrun.install_edits(sim, d.get("edits"))
    if d.get("edits"):
        obs.ev("runs_with_mid_run_constraint_edits")
    tp_ = case.get("transient_post")
    if tp_ is not None and hasattr(algo, "run_postprocessing"):
        # the user's post-processing step fails once (a full disk while logging the plan): the caller catches the exception and
        # calls run() again; every later plan of the same algorithm object is judged like any other
        orig_post = algo.run_postprocessing
        st_ = {"n": 0}

        def flaky_post(*a_, **k_):
            st_["n"] += 1
            if st_["n"] == tp_:
                raise RuntimeError("transient failure in the user's post-processing step")
            return orig_post(*a_, **k_)

        algo.run_postprocessing = flaky_post
    probe = SimProbe(sim, snapshots=False)
    probe.step_limit = simrun.last_event_ts(d) + 4
    probe.attach()
    probe.run()
    if tp_ is not None and isinstance(probe.exception, RuntimeError) and "transient failure" in str(probe.exception):
        obs.ev("runs_resumed_after_a_transient_failure_inside_the_algorithm")
        probe.run()
    probe.detach()
    for w in reversed(wraps):
        w.remove()
    if ed is not None:
        ed.remove()

    obs.evals = 0
    obs.ev("runs_judged")
    obs.ev("algo:" + sd["algo"])
    if sd.get("user_pre"):
        obs.ev("runs_with_a_user_subclass_overriding_run_preprocessing")
    obs.ev("sort:" + sd["sort"])
    obs.ev("est:" + str(sd.get("est")))
    obs.ev("unint:on" if sd.get("unint") else "unint:off")
    for s in d["network"]["stations"]:
        obs.ev("evse:" + s["evse"]["t"])
    if any(v < 0 for row in A for v in row):
        obs.ev("mixed_sign_network")
    if probe.exception is not None:
        e = probe.exception
        obs.violate("run_raised:" + type(e).__name__, f"{type(e).__name__}: {e} in period {sim.iteration}", **wit)
    for w in probe.warnings:
        if "Invalid schedule" in str(w.message):
            obs.violate("infeasible_schedule_warning", str(w.message)[:200], **wit)
            break

    for t, pre, out, exc, bounds in records:
        if exc is not None or out is None:
            continue
        obs.evals += 1
        obs.ev("invocations_judged")
        if d.get("edits"):
            ids, A, L, angles, names = oracles.dense_rows(gen.network_at(d["network"], d["edits"], t))
            if any(e["after"] < t for e in d["edits"]):
                obs.ev("invocations_after_an_edit")
        w_ = dict(wit, period=t, schedule=out, pre_state=pre, estimator_bounds=bounds)
        # 1. shape: one row per station, rows of one common length >= 1 (the algorithms plan one period; a longer plan is judged
        #    column by column and, per session, against the remaining demand as a whole)
        lens = {len(v) for v in out.values()}
        if not set(out) <= set(ids) or len(lens) > 1 or 0 in lens:
            obs.violate("schedule_shape", f"period {t}: keys {sorted(out)} lengths {[len(v) for v in out.values()]} (stations {ids})", **w_)
            continue
        Lr = lens.pop() if lens else 1
        if set(out) != set(ids):
            obs.ev("schedules_omitting_stations")  # an omitted station is a station at 0 A (C04)
        rows_full = {i: ([float(x) for x in out[i]] if i in out else [0.0] * Lr) for i in ids}
        if Lr > 1:
            obs.ev("multi_period_schedules_judged")
            bad = False
            for j in range(1, Lr):
                col = [rows_full[i][j] for i in ids]
                if not all(math.isfinite(x) for x in col):
                    obs.violate("schedule_not_finite", f"period {t} column {j}: {col}", **w_)
                    bad = True
                    break
                if L:
                    worst, where = oracles.margins(A, L, angles, [[x] for x in col], 1e-5, 1e-7)
                    if worst > oracles.guard(L):
                        obs.violate("schedule_infeasible", f"period {t} column {j}: constraint {names[where[0]]} exceeded", **w_)
                        bad = True
                        break
                for i, sid_ in enumerate(ids):
                    ok, dist = oracles.evse_accepts(st[sid_]["evse"], F(col[i]))
                    if dist >= F(1, 10 ** 9) and not ok:
                        obs.violate("pilot_not_accepted_by_evse", f"period {t} column {j}: station {sid_} pilot {col[i]!r}", **w_)
                        bad = True
                    rem_ = pre.get(sid_, (None, 0.0))[1]
                    if col[i] != 0 and not rem_ > 1e-3 + 1e-9:
                        obs.violate("pilot_on_vacant_station" if sid_ not in pre else "pilot_for_satisfied_session",
                                    f"period {t} column {j}: station {sid_} pilot {col[i]!r}", **w_)
                        bad = True
                    elif col[i] != 0:
                        amp_ = rem_ * 1000.0 / st[sid_]["voltage"] * 60.0 / period
                        if sum(rows_full[sid_]) > max(amp_, rows_full[sid_][0]) + 1e-9 * max(1.0, amp_):
                            obs.violate("schedule_exceeds_remaining_demand", f"period {t}: station {sid_} is allotted {sum(rows_full[sid_])!r} "
                                        f"amp-periods over {Lr} periods, remaining demand {amp_!r}", **w_)
                            bad = True
                if bad:
                    break
            if bad:
                continue
        s = [rows_full[i][0] for i in ids]
        if not all(math.isfinite(x) for x in s):
            obs.violate("schedule_not_finite", f"period {t}: {s}", **w_)
            continue
        # 2. feasibility (default tolerances)
        if L:
            worst, where = oracles.margins(A, L, angles, [[x] for x in s], 1e-5, 1e-7)
            g = oracles.guard(L)
            obs.ev("feasibility_judged")
            if worst > g:
                obs.violate("schedule_infeasible", f"period {t}: constraint {names[where[0]]} exceeded by {worst + 1e-5:.6g} A beyond its limit+tol", **w_)
            elif worst > -g:
                obs.boundary += 1
            binding = worst > -0.5
            if binding:
                obs.ev("binding_invocations")
        else:
            binding = False
        # 3.-5. per station
        n_active = 0
        near_done = False
        for i, sid_ in enumerate(ids):
            p = s[i]
            e = st[sid_]["evse"]
            V = st[sid_]["voltage"]
            ok, dist = oracles.evse_accepts(e, F(p))
            obs.ev("acceptance_judged")
            if dist < F(1, 10 ** 9):
                obs.boundary += 1
            elif not ok:
                obs.violate("pilot_not_accepted_by_evse", f"period {t}: station {sid_} ({e}) pilot {p!r}", **w_)
            if sid_ not in pre:
                obs.ev("inactive_station_zero_checked")
                if p != 0:
                    obs.violate("pilot_on_vacant_station", f"period {t}: station {sid_} has no EV but pilot {p!r}", **w_)
                continue
            session_id, rem = pre[sid_]
            if abs(rem - 1e-3) <= 1e-9:
                obs.boundary += 1
                continue
            if not rem > 1e-3:
                obs.ev("inactive_station_zero_checked")
                if p != 0:
                    obs.violate("pilot_for_satisfied_session", f"period {t}: station {sid_} session {session_id} has {rem} kWh left but pilot {p!r}", **w_)
                continue
            n_active += 1
            amp = rem * 1000.0 / V * 60.0 / period
            smax = gen.evse_max(e)
            allowed = min(amp, smax)
            obs.ev("bounds_judged")
            if amp < smax:
                near_done = True
            if p > 0 and abs(p - amp) <= 0.011 and amp < smax:
                obs.ev("amp_periods_binding")
            if bounds is not None and session_id in bounds:
                floor = gen.evse_min(e) if sd.get("unint") else 0
                eb = max(bounds[session_id], floor)
                if eb < allowed:
                    allowed = eb
                    if session_id != sid_:
                        obs.ev("estimator_bound_sid_differs_from_station")
                    if p > 0 and p >= eb - 0.011:
                        obs.ev("estimator_bound_binding")
            if p > allowed + 1e-9 * max(1.0, allowed):
                obs.violate("pilot_exceeds_bound", f"period {t}: station {sid_} session {session_id}: pilot {p!r} > allowed {allowed!r} "
                            f"(remaining amp-periods {amp:.6g}, station max {smax}, estimator {None if bounds is None else bounds.get(session_id)}, "
                            f"uninterrupted {bool(sd.get('unint'))})", **w_)
            if p < 0:
                obs.violate("negative_pilot", f"period {t}: station {sid_} pilot {p!r}", **w_)
        if n_active >= 2 and (binding or near_done):
            obs.nontrivial([obs.case_hash, t])
    # run-level consequence: never more than requested
    for sid_, ev in sim.ev_history.items():
        rq = sess[sid_]["requested"]
        if ev.energy_delivered > rq * (1 + 1e-9) + 1e-12:
            obs.violate("overdelivered", f"session {sid_}: delivered {ev.energy_delivered!r} kWh > requested {rq!r}", **wit)
    obs.sample = {"stations": len(ids), "constraints": names, "sessions": len(sess), "algo": sd["algo"], "sort": sd["sort"], "est": sd.get("est"),
                  "unint": sd.get("unint"), "inc": sd.get("inc"), "invocations": len(records),
                  "first_schedules": [r[2] for r in records[:3]]}


def classify(v):
    return None
