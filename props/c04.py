"""C04 — applied pilots are exactly what the submitted schedules say."""
import random

import numpy as np

from vlib import build, gen, simrun
from vlib.monitors import Wrap, SimProbe, defining_classes

ID = "C04"
META = {
    "technique": "runtime monitoring: submitted schedules recorded at the scheduler boundary and replayed into an overlay reference model; recorded pilot matrix, every set_pilot call (class-level wrapper) and probe-EV rates compared with the model; rejection snapshots before/after",
    "design_ref": "DESIGN.md section 6 C04",
    "level_text": "exploration: generated sequences of schedules (subsets of stations, lengths 1..45, empty, beyond the horizon incl. in the last period, int/float/numpy values, shuffled mapping order, infeasible) under all max_recompute settings; the pilot matrix and each applied pilot are compared with an overlay model, a twin run with a differently ordered/typed mapping must give identical outputs, malformed schedules must be refused with all observable state unchanged; bidirectional stations with pilots cancelling across stations; schedulers that probe Interface.is_feasible with richer candidates before submitting; schedule rows as pandas Series with unusual labels and as read-only strided views; finished simulations continued with a later event, every period simulated; schedules as defaultdict / proxy / ChainMap / UserDict",
    "level_note": "schedules are recorded as returned by the scheduler (client boundary), not inside the simulator; pilots are always EVSE-valid so that only the property's own rejections occur; EVSE objects are held by the harness to read current_pilot",
}
LEVEL = "exploration"
RULE = ("case = one scenario with a scripted schedule stream (optionally one malformed schedule); non-trivial = >=2 overlapping "
        "schedules and >=1 omitted station; distinct = distinct scenario descriptors")
ASSUMPTIONS = [
    "every submitted pilot is acceptable to its EVSE (C13 covers rejection of invalid pilots)",
    "probe-EV confirmation uses ideal batteries far from full with huge max power, so actual rate == pilot",
]
ANCHORS = [
    "acnportal.acnsim.simulator:Simulator._update_schedules",
    "acnportal.acnsim.simulator:Simulator.run",
    "acnportal.acnsim.simulator:_increase_width",
    "acnportal.acnsim.network.charging_network:ChargingNetwork.update_pilots",
]
REQUIRED = ["finished_simulations_continued_with_a_later_event", "runs_judged", "schedules_submitted", "empty_schedules", "schedules_beyond_horizon", "schedule_in_last_period_beyond_horizon",
            "set_pilot_calls_checked", "held_pilots_checked", "runs_with_negative_pilots_cancelling_across_stations", "plans_of_thousands_of_periods", "feasibility_queries_on_candidates_before_submitting", "schedules_resubmitting_views_of_the_pilot_matrix", "runs_with_one_mapping_object_overwritten_in_place", "twin_runs", "malformed_unknown_station_rejected", "malformed_unequal_rejected", "resumed_after_rejection",
            "probe_ev_cells_checked", "regime:mr-None", "regime:mr-1", "regime:mr-k"]
BUDGET_S = {"quick": 240, "thorough": 3000}

PLOG = {"cur": None}
_WRAPS = []


def _before(evse, a, k):
    log = PLOG["cur"]
    if log is not None:
        sim = PLOG.get("sim")
        log.append((evse.station_id, float(a[0] if a else k.get("pilot")), None if sim is None else sim.iteration))


def worker_init():
    from acnportal.acnsim.models import BaseEVSE
    for cls in defining_classes(BaseEVSE, "set_pilot"):
        _WRAPS.append(Wrap(cls, "set_pilot", before=_before).install())


def cases(seed, tier):
    rng = random.Random(f"C04:{seed}")
    n = 1200 if tier == "quick" else 30000
    out = []
    # corpus: a long schedule submitted in the very last period of the run (queue already empty)
    ev = {"t": "EVSE", "max": 32, "min": 0}
    net = {"stations": [{"id": "s0", "evse": ev, "voltage": 208, "phase": 0}, {"id": "s1", "evse": ev, "voltage": 240, "phase": 0}],
           "constraints": [{"name": "agg", "coeffs": {"s0": 1, "s1": 1}, "limit": 40.37}], "tol": None}
    big = {"t": "ideal", "cap": 1e6, "init": 0, "maxp": 1e4}
    for mr in (None, 1, 3):
        out.append({"desc": {"period": 5, "network": net, "recompute": [],
                             "sessions": [{"id": "x0", "station": "s0", "arrival": 0, "departure": 3, "requested": 1e5, "est_dep": 3, "battery": big}],
                             "scheduler": {"kind": "scripted", "mr": mr, "seed": 7, "t0": 0, "p_empty": 0.0, "max_len": 2, "p_st": 1.0,
                                           "mode": "random", "long_p": 1.0}, "np_seed": 1}, "malform": None})
    # plans of thousands of periods (a week of 1-minute periods is 10080): accepted whole, the matrix grows to hold them
    for L in ([1025, 10100] if tier == "quick" else [1025, 4097, 8193, 10081, 10100, 20000, 44641]):
        for at in (0, 2):
            out.append({"desc": {"period": 1, "network": net, "recompute": [],
                                 "sessions": [{"id": "x0", "station": "s0", "arrival": 0, "departure": 4, "requested": 1e5, "est_dep": 4, "battery": big}],
                                 "scheduler": {"kind": "scripted", "mr": 1, "seed": 11 + L, "t0": 0, "mode": "one_long", "L": L, "at": at, "typed": L < 5000},
                                 "np_seed": 1}, "malform": None, "long_plan": True})
    for i in range(n):
        d = gen.scenario(rng, sched="scripted", big=rng.random() < 0.5, long_p=rng.choice([0, 0.1, 0.5]),
                         max_len=rng.choice([1, 3, 5, 12]), p_empty=rng.choice([0.0, 0.15, 0.4]))
        if rng.random() < 0.15:
            d["scheduler"].update(mode="allrand", buffered=True, max_len=rng.choice([1, 1, 2, 3]), mr=rng.choice([1, 1, 2]))
        if rng.random() < 0.3:
            d["scheduler"]["probe_p"] = 0.6
        if rng.random() < 0.2:
            d["scheduler"]["resubmit_p"] = 0.6
        if rng.random() < 0.08:
            # bidirectional (V2G) stations: ranges extending below zero and schedules whose pilots cancel across stations
            for st_ in d["network"]["stations"]:
                st_["evse"] = {"t": "EVSE", "max": 32, "min": -32}
            d["scheduler"].update(mode="cancel", mr=rng.choice([1, 1, None, 2]))
            d["scheduler"].pop("buffered", None)
            d["v2g"] = True
        mal = None
        if rng.random() < 0.25:
            last = max(s["departure"] for s in d["sessions"])
            mal = {"at": rng.randint(0, last), "kind": rng.choice(["unknown_station", "unequal"])}
        out.append({"desc": d, "malform": mal, "continue_after": rng.choice([2, 3, 5, 9]) if (mal is None and rng.random() < 0.2) else None})
    return out


def _make_scheduler(d, mal, typed, snap_box):
    Scripted = build.make_scripted_class()

    class Mal(Scripted):
        def schedule(self, active_sessions):
            t = self.interface.current_time
            if mal is not None and mal["at"] == t and not snap_box.get("fired"):
                snap_box["fired"] = True
                ids = sorted(s["id"] for s in d["network"]["stations"])
                if mal["kind"] == "unknown_station" or len(ids) < 2:
                    sch = {ids[0]: [0, 0], "no-such-station": [0, 0]}
                    kind = "unknown_station"
                else:
                    sch = {ids[0]: [0, 0], ids[1]: [0]}
                    kind = "unequal"
                snap_box["kind"] = kind
                snap_box["t"] = t
                snap_box["snap"] = snap_box["take"]()
                self.submitted.append((t, "BAD"))
                return sch
            return super().schedule(active_sessions)

    return Mal(d["scheduler"], d["network"], typed=typed)


def _overlay(ids, subs, width):
    W = max([width] + [t + len(next(iter(s.values()))) for t, s in subs if s and s != "BAD"])
    M = np.zeros((len(ids), W))
    row = {st: i for i, st in enumerate(ids)}
    for t, s in subs:
        if not s or s == "BAD":
            continue
        L = len(next(iter(s.values())))
        M[:, t:t + L] = 0
        for st, vs in s.items():
            M[row[st], t:t + L] = vs
    return M


def _run(d, mal, typed, cont=0):
    box = {}
    sch = _make_scheduler(d, mal, typed, box)
    sim, evs = build.build_sim(d, scheduler=sch, store_schedule_history=mal is not None)
    evses = dict(build.LAST_EVSES)

    def take():
        hist = None if sim.schedule_history is None else sorted(sim.schedule_history)
        return (sim.pilot_signals.copy(), sim.charging_rates.copy(), {e.session_id: e.energy_delivered for e in evs},
                sim.iteration, {k: v.current_pilot for k, v in evses.items()}, sim.peak, hist)

    box["take"] = take
    held = box["held"] = []  # (period, {station: pilot the EVSE holds at the end of the period}), occupied or vacant alike

    def end_of_period(ctx, result, exc):
        held.append((sim.iteration, {k: v.current_pilot for k, v in evses.items()}))

    from vlib.monitors import Wrap
    hold = Wrap(sim.network, "post_charging_update", after=end_of_period).install()
    probe = SimProbe(sim, snapshots=False)
    probe.step_limit = simrun.last_event_ts(d) + 5
    PLOG["cur"] = plog = []
    PLOG["sim"] = sim
    probe.attach()
    try:
        probe.run()
        if cont and probe.exception is None and box.get("snap") is None:
            # the finished simulation is continued: a later event is added to its (empty) queue and run() is called again; the
            # periods in between are simulated like any others (a standing plan keeps being applied, then zeros)
            from acnportal.acnsim.events import RecomputeEvent
            box["continued_from"] = sim.iteration
            sim.event_queue.add_event(RecomputeEvent(sim.iteration + cont))
            probe.step_limit += cont + 3
            probe.run()
            box["continued_to"] = sim.iteration
    finally:
        PLOG["cur"] = PLOG["sim"] = None
        probe.detach()
        hold.remove()
    return sim, evs, probe, sch, plog, box


def run_case(case, obs):
    from acnportal.acnsim.interface import InvalidScheduleError
    d, mal = case["desc"], case.get("malform")
    cont = case.get("continue_after") or 0
    sim, evs, probe, sch, plog, box = _run(d, mal, True, cont=cont)
    if box.get("continued_to") is not None:
        obs.ev("finished_simulations_continued_with_a_later_event")
        if box["continued_to"] != box["continued_from"] + cont + 1 and probe.exception is None:
            obs.violate("continued_run_wrong_end", f"run finished at period {box['continued_from']}, an event was added at {box['continued_from'] + cont} and "
                        f"run() called again: iteration {box['continued_to']}", scenario=d)
    if d.get("v2g"):
        obs.ev("runs_with_negative_pilots_cancelling_across_stations")
    if case.get("long_plan"):
        obs.ev("plans_of_thousands_of_periods")
    if getattr(sch, "resubmitted", 0):
        obs.ev("schedules_resubmitting_views_of_the_pilot_matrix", sch.resubmitted)
    if getattr(sch, "probed", 0):
        obs.ev("feasibility_queries_on_candidates_before_submitting", sch.probed)
    wit = dict(scenario=d, malform=mal)
    ids = list(sim.network.station_ids)
    subs = sch.submitted
    exc = probe.exception
    mr = d["scheduler"].get("mr")
    obs.regime("regime:mr-None" if mr is None else "regime:mr-1" if mr == 1 else "regime:mr-k")
    if box.get("snap") is not None:
        # a malformed schedule was submitted: must be refused, nothing may change
        kind = box["kind"]
        ok_type = (isinstance(exc, KeyError) if kind == "unknown_station" else isinstance(exc, InvalidScheduleError))
        if exc is None:
            obs.violate("malformed_schedule_accepted", f"{kind} schedule at period {box['t']} was accepted", **wit)
            return
        if not ok_type:
            # "rejected with an error": WHICH error class is the library's choice; recorded, not judged
            obs.ev("malformed_schedule_refused_with_other_error:" + type(exc).__name__)

        def same(a, b):
            if isinstance(a, np.ndarray) and isinstance(b, np.ndarray) and a.ndim == b.ndim == 2 and a.shape[0] == b.shape[0]:
                # how many (all-zero) columns the matrices hold in reserve is storage, not state
                w = max(a.shape[1], b.shape[1])
                pa = np.zeros((a.shape[0], w)); pa[:, :a.shape[1]] = a
                pb = np.zeros((b.shape[0], w)); pb[:, :b.shape[1]] = b
                return np.array_equal(pa, pb)
            return np.array_equal(a, b) if isinstance(a, np.ndarray) else a == b

        now = box["take"]()
        what = [n for n, a, b in zip(["pilot_signals", "charging_rates", "energies", "iteration", "EVSE pilots", "peak", "schedule_history"],
                                     box["snap"], now) if not same(a, b)]
        if what:
            obs.violate("rejected_schedule_changed_state", f"{kind} schedule refused but {what} changed", **wit)
        obs.ev("malformed_" + kind + "_rejected")
        # nothing changed, so the period is still to be scheduled: calling run() again asks the scheduler again in that very
        # period (it now answers with a well-formed schedule) and the run completes; judged below like any other run
        probe.attach()
        try:
            exc2 = probe.run()
        finally:
            probe.detach()
        obs.ev("resumed_after_rejection")
        if exc2 is not None:
            obs.violate("run_raised", f"after a rejected schedule, run() again: {type(exc2).__name__}: {exc2}", **wit)
            return
        asked = [t for t, _ in subs]
        tb = box["t"]
        if asked.count(tb) < 2:
            obs.violate("rejected_schedule_consumed_the_period", f"{kind} schedule refused in period {tb}; on the next run() the scheduler was "
                        f"not asked again for that period (asked in {asked[:12]})", **wit)
        T = sim.iteration
    else:
        if exc is not None:
            obs.violate("run_raised", f"{type(exc).__name__}: {exc}", exc_type=type(exc).__name__, iteration=sim.iteration, **wit)
            return
        T = sim.iteration
    obs.ev("runs_judged")
    if d["scheduler"].get("buffered"):
        obs.ev("runs_with_one_mapping_object_overwritten_in_place")
    good = [(t, s) for t, s in subs if s != "BAD"]
    obs.ev("schedules_submitted", len(good))
    obs.ev("empty_schedules", sum(1 for _, s in good if not s))
    # ---- overlay model vs recorded matrix (all stored columns)
    P = sim.pilot_signals
    M = _overlay(ids, good, P.shape[1])
    W = max(M.shape[1], P.shape[1])
    Mp = np.zeros((len(ids), W)); Mp[:, :M.shape[1]] = M
    Pp = np.zeros((len(ids), W)); Pp[:, :P.shape[1]] = P
    horizon = simrun.last_event_ts(d) + 1
    for t, s in good:
        if s and t + len(next(iter(s.values()))) > horizon:
            obs.ev("schedules_beyond_horizon")
            if t == horizon - 1:
                obs.ev("schedule_in_last_period_beyond_horizon")
    # after a refusal the refused period was not simulated; compare what exists
    if not np.array_equal(Pp, Mp):
        bad = np.argwhere(Pp != Mp)[0]
        obs.violate("pilot_matrix_vs_schedules", f"station {ids[bad[0]]} period {int(bad[1])}: recorded pilot {Pp[tuple(bad)]!r}, schedules say {Mp[tuple(bad)]!r}",
                    submitted=[(t, s) for t, s in good][:8], **wit)
    # ---- every applied pilot (set_pilot log, each call tagged with the simulator's period at the time of the call) equals the
    # model.  A station that receives no call in a period is not judged here (a network may skip stations whose pilot does not
    # change); what every EVSE holds at the end of every period is judged by the next leg.
    n = len(ids)
    a_periods = [t for t, letter, _ in probe.trace if letter == "A"]
    per_period = {}
    for st, pv, t in plog:
        per_period.setdefault(t, []).append((st, pv))
    for t in a_periods:
        grp = per_period.get(t, [])
        if len(grp) != n and box.get("snap") is None:  # (after a refusal the resumed part of the run is not logged)
            obs.ev("periods_with_fewer_set_pilot_calls_than_stations")
        bad = False
        for st, pv in grp:
            obs.ev("set_pilot_calls_checked")
            if t < Mp.shape[1] and st in ids and pv != Mp[ids.index(st), t]:
                obs.violate("applied_pilot_vs_schedules", f"period {t} station {st}: EVSE received {pv!r}, schedules say {Mp[ids.index(st), t]!r}", **wit)
                bad = True
                break
        if bad:
            break
    # ---- every period up to the end of the run was simulated: pilots applied, end-of-period hook run, once
    held_t = [t for t, _ in box.get("held", [])]
    if box.get("snap") is None and held_t != list(range(T)):
        miss = sorted(set(range(T)) - set(held_t))[:6]
        obs.violate("period_not_simulated", f"periods {miss} of {T} were never simulated (no pilots applied, no end-of-period step); "
                    f"periods seen: {held_t[:4]}..{held_t[-3:]}", continued_from=box.get("continued_from"), **wit)
    # ---- the pilot each EVSE holds at the end of every period (vacant stations included) equals the model
    for t, pilots in box.get("held", []):
        if t >= Mp.shape[1]:
            continue
        for st, pv in pilots.items():
            obs.ev("held_pilots_checked")
            if pv != Mp[ids.index(st), t]:
                obs.violate("held_pilot_vs_schedules", f"period {t} station {st}: EVSE holds pilot {pv!r} at the end of the period, schedules say "
                            f"{Mp[ids.index(st), t]!r}", **wit)
                break
        else:
            continue
        break
    # ---- probe EVs: the value reached the EV
    if all(s["battery"].get("cap", 0) >= 1e6 for s in d["sessions"]):
        for s in d["sessions"]:
            i = ids.index(s["station"])
            for t in range(s["arrival"], min(s["departure"], T)):
                obs.ev("probe_ev_cells_checked")
                if not abs(sim.charging_rates[i, t] - Mp[i, t]) <= 1e-9 * max(1, Mp[i, t]):
                    obs.violate("probe_ev_rate_vs_schedules", f"station {s['station']} period {t}: EV drew {sim.charging_rates[i, t]!r}, schedules say {Mp[i, t]!r}", **wit)
                    break
    # ---- infeasible schedules only warn
    nwarn = sum(1 for w in probe.warnings if "Invalid schedule" in str(w.message))
    obs.ev("infeasible_schedule_warnings", nwarn)
    # ---- twin run: plain floats, sorted mapping order -> identical outputs
    if box.get("snap") is None:
        sim2, evs2, probe2, sch2, plog2, _ = _run(d, None, False, cont=cont)
        obs.ev("twin_runs")
        if probe2.exception is not None or sim2.pilot_signals.shape != sim.pilot_signals.shape or \
                not np.array_equal(sim2.pilot_signals, sim.pilot_signals) or not np.array_equal(sim2.charging_rates, sim.charging_rates):
            obs.violate("mapping_order_or_value_type_matters", "twin run with plain floats in sorted key order differs from the run with shuffled keys / numpy / int values", **wit)
    # ---- non-trivial?
    overl = 0
    for (t1, s1), (t2, s2) in zip(good, good[1:]):
        if s1 and s2 and t1 + len(next(iter(s1.values()))) > t2:
            overl += 1
    omitted = any(s and len(s) < len(ids) for _, s in good)
    if overl >= 1 and omitted:
        obs.nontrivial()
    obs.sample = {"stations": len(ids), "mr": mr, "schedules": len(good), "first_schedules": good[:3], "periods": T,
                  "malform": mal, "infeasible_warnings": nwarn}


def classify(v):
    return None
