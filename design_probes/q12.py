# C12 probe: model-based op sequences, current algebra trees
import warnings, numpy as np, random, sys
from acnportal.acnsim.network import Current, ChargingNetwork
from acnportal.acnsim.network.charging_network import EVSERegistrationError
from acnportal.acnsim.models import EVSE
import pandas as pd
warnings.simplefilter("ignore")
def tree(rng, ids, depth, allow_scalar_operand):
    if depth==0 or rng.random()<0.3:
        sub=rng.sample(ids,rng.randint(1,len(ids))); form=rng.choice(['dict','list','str','series'])
        if form=='str': s=sub[0]; return Current(s),{s:1.0}
        if form=='list': return Current(sub),{s:1.0 for s in sub}
        d={s:rng.choice([1,-1,0.5,2,0.25]) for s in sub}
        return (Current(d) if form=='dict' else Current(pd.Series(d))),{k:float(v) for k,v in d.items()}
    op=rng.choice(['+','-','*'])
    if op=='*':
        c,m=tree(rng,ids,depth-1,allow_scalar_operand); k=rng.choice([2,0.25,-1,3])
        r=(k*c) if rng.random()<0.5 else (c*k)
        return r,{s:k*v for s,v in m.items()}
    a,ma=tree(rng,ids,depth-1,allow_scalar_operand); b,mb=tree(rng,ids,depth-1,allow_scalar_operand)
    keys=set(ma)|set(mb)
    if op=='+': return a+b,{s:ma.get(s,0)+mb.get(s,0) for s in keys}
    return a-b,{s:ma.get(s,0)-mb.get(s,0) for s in keys}
bad=0; nonecur=0; ops=0
for seed in range(int(sys.argv[1])):
    rng=random.Random(seed); n=rng.randint(1,7); ids=[f's{i}' for i in range(n)]; rng.shuffle(ids)
    net=ChargingNetwork(); 
    for s in ids: net.register_evse(EVSE(s,max_rate=32),208,rng.choice([0,30,-90,150,17.5]))
    model={}; cnt=0
    def check(tag):
        global bad
        df=net.constraints_as_df() if net.constraint_matrix is not None else None
        names=list(net.constraint_index)
        if sorted(names)!=sorted(model): print(seed,tag,"names",names,list(model)); bad+=1; return
        if len(net.magnitudes)!=len(names): print(seed,tag,"magn len"); bad+=1; return
        for i,nm in enumerate(names):
            co,lim=model[nm]
            row=net.constraint_matrix[i]
            exp=[co.get(s,0.0) for s in net.station_ids]
            if not np.allclose(row,exp,rtol=1e-12,atol=1e-12) or net.magnitudes[i]!=lim or np.isnan(row).any():
                print(seed,tag,"row mismatch",nm,row,exp,net.magnitudes[i],lim); bad+=1; return
            if df is not None and not np.allclose(df.loc[nm,net.station_ids].to_numpy(dtype=float),exp): print(seed,tag,"df mismatch"); bad+=1
    for step in range(rng.randint(2,10)):
        op=rng.choice(['add','add','remove','update','register'])
        ops+=1
        if op=='add' or (op in('remove','update') and not model):
            c,m=tree(rng,ids,rng.randint(0,2),False)
            if c is None: nonecur+=1; continue
            nm=f'k{cnt}'; cnt+=1; lim=rng.uniform(5,100); net.add_constraint(c,lim,nm); model[nm]=(m,lim)
        elif op=='remove':
            nm=rng.choice(list(model)); net.remove_constraint(nm); del model[nm]
        elif op=='update':
            nm=rng.choice(list(model)); c,m=tree(rng,ids,rng.randint(0,2),False)
            if c is None: nonecur+=1; continue
            lim=rng.uniform(5,100); new=rng.choice([None,f'k{cnt}']); cnt+=1
            net.update_constraint(nm,c,lim,new_name=new); del model[nm]; model[new or nm]=(m,lim)
        else:
            if net.constraint_matrix is not None:
                try: net.register_evse(EVSE('zz'),208,0); print(seed,"register allowed"); bad+=1
                except EVSERegistrationError: pass
                if 'zz' in net.station_ids: print(seed,"register changed state"); bad+=1
        check(op)
    if model:
        T=rng.randint(1,4); S=np.random.default_rng(seed).random((n,T))*30
        sub=rng.sample(list(model),rng.randint(1,len(model))); ti=sorted(rng.sample(range(T),rng.randint(1,T)))
        got=net.constraint_current(S,constraints=sub,time_indices=ti)
        ang=np.array([net.phase_angles[s] for s in net.station_ids])
        names=[nm for nm in net.constraint_index if nm in sub]
        exp=np.array([[sum(model[nm][0].get(s,0)*S[i,t]*np.exp(1j*np.deg2rad(ang[i])) for i,s in enumerate(net.station_ids)) for t in ti] for nm in names])
        if got.shape!=exp.shape or not np.allclose(got,exp): print(seed,"subset current mismatch"); bad+=1
print("ops",ops,"bad",bad,"None currents (scalar operand defect)",nonecur)
