import warnings, numpy as np, random, sys, math, cmath
warnings.simplefilter("ignore")
from datetime import datetime, timedelta
from acnportal import acnsim
from acnportal.acnsim.models.battery import Linear2StageBattery
from acnportal.acnsim.network import Current, ChargingNetwork
from acnportal.acnsim.models import EVSE, EV
from acnportal.acnsim.events import EventQueue, PluginEvent
from acnportal.algorithms import *
from acnportal.signals.tariffs.tou_tariff import TimeOfUseTariff
bad=0;q=0
for seed in range(int(sys.argv[1])):
    rng=random.Random(seed); n=rng.randint(3,7); ids=[f's{i}' for i in range(n)]; V=[rng.choice([120,208,240,277]) for _ in ids]; ang=[[30,-90,150][i%3] for i in range(n)]
    net=ChargingNetwork()
    for s,v,a in zip(ids,V,ang): net.register_evse(EVSE(s,max_rate=32),v,a)
    g=[[s for s,a in zip(ids,ang) if a==x] for x in (30,-90,150)]
    AB,BC,CA=[Current(x) for x in g]; cons={'pa':AB-CA,'pb':BC-AB,'pc':CA-BC,'pod':Current(ids[:2])}
    names=list(cons); rng.shuffle(names); co={}
    for nm in names: net.add_constraint(cons[nm],rng.uniform(30,200),nm); co[nm]=dict(cons[nm])
    busy={s:0 for s in ids}; evs=[]
    for k in range(rng.randint(2,8)):
        s=rng.choice(ids); a=busy[s]+rng.choice([0,1,2]); d=a+rng.randint(1,6); busy[s]=d; evs.append(EV(a,d,rng.choice([0.05,2,10,40]),s,f'x{k}',Linear2StageBattery(60,30,7)))
    period=rng.choice([1,5,15]); start=datetime(2019,rng.randint(5,10),rng.randint(1,28),rng.randint(0,23),rng.choice([0,30]))
    tariff=TimeOfUseTariff("sce_tou_ev_4_march_2019")
    sim=acnsim.Simulator(net,UncontrolledCharging() if seed%2 else SortedSchedulingAlgo(first_come_first_served),EventQueue([PluginEvent(e.arrival,e) for e in evs]),start,period=period,signals={'tariff':tariff},verbose=False); sim.run()
    R=sim.charging_rates; T=R.shape[1]
    def chk(name,a,b):
        global bad,q
        q+=1
        if not np.allclose(a,b,rtol=1e-9,atol=1e-12,equal_nan=True): print(seed,name,"mismatch"); bad+=1
    chk("agg_current",acnsim.aggregate_current(sim),[sum(R[i][t] for i in range(n)) for t in range(T)])
    pw=[sum(V[i]*R[i][t] for i in range(n))/1000 for t in range(T)]
    chk("agg_power",acnsim.aggregate_power(sim),pw)
    req=rng.sample(names,rng.randint(1,4))+([rng.choice(names)] if rng.random()<0.3 else []); rng.shuffle(req)
    for rm in (False,True):
        got=acnsim.constraint_currents(sim,return_magnitudes=rm,constraint_ids=req)
        if set(got)!=set(req): print(seed,"keys",set(got),set(req)); bad+=1
        for nm in got:
            exp=[abs(sum(co[nm].get(s,0)*R[i][t]*cmath.exp(1j*math.radians(ang[i])) for i,s in enumerate(ids))) for t in range(T)]
            chk("cc "+nm,np.abs(got[nm]),exp)
    dele=sum(e.energy_delivered for e in evs); rq=sum(e.requested_energy for e in evs)
    chk("total",acnsim.total_energy_delivered(sim),dele); chk("req",acnsim.total_energy_requested(sim),rq); chk("prop",acnsim.proportion_of_energy_delivered(sim),dele/rq)
    for th in (0.1,1e-3,1.0): chk("met",acnsim.proportion_of_demands_met(sim,th),sum(1 for e in evs if e.requested_energy-e.energy_delivered<th)/len(evs))
    ph=['pa','pb','pc']; mag=np.array([[abs(sum(co[nm].get(s,0)*R[i][t]*cmath.exp(1j*math.radians(ang[i])) for i,s in enumerate(ids))) for t in range(T)] for nm in ph])
    with np.errstate(all='ignore'): exp=(mag.max(axis=0)-mag.mean(axis=0))/mag.mean(axis=0)
    chk("unb",acnsim.current_unbalance(sim,ph),exp)
    da=acnsim.datetimes_array(sim)
    if len(da)!=sim.iteration or any(da[i]!=np.datetime64(start+timedelta(minutes=period*i)) for i in range(len(da))): print(seed,"datetimes"); bad+=1
    price=[tariff.get_tariff(start+timedelta(minutes=period)*k) for k in range(T)]
    chk("cost",acnsim.energy_cost(sim),sum(p*w for p,w in zip(price,pw))*period/60)
    chk("dc",acnsim.demand_charge(sim),tariff.get_demand_charge(start)*max(pw))
print("queries",q,"bad",bad)
