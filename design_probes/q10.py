# C10 probe: permutations of station / constraint / session order, time shift
import warnings, numpy as np, random, sys
warnings.simplefilter("ignore")
from datetime import datetime
from acnportal import acnsim
from acnportal.acnsim.models.battery import Battery, Linear2StageBattery
from acnportal.acnsim.network import Current, ChargingNetwork
from acnportal.acnsim.models import EVSE, EV, FiniteRatesEVSE
from acnportal.acnsim.events import EventQueue, PluginEvent
from acnportal.algorithms import *
def run(desc, st_order, c_order, s_order, shift, algo_name):
    net=ChargingNetwork()
    for s in st_order:
        k,v,a=desc['st'][s]
        net.register_evse(EVSE(s,max_rate=32) if k=='c' else FiniteRatesEVSE(s,[0,8,16,24,32]),v,a)
    for c in c_order:
        coeffs,lim=desc['cons'][c]; items=list(coeffs.items()); random.Random(hash(c)%1000+len(st_order)).shuffle(items)
        net.add_constraint(Current(dict(items)),lim,c)
    evs=[]
    for i in s_order:
        a,d,r,st,sid=desc['sess'][i]; evs.append(EV(a+shift,d+shift,r,st,sid,Linear2StageBattery(60,30,7)))
    algo={'unc':UncontrolledCharging(),'edf':SortedSchedulingAlgo(earliest_deadline_first),'rr':RoundRobin(first_come_first_served)}[algo_name]
    sim=acnsim.Simulator(net,algo,EventQueue([PluginEvent(e.arrival,e) for e in evs]),datetime(2020,1,1),period=5,verbose=False)
    sim.run()
    return {s:(sim.pilot_signals[i].tolist(),sim.charging_rates[i].tolist()) for i,s in enumerate(net.station_ids)},{k:e.energy_delivered for k,e in sim.ev_history.items()},sim.iteration
bad=0;n=0
for seed in range(int(sys.argv[1])):
    rng=random.Random(seed); nst=rng.randint(2,6); ids=[f's{i}' for i in range(nst)]
    desc={'st':{s:(rng.choice(['f','f','c']) ,rng.choice([208,240,120]),rng.choice([30,-90,150])) for s in ids},'cons':{},'sess':[]}
    algo=rng.choice(['unc','edf','rr'])
    if algo!='unc':
        for s in ids: desc['st'][s]=('f',)+desc['st'][s][1:]
    for j in range(rng.randint(1,4)):
        sub=rng.sample(ids,rng.randint(1,nst)); desc['cons'][f'c{j}']=({s:rng.choice([1,-1,0.5]) for s in sub},rng.choice([12.37,30.37,55.37]))
    busy={s:0 for s in ids}; deps=rng.sample(range(100,200),12)
    for k in range(rng.randint(2,8)):
        s=rng.choice(ids); a=busy[s]+rng.choice([0,1,2]); d=a+rng.randint(1,6); busy[s]=d
        desc['sess'].append((a,d,rng.uniform(1,20),s,f'x{k}'))
    # distinct priority keys: arrival distinct for fcfs(rr) ; est departure distinct for edf
    if algo=='edf' and len(set(x[1] for x in desc['sess']))<len(desc['sess']): continue
    if algo=='rr' and len(set(x[0] for x in desc['sess']))<len(desc['sess']): continue
    base=run(desc,ids,list(desc['cons']),list(range(len(desc['sess']))),0,algo)
    p1=ids[:];rng.shuffle(p1); p2=list(desc['cons']);rng.shuffle(p2); p3=list(range(len(desc['sess'])));rng.shuffle(p3)
    k=rng.randint(1,4)
    for nm,alt in [('same',run(desc,ids,list(desc['cons']),list(range(len(desc['sess']))),0,algo)),('stations',run(desc,p1,list(desc['cons']),list(range(len(desc['sess']))),0,algo)),('cons',run(desc,ids,p2,list(range(len(desc['sess']))),0,algo)),('sess',run(desc,ids,list(desc['cons']),p3,0,algo))]:
        n+=1
        ok=all(np.allclose(base[0][s][0],alt[0][s][0],rtol=1e-9,atol=1e-12) and np.allclose(base[0][s][1],alt[0][s][1],rtol=1e-9,atol=1e-12) for s in ids) and all(abs(base[1][x]-alt[1][x])<=1e-9*max(1,base[1][x]) for x in base[1]) and base[2]==alt[2]
        if nm=='same': ok = ok and base==alt
        if not ok: print(seed,algo,nm,"DIFF"); bad+=1
    sh=run(desc,ids,list(desc['cons']),list(range(len(desc['sess']))),k,algo); n+=1
    ok=sh[2]==base[2]+k and all(np.allclose(sh[0][s][0][k:],base[0][s][0]) and not any(sh[0][s][0][:k]) and np.allclose(sh[0][s][1][k:],base[0][s][1]) for s in ids)
    if not ok: print(seed,algo,"shift",k,"DIFF", sh[2],base[2]); bad+=1
print("relations",n,"bad",bad)
