import warnings, random, sys, math
warnings.simplefilter("ignore")
from datetime import datetime, timedelta, timezone
from email.utils import parsedate_to_datetime, format_datetime
import zoneinfo, pytz
from urllib.parse import urlsplit, parse_qs, unquote
import acnportal.acndata.data_client as dc
from acnportal.acndata.utils import http_date, parse_http_date, parse_dates
from acnportal.acnsim.events.acndata_events import _convert_to_ev, _datetime_to_timestamp, get_evs
from acnportal.acnsim.models.battery import Battery
import socket
opened=[]
import sys as _s
_s.addaudithook(lambda ev,args: opened.append(ev) if ev.startswith("socket.connect") or ev=="socket.getaddrinfo" else None)
ZONES=["America/Los_Angeles","America/New_York","Europe/London","Asia/Kolkata","Australia/Sydney","UTC","Asia/Kathmandu","America/Sao_Paulo"]
def rfc(dt): return dt.astimezone(timezone.utc).strftime("%a, %d %b %Y %H:%M:%S GMT")
class Resp:
    def __init__(s,p): s.p=p
    def json(s): return s.p
class FakeRequests:
    def __init__(s,docs,cap,empties): s.docs=docs; s.cap=cap; s.empties=empties; s.log=[]
    def get(s,url,auth=None,**kw):
        s.log.append((url,auth))
        u=urlsplit(url); q=parse_qs(u.query); page=int(q.get('page',['1'])[0]); mr=int(q['max_results'][0]); size=min(mr,s.cap)
        items=list(s.docs)
        if 'where' in q:
            cond=q['where'][0]
            for clause in cond.split(' and '):
                clause=clause.strip()
                if not clause: continue
                f,op,val=clause.split(' ',2)
                if f=='connectionTime':
                    t=parsedate_to_datetime(val.strip('"'))
                    items=[d for d in items if (parsedate_to_datetime(d['connectionTime'])>=t if op=='>=' else parsedate_to_datetime(d['connectionTime'])<=t)]
                elif f=='kWhDelivered': items=[d for d in items if d['kWhDelivered']>float(val)]
        if 'sort' in q: items.sort(key=lambda d:parsedate_to_datetime(d[q['sort'][0]]))
        # pages: insert empty pages at given positions
        pages=[items[i:i+size] for i in range(0,len(items),size)] or [[]]
        for e in sorted(s.empties): 
            if e<=len(pages): pages.insert(e,[])
        cur=pages[page-1]; links={"self":{"href":"x"},"parent":{"href":"/"}}
        if page<len(pages):
            base=u.path.split('/api/v1/')[1]
            links["next"]={"href":base+"?"+("&".join(f"{k}={v[0]}" for k,v in q.items() if k!='page'))+f"&page={page+1}"}
        import copy
        return Resp({"_items":copy.deepcopy(cur),"_links":links,"_meta":{"page":page}})
rng=random.Random(0); bad=0; scen=0
for trial in range(400):
    n=rng.choice([0,1,2,5,17,100,101,230]); tzname=rng.choice(ZONES); z=zoneinfo.ZoneInfo(tzname)
    base=datetime(2019,rng.choice([3,11,6]),rng.randint(1,12),tzinfo=timezone.utc)
    docs=[]
    for i in range(n):
        c=base+timedelta(minutes=rng.randint(0,60*24*10),seconds=rng.randint(0,59)); d=c+timedelta(minutes=rng.randint(1,900))
        docs.append({"_id":f"id{i}","sessionID":f"sess{i}","spaceID":f"sp{i%7}","stationID":"x","siteID":"1","clusterID":"c","userID":None,"timezone":tzname,
                     "connectionTime":rfc(c),"disconnectTime":rfc(d),"doneChargingTime":rng.choice([None,rfc(d-timedelta(seconds=30))]),"kWhDelivered":round(rng.uniform(0.01,60),3),"userInputs":None})
    ts=rng.random()<0.2
    if ts:
        for d in docs: d["chargingCurrent"]={"current":[1,2],"timestamps":[d["connectionTime"],d["disconnectTime"]]}
    fake=FakeRequests(docs,rng.choice([1000,7,1]),[rng.randint(1,3)] if rng.random()<0.3 else [])
    dc.requests=fake
    client=dc.DataClient("tok","https://fake.invalid/api/v1/")
    site=rng.choice(["caltech","jpl","office001"])
    mode=rng.choice(["all","time"])
    if mode=="all":
        got=list(client.get_sessions(site,timeseries=ts)); exp=[d["_id"] for d in docs]
    else:
        lo=base+timedelta(days=rng.randint(0,5)); hi=lo+timedelta(days=rng.randint(0,5)); me=rng.choice([None,5.0])
        lo_l=lo.astimezone(pytz.timezone(rng.choice(ZONES))); 
        got=list(client.get_sessions_by_time(site,lo_l,hi,min_energy=me,timeseries=ts))
        sel=[d for d in docs if lo<=parsedate_to_datetime(d["connectionTime"])<=hi and (me is None or d["kWhDelivered"]>me)]
        exp=[d["_id"] for d in sorted(sel,key=lambda d:parsedate_to_datetime(d["connectionTime"]))]
    scen+=1
    ids=[g["_id"] for g in got]
    if mode=="all" and ids!=exp: print("paging mismatch",len(ids),len(exp)); bad+=1
    if mode=="time" and (sorted(ids)!=sorted(exp) or len(set(ids))!=len(ids)): print("time filter mismatch",len(ids),len(exp)); bad+=1
    if f"sessions/{site}" not in fake.log[0][0] or fake.log[0][1]!=("tok",""): print("first url",fake.log[0]); bad+=1
    for g,src in zip(got,[next(d for d in docs if d["_id"]==i) for i in ids]):
        for fld in ("connectionTime","disconnectTime","doneChargingTime"):
            if src[fld] is None:
                if g[fld] is not None: bad+=1
                continue
            v=g[fld]; ref=parsedate_to_datetime(src[fld])
            if not isinstance(v,datetime) or v.tzinfo is None or v!=ref or v.utcoffset()!=ref.astimezone(z).utcoffset() or getattr(v.tzinfo,'zone',None)!=tzname: print("date field",fld,v,ref); bad+=1
        if ts:
            for v,s_ in zip(g["chargingCurrent"]["timestamps"],src["chargingCurrent"]["timestamps"]):
                if not isinstance(v,datetime) or v!=parsedate_to_datetime(s_): print("ts conv"); bad+=1
# invalid site
fake=FakeRequests([],10,[]); dc.requests=fake
try:
    list(dc.DataClient("t","https://fake.invalid/api/v1/").get_sessions("nowhere")); print("no error"); bad+=1
except ValueError: pass
if fake.log: print("request before validation"); bad+=1
# round trip
for i in range(20000):
    tz=pytz.timezone(rng.choice(ZONES)); inst=datetime(2015,1,1,tzinfo=timezone.utc)+timedelta(seconds=rng.randint(0,10*365*86400))
    if rng.random()<0.3: # near DST transitions
        inst=datetime(rng.choice([2019,2020]),rng.choice([3,11,4,10]),rng.randint(1,14),rng.randint(0,12),tzinfo=timezone.utc)+timedelta(seconds=rng.randint(-7200,7200))
    dt=inst.astimezone(tz)
    back=parse_http_date(http_date(dt),tz)
    if back!=dt or back.utcoffset()!=dt.utcoffset(): print("roundtrip",dt,back); bad+=1
print("scenarios",scen,"bad",bad,"sockets opened",len(opened))
# C15 conversions
bad=0
for i in range(20000):
    tz=pytz.timezone(rng.choice(ZONES)); period=rng.choice([1,5,15,60,7,2.5])
    start=(datetime(2018,1,1,tzinfo=timezone.utc)+timedelta(seconds=rng.randint(0,3*365*86400))).astimezone(tz)
    c=start+timedelta(seconds=rng.choice([0,rng.randint(0,86400*3)])); d=c+timedelta(seconds=rng.choice([0,59,rng.randint(60,86400*2)]))
    doc={"connectionTime":c,"disconnectTime":d,"kWhDelivered":rng.uniform(0.01,80),"sessionID":"s","spaceID":"p"}
    off=_datetime_to_timestamp(start,period); ml=rng.choice([None,3,50]); ff=rng.random()<0.5; P=rng.choice([3.3,7,50])
    ev=_convert_to_ev(doc,off,period,208,P,ml,None,ff)
    from fractions import Fraction as F
    fl=lambda t: math.floor(F(int(t.timestamp()))/(F(period)*60))  # whole-second instants
    ea=fl(c)-fl(start); ed=fl(d)-fl(start)
    if ml is not None and ed-ea>ml: ed=ea+ml
    er=doc["kWhDelivered"] if not ff else min(doc["kWhDelivered"],P*(ed-ea)*(period/60))
    if (ev.arrival,ev.departure)!=(ea,ed) or abs(ev.requested_energy-er)>1e-12 or ev._battery._capacity-ev._battery._current_charge<ev.requested_energy-1e-12 or ev.departure<ev.arrival:
        print("conv mismatch",(ev.arrival,ev.departure),(ea,ed),ev.requested_energy,er,period); bad+=1
print("C15 conversions bad",bad)
