import warnings, numpy as np, random, sys, copy
warnings.simplefilter("ignore")
from datetime import datetime
from acnportal import acnsim
from acnportal.acnsim.models.battery import Battery
from acnportal.acnsim.network import Current, ChargingNetwork
from acnportal.acnsim.models import EVSE, EV, BaseEVSE
from acnportal.acnsim.events import EventQueue, PluginEvent
from acnportal.acnsim.interface import InvalidScheduleError
from acnportal.algorithms import *
LOG=[]
orig=BaseEVSE.set_pilot
def wrapped(self,pilot,voltage,period):
    LOG.append((self.station_id,float(pilot))); return orig(self,pilot,voltage,period)
BaseEVSE.set_pilot=wrapped
bad=0; runs=0; knownG=0; malformed=0
for seed in range(int(sys.argv[1])):
    rng=random.Random(seed); n=rng.randint(1,5); ids=[f's{i}' for i in range(n)]
    net=ChargingNetwork()
    for s in ids: net.register_evse(EVSE(s,max_rate=32),208,0)
    if rng.random()<0.7: net.add_constraint(Current(ids),rng.choice([20.5,60.5,500]),'c')
    else: net.add_constraint(Current(ids[:1]),1000,'c')
    busy={s:0 for s in ids}; evs=[]
    for k in range(rng.randint(1,6)):
        s=rng.choice(ids); a=busy[s]+rng.choice([0,1,3]); d=a+rng.randint(1,6); busy[s]=d; evs.append(EV(a,d,1000,s,f'x{k}',Battery(10000,0,1000)))
    mr=rng.choice([None,1,3]); subs=[]; malform_at=rng.choice([None,None,rng.randint(0,6)])
    class Scr(BaseAlgorithm):
        def __init__(s): super().__init__(); s.max_recompute=mr
        def schedule(s,active):
            t=s.interface.current_time; r=rng.random()
            if malform_at==t:
                sch={ids[0]:[1,2],'nope':[1,2]} if rng.random()<0.5 or n<2 else {ids[0]:[1,2],ids[1]:[1]}
                sim=s.interface._simulator
                s.snap=(sim.pilot_signals.copy(),sim.charging_rates.copy(),{e.session_id:e.energy_delivered for e in evs},sim.iteration)
                subs.append((t,'BAD')); return sch
            if r<0.15: sch={}
            else:
                L=rng.randint(1,5); sub=[x for x in ids if rng.random()<0.7] or [ids[0]]
                def val():
                    v=rng.choice([0,8,16.25,32,3]); return rng.choice([int(v) if v==int(v) else v, float(v), np.float64(v)])
                sch={x:rng.choice([list,tuple,np.array])([val() for _ in range(L)]) for x in sub}
                items=list(sch.items()); rng.shuffle(items); sch=dict(items)
            subs.append((t,{k:[float(v) for v in vs] for k,vs in sch.items()})); return sch
    LOG.clear()
    alg=Scr()
    sim=acnsim.Simulator(net,alg,EventQueue([PluginEvent(e.arrival,e) for e in evs]),datetime(2020,1,1),period=5,verbose=False)
    try: sim.run()
    except TypeError as e:
        if 'NoneType' in str(e): knownG+=1; continue
        raise
    except (KeyError,InvalidScheduleError) as e:
        if subs[-1][1]!='BAD': print(seed,"unexpected reject"); bad+=1; continue
        malformed+=1
        p,c,en,it=alg.snap
        if not (np.array_equal(p,sim.pilot_signals) and np.array_equal(c,sim.charging_rates) and en=={e.session_id:e.energy_delivered for e in evs} and it==sim.iteration): print(seed,"state changed on reject"); bad+=1
        continue
    if any(x[1]=='BAD' for x in subs): print(seed,"malformed accepted"); bad+=1; continue
    runs+=1; T=sim.iteration
    W=max([T]+[t+len(next(iter(s.values()))) for t,s in subs if s])
    M=np.zeros((n,W))
    for t,s in subs:
        if not s: continue
        L=len(next(iter(s.values()))); M[:,t:t+L]=0
        for x,vs in s.items(): M[ids.index(x),t:t+L]=vs
    if not np.array_equal(sim.pilot_signals[:,:T],M[:,:T]): print(seed,"pilot matrix mismatch"); bad+=1
    per=[LOG[i*n:(i+1)*n] for i in range(T)]
    for t,row in enumerate(per):
        for st,p in row:
            if p!=M[ids.index(st),t]: print(seed,"applied pilot mismatch",t,st,p,M[ids.index(st),t]); bad+=1
    occ=np.zeros((n,T),bool)
    for e in evs: occ[ids.index(e.station_id),e.arrival:e.departure]=True
    if not np.allclose(sim.charging_rates[:,:T][occ],M[:,:T][occ]): print(seed,"rates != pilots for probe EVs"); bad+=1
print("runs",runs,"malformed rejected",malformed,"known last-period TypeError",knownG,"bad",bad)
