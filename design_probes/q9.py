# C09 probe: canonical JSON equality of loaded vs original mid-run; identity; resumed equality across EVSE/battery classes
import warnings, numpy as np, random, json, sys
warnings.simplefilter("ignore")
from datetime import datetime
from acnportal import acnsim
from acnportal.acnsim.models.battery import Battery, Linear2StageBattery
from acnportal.acnsim.network import Current, ChargingNetwork
from acnportal.acnsim.models import EVSE, EV, FiniteRatesEVSE, DeadbandEVSE
from acnportal.acnsim.events import EventQueue, PluginEvent, RecomputeEvent, UnplugEvent
from acnportal.algorithms import *
def canon(js):
    reg=json.loads(js); ctx=reg["context_dict"]; order={}
    def visit(oid):
        if oid in order: return
        order[oid]=f"#{len(order)}"
        for v in ctx[oid]["attributes"].values(): walk(v)
    def walk(v):
        if isinstance(v,str) and v in ctx: visit(v)
        elif isinstance(v,list):
            for x in v: walk(x)
        elif isinstance(v,dict):
            for x in v.values(): walk(x)
    visit(reg["id"])
    def ren(v):
        if isinstance(v,str) and v in order: return order[v]
        if isinstance(v,list): return [ren(x) for x in v]
        if isinstance(v,dict): return {k:ren(x) for k,x in v.items()}
        return v
    return {order[o]:{"class":ctx[o]["class"],"attributes":ren(ctx[o]["attributes"])} for o in order}
class Boom(Exception): pass
class Flaky(BaseAlgorithm):
    def __init__(s,inner,k): super().__init__(); s.inner=inner; s.k=k; s.max_recompute=inner.max_recompute
    def register_interface(s,i): super().register_interface(i); s.inner.register_interface(i)
    def schedule(s,a):
        if s.interface.current_time==s.k: s.k=None; raise Boom()
        return s.inner.schedule(a)
def scenario(seed):
    rng=random.Random(seed); nst=rng.randint(1,4); ids=[f's{i}' for i in range(nst)]
    def mknet():
        net=ChargingNetwork()
        r2=random.Random(seed)
        for s in ids:
            k=r2.choice(['e','d','f'])
            net.register_evse(EVSE(s,max_rate=32) if k=='e' else DeadbandEVSE(s,max_rate=32) if k=='d' else FiniteRatesEVSE(s,[0,8,16,24,32]),r2.choice([208,240]),r2.choice([0,30,-90]))
        if True: net.add_constraint(Current({s:r2.choice([1,-1,.5]) for s in ids}),r2.uniform(20,90),'c')
        return net
    busy=[0]*nst; sess=[]
    for k in range(rng.randint(1,6)):
        st=rng.randrange(nst); a=busy[st]+rng.choice([0,1,2]); d=a+rng.randint(1,5); busy[st]=d
        sess.append((a,d,rng.choice([0.2,3,30]),st,f'x{k}',rng.choice(['i','c','w','n'])))
    def mkevs():
        out=[]
        for a,d,r,st,sid,b in sess:
            batt=Battery(60,10,7) if b=='i' else Linear2StageBattery(60,40,7) if b=='c' else Linear2StageBattery(60,40,7,charge_calculation='stepwise') if b=='w' else Linear2StageBattery(60,40,7,noise_level=0.3)
            out.append(EV(a,d,r,ids[st],sid,batt))
        return out
    recs=[rng.randint(0,10) for _ in range(rng.randint(0,2))]
    hist=rng.random()<0.5; period=rng.choice([1,5])
    def build(sched):
        evs=mkevs()
        return acnsim.Simulator(mknet(),sched,EventQueue([PluginEvent(e.arrival,e) for e in evs]+[RecomputeEvent(t) for t in recs]),datetime(2021,5,4,13,7),period=period,store_schedule_history=hist,verbose=False)
    return build
def outputs(s): return (s.pilot_signals.tolist(), s.charging_rates.tolist(), {k:v.energy_delivered for k,v in s.ev_history.items()}, [(e.event_type,e.timestamp,getattr(e,'session_id',None)) for e in s.event_history], s.iteration, float(s.peak))
bad=0; pts=0; canon_ok=0; lastp=0
for seed in range(int(sys.argv[1])):
    build=scenario(seed)
    np.random.seed(seed); ref=build(UncontrolledCharging()); ref.run(); R=outputs(ref)
    for k in range(ref.iteration):
        for leg in ('resume','json'):
            np.random.seed(seed); s=build(Flaky(UncontrolledCharging(),k))
            try: s.run(); continue   # no invocation at k
            except Boom: pass
            pts+=1
            if leg=='json':
                js=s.to_json(); s2=acnsim.Simulator.from_json(js)
                c1,c2=canon(js),canon(s2.to_json())
                # scheduler class name differs? compare
                if c1!=c2:
                    diff=[(o,a) for o in c1 for a in c1[o]["attributes"] if c2.get(o,{}).get("attributes",{}).get(a)!=c1[o]["attributes"][a]]
                    print(seed,k,"canon diff",diff[:4]); bad+=1
                else: canon_ok+=1
                for st_ in s2.network.station_ids:
                    ev=s2.network.get_ev(st_)
                    if ev is not None:
                        pend=[e for ts,e in s2.event_queue.queue if isinstance(e,UnplugEvent) and e.ev.session_id==ev.session_id]
                        if not (ev is s2.ev_history[ev.session_id] and pend and pend[0].ev is ev): print(seed,k,"identity broken"); bad+=1
                s2.update_scheduler(UncontrolledCharging()); s=s2
            s.run(); O=outputs(s)
            if O!=R:
                if k==ref.iteration-1 and O[:4]==R[:4]: lastp+=1
                else: print(seed,k,leg,"DIFF",[i for i in range(6) if O[i]!=R[i]]); bad+=1
print("points",pts,"bad",bad,"canon_ok",canon_ok,"last-period iteration-only diffs",lastp)
