# C08 probe: greedy closed-form oracle, RR reference model, on real Interface states
import warnings, numpy as np, random, math, cmath, sys
warnings.simplefilter("ignore")
from datetime import datetime
from acnportal import acnsim
from acnportal.acnsim.models.battery import Battery
from acnportal.acnsim.network import Current, ChargingNetwork
from acnportal.acnsim.models import EVSE, EV, FiniteRatesEVSE
from acnportal.acnsim.events import EventQueue, PluginEvent
from acnportal.algorithms import *
SORTS=dict(fcfs=first_come_first_served,lcfs=last_come_first_served,edf=earliest_deadline_first,llf=least_laxity_first,lrpt=largest_remaining_processing_time)
def margin(A,L,ang,s):
    w=-1e9
    for j in range(len(L)):
        z=sum(A[j][i]*s[i]*cmath.exp(1j*math.radians(ang[i])) for i in range(len(s)))
        w=max(w,abs(z)-(L[j]+max(1e-5,1e-7*L[j])))
    return w
def hi_bound(A,L,ang,s,i):
    m=float('inf')
    u=cmath.exp(1j*math.radians(ang[i]))
    for j in range(len(L)):
        a=A[j][i]
        if a==0: continue
        c=sum(A[j][k]*s[k]*cmath.exp(1j*math.radians(ang[k])) for k in range(len(s)) if k!=i)
        R=L[j]+max(1e-5,1e-7*L[j])
        b=a*(c*u.conjugate()).real
        disc=b*b-a*a*(abs(c)**2-R*R)
        if disc<0: return -float('inf')
        m=min(m,(-b+math.sqrt(disc))/(a*a))
    return m
class Scripted(BaseAlgorithm):
    def __init__(s,f): super().__init__(); s.f=f; s.max_recompute=1
    def schedule(s,a): return s.f(s.interface)
st=dict(cases=0,greedy=0,rr=0,viol=0,mid=0,bnd=0)
for seed in range(int(sys.argv[1])):
    rng=random.Random(seed)
    nst=rng.randint(2,7); period=rng.choice([1,5,15])
    ids=[f's{i}' for i in range(nst)]; volt=[rng.choice([208,240,120,277]) for _ in ids]; ang=[rng.choice([30,-90,150]) for _ in ids]
    kinds=[rng.choice(['c','cc','av']) for _ in ids]; mx=[rng.choice([16,32]) if k=='c' else 32 for k in kinds]
    net=ChargingNetwork(); allow={}
    for i,s in enumerate(ids):
        e = EVSE(s,max_rate=mx[i]) if kinds[i]=='c' else FiniteRatesEVSE(s,[0,8,16,24,32] if kinds[i]=='cc' else [0]+list(range(6,33)))
        allow[s]=None if kinds[i]=='c' else list(e.allowable_rates); net.register_evse(e,volt[i],ang[i])
    g={a:[s for s,x in zip(ids,ang) if x==a] for a in (30,-90,150)}
    AB,BC,CA=Current(g[30]),Current(g[-90]),Current(g[150]); cons=[]
    lim=rng.choice([10.37,25.37,60.37])
    for nm,cur in [('a',AB-CA),('b',BC-AB),('c',CA-BC)]:
        if len(cur)>0: net.add_constraint(cur,lim,nm); cons.append((dict(cur),lim))
    if rng.random()<0.6:
        sub=rng.sample(ids,rng.randint(1,nst)); l2=rng.choice([8.37,20.37,40.37]); net.add_constraint(Current(sub),l2,'pod'); cons.append(({s:1 for s in sub},l2))
    A=[[c[0].get(s,0) for s in ids] for c in cons]; L=[c[1] for c in cons]
    occ=rng.sample(range(nst),rng.randint(2,nst))
    arr=rng.sample(range(0,6),len(occ)) if len(occ)<=6 else list(range(len(occ)))
    deps=rng.sample(range(11,40),len(occ))
    evs=[EV(arr[k],deps[k],rng.uniform(0.5,20),ids[i],f'x{k}',Battery(100,0,100)) for k,i in enumerate(occ)]
    T0=max(arr)+rng.randint(0,2)
    pre=lambda iface:{s:[rng.choice([0,8,16])] for s in ids}
    sim=acnsim.Simulator(net,Scripted(pre),EventQueue([PluginEvent(e.arrival,e) for e in evs]),datetime(2020,1,1),period=period,verbose=False)
    # run prefix manually: step until iteration T0
    while sim.iteration<=T0:
        ce=sim.event_queue.get_current_events(sim.iteration)
        for e in ce: sim.event_history.append(e); sim._process_event(e)
        sim._update_schedules(sim.scheduler.run()); sim.network.update_pilots(sim.pilot_signals,sim.iteration,period); sim._store_actual_charging_rates(); sim._iteration+=1
    name=rng.choice(list(SORTS)); rr=rng.random()<0.4; inc=rng.choice([0.1,0.5,1])
    algo=RoundRobin(SORTS[name],continuous_inc=inc) if rr else SortedSchedulingAlgo(SORTS[name])
    sim.update_scheduler(algo)
    out=algo.run(); s_out=[out[x][0] for x in ids]
    t=sim.iteration
    act=[e for e in evs if e.arrival<=t<e.departure and e.requested_energy-e.energy_delivered>1e-3]
    def amp(e): i=ids.index(e.station_id); return (e.requested_energy-e.energy_delivered)*1000/volt[i]*60/period
    def thr(e): i=ids.index(e.station_id); mp=0 if kinds[i]=='c' else (8 if kinds[i]=='cc' else 6); return mp*volt[i]/(60/period)/1000
    act=[e for e in act if (e.requested_energy-e.energy_delivered)>thr(e)]
    key=dict(fcfs=lambda e:e.arrival,lcfs=lambda e:-e.arrival,edf=lambda e:e.estimated_departure,
             llf=lambda e:(e.estimated_departure-t)-amp(e)/mx[ids.index(e.station_id)],lrpt=lambda e:-amp(e)/mx[ids.index(e.station_id)])[name]
    ks=sorted(key(e) for e in act)
    if any(b-a<1e-6 for a,b in zip(ks,ks[1:])): continue
    order=sorted(act,key=key)
    st['cases']+=1
    if not rr:
        st['greedy']+=1
        s=[0.0]*nst
        for e in order:
            i=ids.index(e.station_id); ub=min(mx[i],amp(e))
            if kinds[i]=='c':
                m=hi_bound(A,L,ang,s,i); target=min(ub,m)
                x=s_out[i]
                if not (target-0.01-1e-6<=x<=target+1e-6): print(seed,"greedy cont",e.session_id,"x",x,"target",target,"ub",ub,"m",m,name); st['viol']+=1
                if 0<x<ub-1e-9: st['mid']+=1
            else:
                best=0; bd=False
                for a in allow[e.station_id]:
                    if a<=ub:
                        s2=list(s); s2[i]=a; mg=margin(A,L,ang,s2)
                        if abs(mg)<1e-9: bd=True
                        if mg<=0: best=max(best,a)
                if bd: st['bnd']+=1
                elif s_out[i]!=best: print(seed,"greedy disc",e.session_id,"x",s_out[i],"best",best,name); st['viol']+=1
                if 0<s_out[i]<max(a for a in allow[e.station_id] if a<=ub): st['mid']+=1
            s[i]=s_out[i]
        for i,x in enumerate(ids):
            if x not in [e.station_id for e in order] and s_out[i]!=0: print(seed,"nonzero inactive"); st['viol']+=1
    else:
        st['rr']+=1
        from collections import deque
        lv={}
        for e in order:
            i=ids.index(e.station_id); ub=min(mx[i],amp(e))
            base=list(np.arange(0,mx[i]+inc/2,inc)) if kinds[i]=='c' else allow[e.station_id]
            lv[e.session_id]=[a for a in base if 0<=a<=ub]
        s=[0.0]*nst; idx={e.session_id:0 for e in order}
        for e in order:
            i=ids.index(e.station_id); s[i]=lv[e.session_id][0] if lv[e.session_id] else 0
        q=deque(order)
        while q:
            e=q.popleft(); i=ids.index(e.station_id); l=lv[e.session_id]
            if idx[e.session_id]<len(l)-1:
                s2=list(s); s2[i]=l[idx[e.session_id]+1]
                if margin(A,L,ang,s2)<=0: s=s2; idx[e.session_id]+=1; q.append(e)
        if not np.allclose(s,s_out,atol=1e-9): print(seed,"RR mismatch",s,s_out,name,inc); st['viol']+=1
print(st)
