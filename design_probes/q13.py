# C13 + C14 probes
import warnings, numpy as np, random, sys, math
from fractions import Fraction as F
warnings.simplefilter("ignore")
from acnportal.acnsim.models import EVSE, DeadbandEVSE, FiniteRatesEVSE, EV, InvalidRateError
from acnportal.acnsim.models.battery import Battery, Linear2StageBattery
rng=random.Random(1); bad=0; n=0; guard=0; acc=0; rej=0
T=F(1,1000)
for it in range(20000):
    k=rng.choice('edf')
    if k=='e':
        mn=rng.choice([0,0,6,2.5]); mx=rng.choice([16,32,80,float('inf')]); ev=EVSE('s',max_rate=mx,min_rate=mn); pts=[mn,mx] if mx!=float('inf') else [mn]
        mem=lambda p:(F(mn)-T<=F(p)) and (mx==float('inf') or F(p)<=F(mx)+T)
        marg=lambda p:min(abs(F(p)-(F(mn)-T)), abs(F(p)-(F(mx)+T)) if mx!=float('inf') else 1)
    elif k=='d':
        de=rng.choice([6,4.5]); mx=rng.choice([16,32]); ev=DeadbandEVSE('s',deadband_end=de,max_rate=mx); pts=[0,de,mx]
        mem=lambda p:abs(F(p))<=T or (F(de)-T<=F(p)<=F(mx)+T)
        marg=lambda p:min(abs(abs(F(p))-T),abs(F(p)-(F(de)-T)),abs(F(p)-(F(mx)+T)))
    else:
        rates=rng.choice([[0,8,16,24,32],[32,8,8,16],[6.5,7.25],list(range(6,33))]); ev=FiniteRatesEVSE('s',rates); lv=sorted(set(rates)|{0}); pts=lv
        mem=lambda p:any(abs(F(p)-F(r))<=T for r in lv)
        marg=lambda p:min(abs(abs(F(p)-F(r))-T) for r in lv)
    withev=rng.random()<0.5
    if withev:
        car=EV(0,10,20,'s','x',Linear2StageBattery(60,30,7)); ev.plugin(car)
    b=rng.choice(pts); p=b+rng.choice([-1,1])*rng.choice([0,1e-6,5e-4,9.99e-4,1.001e-3,2e-3,0.5,3])
    if not math.isfinite(p): continue
    if marg(p)<F(1,10**9): guard+=1; continue
    before=(ev.current_pilot, car.energy_delivered if withev else None, car._battery._current_charge if withev else None)
    n+=1
    try: ev.set_pilot(p,208,5); ok=True
    except InvalidRateError: ok=False
    if ok!=mem(p): print(k,"accept mismatch",p,ok,mem(p)); bad+=1
    if ok: acc+=1
    else:
        rej+=1
        after=(ev.current_pilot, car.energy_delivered if withev else None, car._battery._current_charge if withev else None)
        if after!=before: print("state changed on reject"); bad+=1
    if ok and ev.current_pilot!=p: print("pilot not stored"); bad+=1
print("C13 calls",n,"accepted",acc,"rejected",rej,"guard",guard,"bad",bad)

# C14: two-stage vs ODE reference
def ref(cap,c0,pmax,ts,p,V,Tmin,steps=4000):
    h=Tmin/60/steps; c=c0; 
    def f(c):
        soc=c/cap; lim=pmax if soc<ts else pmax*(1-soc)/(1-ts)
        return max(0.0,min(p*V/1000,lim))
    for _ in range(steps):
        k1=f(c);k2=f(c+h*k1/2);k3=f(c+h*k2/2);k4=f(c+h*k3); c+=h*(k1+2*k2+2*k3+k4)/6
    return c
bad=0; reg={}
rng=random.Random(2)
for it in range(1500):
    cap=10**rng.uniform(0,2.5); c0=cap*rng.choice([0,rng.random(),rng.uniform(0.7,1),1]); pmax=10**rng.uniform(-0.5,2); ts=rng.choice([0,0.5,0.8,0.95,rng.random()*0.99]); V=rng.choice([120,208,240,400]); Tm=rng.choice([1,5,15,60,0.5]); p=rng.choice([0,1e-3,6,16,32,pmax*1000/V,200])
    b=Linear2StageBattery(cap,c0,pmax,transition_soc=ts); r=b.charge(p,V,Tm); e=b._current_charge-c0
    eref=ref(cap,c0,pmax,ts,p,V,Tm)-c0
    if abs(e-eref)>1e-6*max(1,abs(eref))+1e-7*cap: print("ODE mismatch",cap,c0,pmax,ts,p,V,Tm,e,eref); bad+=1
    b1=Linear2StageBattery(cap,c0,pmax,transition_soc=ts); b1.charge(p,V,Tm/2); b1.charge(p,V,Tm/2)
    if abs(b1._current_charge-b._current_charge)>1e-9*max(1,cap): print("split mismatch",b1._current_charge,b._current_charge); bad+=1
    b2=Linear2StageBattery(cap,c0,pmax,transition_soc=ts); b2.charge(p*1.3+0.1,V,Tm)
    if b2._current_charge<b._current_charge-1e-9*cap: print("not monotone in pilot"); bad+=1
    b3=Linear2StageBattery(cap,c0,pmax,transition_soc=ts); b3.charge(p,V,Tm*1.5)
    if b3._current_charge<b._current_charge-1e-9*cap: print("not monotone in T"); bad+=1
    b.reset()
    if b._current_charge!=c0 or b.current_charging_power!=0: print("reset"); bad+=1
print("C14 bad",bad)
