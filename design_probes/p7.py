import warnings, numpy as np, random, time
warnings.simplefilter("ignore")
from datetime import datetime
from acnportal import acnsim
from acnportal.acnsim.models.battery import Battery, Linear2StageBattery
from acnportal.acnsim.network import Current, ChargingNetwork
from acnportal.acnsim.models import EVSE, EV, FiniteRatesEVSE
from acnportal.acnsim.events import EventQueue, PluginEvent
from acnportal.algorithms import *
def build(nst, nsess, horizon, algo, seed=0):
    rng=random.Random(seed)
    net=ChargingNetwork()
    for i in range(nst):
        net.register_evse(EVSE(f's{i}',max_rate=32) if i%2 else FiniteRatesEVSE(f's{i}',[0,8,16,24,32]), 208, [30,-90,150][i%3])
    groups=[[f's{i}' for i in range(nst) if i%3==k] for k in range(3)]
    AB,BC,CA=[Current(g) for g in groups]
    net.add_constraint(AB-CA, 40,'a'); net.add_constraint(BC-AB,40,'b'); net.add_constraint(CA-BC,40,'c')
    evs=[]; busy={}
    for k in range(nsess):
        st=f's{rng.randrange(nst)}'; a=max(busy.get(st,0), rng.randrange(horizon//2)); d=a+rng.randint(1,horizon//2); busy[st]=d
        evs.append(EV(a,d,rng.uniform(1,15),st,f'x{k}',Linear2StageBattery(60,20,7)))
    return acnsim.Simulator(net, algo, EventQueue([PluginEvent(e.arrival,e) for e in evs]), datetime(2020,1,1), period=5, verbose=False)
for name,algo in [("unc",UncontrolledCharging()),("edf",SortedSchedulingAlgo(earliest_deadline_first)),("rr",RoundRobin(first_come_first_served)),("llf+est",SortedSchedulingAlgo(least_laxity_first,estimate_max_rate=True,max_rate_estimator=SimpleRampdown(),uninterrupted_charging=True))]:
    t=time.time(); s=build(6,12,40,algo); s.run(); dt=time.time()-t
    print(name,"6st/12sess/40per: %.3fs iter=%d"%(dt,s.iteration))
s=build(6,12,40,UncontrolledCharging()); s.run()
t=time.time(); js=s.to_json(); t1=time.time()-t
t=time.time(); s2=acnsim.Simulator.from_json(js); t2=time.time()-t
print("to_json %.3fs from_json %.3fs len %d"%(t1,t2,len(js)))
ev=s.ev_history['x0']; t=time.time(); 
for _ in range(20): ev.to_json()
print("ev.to_json x20 %.3fs"%(time.time()-t))
from acnportal.acnsim.network.sites import caltech_acn
t=time.time(); n=caltech_acn(); print("caltech build %.3fs"%(time.time()-t), n.constraint_matrix.shape)
S=np.random.rand(54,1)*5
t=time.time()
for _ in range(1000): n.is_feasible(S)
print("is_feasible x1000 %.3fs"%(time.time()-t))
