import warnings
warnings.simplefilter("ignore")
from datetime import datetime, timedelta
from acnportal.signals.tariffs.tou_tariff import TimeOfUseTariff
import collections
for name in ["pge_a10_tou_aug_2019","sce_tou_ev_4_march_2019","sce_tou_ev_4_march_2019_tou_periods_shifted","sce_tou_ev_8_june_2019","sce_tou_ev_8_oct_2018"]:
    t = TimeOfUseTariff(name)
    errs = collections.Counter(); first={}
    for year in (2019, 2020, 2021,2022,2023,2024,2025):
        d = datetime(year,1,1)
        while d.year==year:
            try: t.get_tariff(d+timedelta(hours=9)); t.get_demand_charge(d)
            except Exception as e:
                k=str(e)[:40]; errs[k]+=1; first.setdefault(k,d)
            d+=timedelta(days=1)
    print(name, dict(errs), {k:str(v.date()) for k,v in first.items()})
