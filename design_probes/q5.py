import warnings, numpy as np, random, sys
warnings.simplefilter("ignore")
from datetime import datetime
from acnportal import acnsim
from acnportal.acnsim.models.battery import Linear2StageBattery
from acnportal.acnsim.network import Current, ChargingNetwork
from acnportal.acnsim.models import EVSE, EV, FiniteRatesEVSE
from acnportal.acnsim.events import EventQueue, PluginEvent
from acnportal.algorithms import *
def scribble(x):
    if isinstance(x,np.ndarray):
        if x.dtype==bool: x[...]=~x
        elif x.dtype.kind in 'fiu': x[...]=-777
    elif isinstance(x,list):
        for i,v in enumerate(x):
            if isinstance(v,(np.ndarray,list,dict)): scribble(v)
            else: x[i]='JUNK'
        x.append('EXTRA')
    elif isinstance(x,dict):
        for k in list(x):
            if isinstance(x[k],(np.ndarray,list,dict)): scribble(x[k])
            else: x[k]=-777
        x['EXTRA']=1
class Mut(BaseAlgorithm):
    def __init__(s,inner,mutate,with_gc): super().__init__(); s.inner=inner; s.mutate=mutate; s.max_recompute=1; s.with_gc=with_gc
    def register_interface(s,i): super().register_interface(i); s.inner.register_interface(i)
    def schedule(s,active):
        out=s.inner.schedule(active)   # decide first on clean data
        if s.mutate:
            i=s.interface
            for a in active:
                for k,v in list(vars(a).items()):
                    if isinstance(v,np.ndarray): scribble(v)
                    else: setattr(a,k,-777)
            active.clear()
            inf=i.infrastructure_info()
            for k,v in vars(inf).items(): scribble(v) if isinstance(v,(np.ndarray,list,dict)) else None
            for a in i.active_sessions(): a.energy_delivered=999
            for e in i._active_evs: e._energy_delivered=999; e._battery._current_charge=0
            scribble(i.last_applied_pilot_signals); scribble(i.last_actual_charging_rate)
            for st in i._simulator.network.station_ids[:1]:
                c,al=i.allowable_pilot_signals(st); scribble(al)
            if s.with_gc:
                c=i.get_constraints(); scribble(c.constraint_matrix); scribble(c.magnitudes); scribble(c.constraint_index); scribble(c.evse_index)
        return out
bad=0
for with_gc in (False,True):
  for seed in range(60):
    def build(mut):
        rng=random.Random(seed); n=rng.randint(2,5); ids=[f's{i}' for i in range(n)]
        net=ChargingNetwork()
        for s in ids: net.register_evse(FiniteRatesEVSE(s,[0,8,16,24,32]) if rng.random()<0.5 else EVSE(s,max_rate=32),rng.choice([208,240]),rng.choice([30,-90,150]))
        net.add_constraint(Current({s:rng.choice([1,-1]) for s in ids}),rng.choice([20.37,40.37]),'c0'); net.add_constraint(Current(ids[:2]),25.37,'c1')
        busy={s:0 for s in ids}; evs=[]
        for k in range(rng.randint(2,7)):
            s=rng.choice(ids); a=busy[s]+rng.choice([0,1]); d=a+rng.randint(1,6); busy[s]=d; evs.append(EV(a,d,rng.uniform(1,15),s,f'x{k}',Linear2StageBattery(50,30,7)))
        inner=SortedSchedulingAlgo(earliest_deadline_first) if seed%2 else UncontrolledCharging()
        sim=acnsim.Simulator(net,Mut(inner,mut,with_gc),EventQueue([PluginEvent(e.arrival,e) for e in evs]),datetime(2020,1,1),period=5,verbose=False)
        try: sim.run()
        except Exception as e: return ("EXC",type(e).__name__,str(e)[:60])
        return (sim.pilot_signals.tolist(),sim.charging_rates.tolist(),{k:v.energy_delivered for k,v in sim.ev_history.items()},net.constraint_matrix.tolist(),net.magnitudes.tolist(),list(net.constraint_index),net.station_ids)
    a=build(False); b=build(True)
    if a!=b: bad+=1; print("with get_constraints" if with_gc else "without", seed, "DIFF", b[:3] if b[0]=="EXC" else [i for i in range(7) if a[i]!=b[i]])
print("bad",bad)
