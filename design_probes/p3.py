import warnings, numpy as np, copy, json
warnings.simplefilter("ignore")
from datetime import datetime
import pytz
from acnportal import acnsim
from acnportal.acnsim.models.battery import Linear2StageBattery, Battery
from acnportal.acnsim.network import ChargingNetwork, Current
from acnportal.acnsim.models import EVSE, EV, FiniteRatesEVSE
from acnportal.acnsim.events import EventQueue, PluginEvent
from acnportal.algorithms import *
from acnportal.acnsim.interface import Interface

def net2(cap=40):
    net = ChargingNetwork()
    net.register_evse(EVSE('s1', max_rate=32), 208, 0)
    net.register_evse(EVSE('s2', max_rate=32), 208, 0)
    net.add_constraint(Current(['s1','s2']), cap, 'agg')
    return net

class Scripted(BaseAlgorithm):
    def __init__(self, fn, max_recompute=1):
        super().__init__(); self.fn=fn; self.max_recompute=max_recompute
    def schedule(self, active): return self.fn(self.interface, active)

# C04: long schedule at last period
evs=[EV(0,3,5,'s1','a',Battery(50,0,7)), EV(1,4,5,'s2','b',Battery(50,0,7))]
sim = acnsim.Simulator(net2(), Scripted(lambda i,a:{'s1':[8,8,8],'s2':[4,4,4]}), EventQueue([PluginEvent(e.arrival,e) for e in evs]), datetime(2020,1,1), period=5, verbose=False)
try:
    sim.run(); print("C04 long schedule at last period OK, iteration", sim.iteration, sim.pilot_signals.shape)
except Exception as e:
    print("C04 long schedule at last period:", type(e).__name__, e, "at iteration", sim.iteration)

# C07: estimator lookup session_id != station_id
class FixedEstimator(UpperBoundEstimatorBase):
    def get_maximum_rates(self, sessions): return {s.session_id: 10.0 for s in sessions}
evs=[EV(0,6,20,'s1','sessA',Battery(50,0,7))]
algo = SortedSchedulingAlgo(first_come_first_served, estimate_max_rate=True, max_rate_estimator=FixedEstimator())
sim = acnsim.Simulator(net2(), algo, EventQueue([PluginEvent(e.arrival,e) for e in evs]), datetime(2020,1,1), period=5, verbose=False)
sim.run(); print("C07 estimator bound 10A; max pilot applied:", sim.pilot_signals.max())
evs=[EV(0,6,20,'s1','s1',Battery(50,0,7))]
algo = SortedSchedulingAlgo(first_come_first_served, estimate_max_rate=True, max_rate_estimator=FixedEstimator())
sim = acnsim.Simulator(net2(), algo, EventQueue([PluginEvent(e.arrival,e) for e in evs]), datetime(2020,1,1), period=5, verbose=False)
sim.run(); print("    (session_id == station_id) max pilot applied:", sim.pilot_signals.max())

# C05: get_constraints leak
sim = acnsim.Simulator(net2(), Scripted(lambda i,a:{}), EventQueue(), datetime(2020,1,1), period=5, verbose=False)
iface = Interface(sim)
c = iface.get_constraints(); c.magnitudes[0] = 999
print("C05 get_constraints leaks network arrays:", sim.network.magnitudes[0])
inf = iface.infrastructure_info(); inf.constraint_limits[0] = 5; inf.station_ids.append('x')
print("    infrastructure_info isolated:", sim.network.magnitudes[0], sim.network.station_ids)

# C09: tz-aware start json roundtrip
tz = pytz.timezone('America/Los_Angeles')
sim = acnsim.Simulator(net2(), UncontrolledCharging(), EventQueue(), tz.localize(datetime(2020,1,1)), period=5, verbose=False)
s2 = acnsim.Simulator.from_json(sim.to_json())
print("C09 tz start roundtrip:", sim.start, "->", s2.start, "equal?", (s2.start.tzinfo is not None) and s2.start == sim.start)
