# C07 probe: sorted algorithms in real sims, oracle as designed. (with fix c applied in-process to see remaining issues)
import warnings, numpy as np, random, math, cmath, sys
from datetime import datetime
from acnportal import acnsim
from acnportal.acnsim.models.battery import Battery, Linear2StageBattery
from acnportal.acnsim.network import Current, ChargingNetwork
from acnportal.acnsim.models import EVSE, EV, FiniteRatesEVSE
from acnportal.acnsim.events import EventQueue, PluginEvent
from acnportal.algorithms import *
import acnportal.algorithms.preprocessing as pp
APPLY_FIX = '--fix' in sys.argv
if APPLY_FIX:
    def apply_upper_bound_estimate(ub_estimator, active_sessions):
        new_sessions = pp.expand_max_min_rates(active_sessions)
        upper_bounds = ub_estimator.get_maximum_rates(active_sessions)
        for j, session in enumerate(new_sessions):
            session.max_rates = np.minimum(session.max_rates, upper_bounds.get(session.session_id, float("inf")))
            new_sessions[j] = pp.reconcile_max_and_min(session)
        return new_sessions
    import acnportal.algorithms.sorted_algorithms as sa
    sa.apply_upper_bound_estimate = apply_upper_bound_estimate
SORTS=[first_come_first_served,last_come_first_served,earliest_deadline_first,least_laxity_first,largest_remaining_processing_time]
def feasible(A,L,ang,s,slack=0.0):
    worst=-1e9
    for j in range(len(L)):
        z=sum(A[j][i]*s[i]*cmath.exp(1j*math.radians(ang[i])) for i in range(len(s)))
        tol=max(1e-5,1e-7*L[j]); worst=max(worst,abs(z)-(L[j]+tol))
    return worst
stats=dict(runs=0,inv=0,viol=0,bind=0,boundary=0)
for seed in range(int(sys.argv[1]) if len(sys.argv)>1 and sys.argv[1].isdigit() else 150):
    rng=random.Random(seed)
    nst=rng.randint(2,7); period=rng.choice([1,5,15])
    ids=[f's{i}' for i in range(nst)]; volt=[rng.choice([208,240,120]) for _ in ids]; ang=[rng.choice([30,-90,150]) for _ in ids]
    kinds=[rng.choice(['c','cc','av']) for _ in ids]
    net=ChargingNetwork()
    evse={}
    for i,s in enumerate(ids):
        e = EVSE(s,max_rate=32) if kinds[i]=='c' else FiniteRatesEVSE(s,[0,8,16,24,32] if kinds[i]=='cc' else [0]+list(range(6,33)))
        evse[s]=e; net.register_evse(e,volt[i],ang[i])
    g={a:[s for s,x in zip(ids,ang) if x==a] for a in (30,-90,150)}
    AB,BC,CA=Current(g[30]),Current(g[-90]),Current(g[150])
    cons=[]
    lim=rng.choice([10.37,25.37,60.37,200.37])
    for nm,cur in [('a',AB-CA),('b',BC-AB),('c',CA-BC)]:
        if len(cur)>0: net.add_constraint(cur,lim,nm); cons.append((nm,dict(cur),lim))
    if rng.random()<0.5:
        sub=rng.sample(ids,rng.randint(1,nst)); l2=rng.choice([8.37,20.37,40.37]); net.add_constraint(Current(sub),l2,'pod'); cons.append(('pod',{s:1 for s in sub},l2))
    A=[[c[1].get(s,0) for s in ids] for c in cons]; L=[c[2] for c in cons]
    busy=[0]*nst; sess=[]
    for k in range(rng.randint(2,9)):
        st=rng.randrange(nst); a=busy[st]+rng.choice([0,0,1,2]); d=a+rng.randint(1,8); busy[st]=d
        sess.append((a,d,rng.choice([0.3,2,6,25]),st,f'sess{k}' if rng.random()<0.8 else ids[(st+1)%nst]+"_x" ))
    # make session ids sometimes collide with other station ids
    if rng.random()<0.3 and nst>1:
        a,d,r,st,sid=sess[0]; sess[0]=(a,d,r,st,ids[(st+1)%nst])
    evs=[EV(a,d,req,ids[st],sid,Linear2StageBattery(rng.choice([30,60]),rng.choice([5,20,24]),rng.choice([3.3,6.6,10]))) for a,d,req,st,sid in sess]
    if len(set(e.session_id for e in evs))<len(evs): continue
    est=rng.choice([None,'ramp','fixed']); unint=rng.random()<0.5; rr=rng.random()<0.4
    class Fixed(UpperBoundEstimatorBase):
        def get_maximum_rates(self,sessions): return {s.session_id: 9.5 for s in sessions}
    estimator = None if est is None else (SimpleRampdown() if est=='ramp' else Fixed())
    sort=rng.choice(SORTS)
    algo=(RoundRobin(sort,estimate_max_rate=est is not None,max_rate_estimator=estimator,uninterrupted_charging=unint,continuous_inc=rng.choice([0.1,0.5,1])) if rr
          else SortedSchedulingAlgo(sort,estimate_max_rate=est is not None,max_rate_estimator=estimator,uninterrupted_charging=unint))
    records=[]
    orig_run=algo.run
    def run():
        sim=algo.interface._simulator
        pre={e.session_id:(e.station_id,e.requested_energy-e.energy_delivered) for e in sim.network.active_evs}
        bounds=dict(estimator.upper_bounds) if est=='ramp' else None
        out=orig_run()
        post_bounds=dict(estimator.upper_bounds) if est=='ramp' else ({k:9.5 for k in pre} if est=='fixed' else None)
        records.append((sim.iteration,pre,out,post_bounds)); return out
    algo.run=run
    sim=acnsim.Simulator(net,algo,EventQueue([PluginEvent(e.arrival,e) for e in evs]),datetime(2020,1,1),period=period,verbose=False)
    with warnings.catch_warnings(record=True) as w:
        warnings.simplefilter("always")
        try: sim.run()
        except Exception as e:
            print(seed,"EXC",type(e).__name__,str(e)[:100], "rr" if rr else "greedy", sort.__name__, est, unint); stats['viol']+=1; continue
    stats['runs']+=1
    inval=[x for x in w if 'Invalid schedule' in str(x.message)]
    if inval: print(seed,"WARN",str(inval[0].message)[:90]); stats['viol']+=1
    for t,pre,out,bnds in records:
        stats['inv']+=1
        s=[out[x][0] if x in out else 0 for x in ids]
        if set(out)!=set(ids) or any(len(v)!=1 for v in out.values()): print(seed,t,"shape",out); stats['viol']+=1
        m=feasible(A,L,ang,s)
        if m>1e-9: print(seed,t,"infeasible margin",m); stats['viol']+=1
        if m>-0.5: stats['bind']+=1
        occupied={st for st,_ in pre.values()}
        for i,x in enumerate(ids):
            p=s[i]
            if x not in occupied and p!=0: print(seed,t,"pilot on inactive",x,p); stats['viol']+=1
            # acceptance
            if kinds[i]=='c': ok=-1e-3<=p<=32+1e-3
            else: ok=any(abs(p-r)<=1e-3 for r in evse[x].allowable_rates)
            if not ok: print(seed,t,"not accepted",x,p); stats['viol']+=1
        for sid,(st,rem) in pre.items():
            i=ids.index(st); p=s[i]
            amp=rem*1000/volt[i]*60/period
            b=min(amp,32)
            if bnds is not None and sid in bnds: b=min(b,bnds[sid])
            minp = (0 if kinds[i]=='c' else (8 if kinds[i]=='cc' else 6)) if unint else 0
            allowed=max(b, minp if minp<=amp else 0)
            if p>allowed+1e-9: print(seed,t,"exceeds bound",sid,st,"p",p,"amp",amp,"est",None if bnds is None else bnds.get(sid),"rr" if rr else "greedy", est,unint); stats['viol']+=1
    for e in evs:
        if e.energy_delivered>e.requested_energy*(1+1e-9): print(seed,"overdelivered",e.session_id,e.energy_delivered,e.requested_energy); stats['viol']+=1
print(stats)
