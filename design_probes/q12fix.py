import sys
from acnportal.acnsim.network.current import Current
import pandas as pd
def _mul(self, other): return Current(pd.Series.__mul__(self, other))
Current.__mul__=_mul; Current.__rmul__=_mul
sys.argv=['q12.py',sys.argv[1]]
exec(open('q12.py').read())
