import warnings, numpy as np, math
warnings.simplefilter("ignore")
from acnportal.acnsim.network.sites import caltech_acn, jpl_acn, office001_acn
rng=np.random.default_rng(0)
VLL=120*math.sqrt(3)
def boundary_scale(net, d, hi=32.0):
    # largest alpha in [0,1] with alpha*d feasible (d already within EVSE limits)
    lo, up = 0.0, 1.0
    if net.is_feasible(d[:,None]): return 1.0
    for _ in range(50):
        mid=(lo+up)/2
        if net.is_feasible((mid*d)[:,None]): lo=mid
        else: up=mid
    return lo
for name, mk, caps, groups in [
  ("caltech", lambda c: caltech_acn(basic_evse=True, transformer_cap=c), [150, 50, 300], None),
  ("office", lambda c: office001_acn(basic_evse=True, transformer_cap=c), [50, 20], None),
  ("jpl", lambda c: jpl_acn(basic_evse=True, first_transformer_cap=c[0], third_fourth_transformer_cap=c[1]), [(45,150),(20,60)], None)]:
    for cap in caps:
        net=mk(cap); ids=net.station_ids; ang=np.array([net.phase_angles[i] for i in ids])
        worst=0
        for trial in range(3000):
            gw = rng.choice([0,1,rng.random()], size=3)  # group weights by phase
            w = np.where(ang==30,gw[0],np.where(ang==-90,gw[1],gw[2]))*rng.random(len(ids))**rng.choice([0,1,3])
            if w.max()==0: continue
            d = 32*w/w.max()
            a = boundary_scale(net, d); s=a*d
            if name=="jpl":
                first=np.array([i.startswith("AG-1F") for i in ids])
                r=max(VLL*s[first].sum()/1000/cap[0], VLL*s[~first].sum()/1000/cap[1])
            else:
                r=VLL*s.sum()/1000/cap
            worst=max(worst,r)
        print(name,cap,"n",len(ids),"angles",sorted(set(ang)),"max P/cap over feasible boundary points: %.6f"%worst)
