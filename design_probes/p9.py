import warnings, numpy as np, random, math
warnings.simplefilter("ignore")
from datetime import datetime, timedelta
from acnportal import acnsim
from acnportal.acnsim.models.battery import Battery, Linear2StageBattery
from acnportal.acnsim.network import Current, ChargingNetwork
from acnportal.acnsim.models import EVSE, EV, FiniteRatesEVSE
from acnportal.acnsim.events import EventQueue, PluginEvent, RecomputeEvent
from acnportal.algorithms import *
bad=0
for seed in range(400):
    rng=random.Random(seed)
    nst=rng.randint(1,4); period=rng.choice([1,5,15,0.5])
    volt=[rng.choice([120,208,240]) for _ in range(nst)]
    net=ChargingNetwork()
    for i in range(nst): net.register_evse(EVSE(f's{i}',max_rate=32),volt[i],rng.choice([0,30,-90,150]))
    if rng.random()<0.7: net.add_constraint(Current({f's{i}':rng.choice([1,-1,0.5]) for i in range(nst)}), rng.uniform(10,80),'c0')
    sess=[]; busy=[0]*nst
    for k in range(rng.randint(1,7)):
        st=rng.randrange(nst); a=busy[st]+rng.choice([0,0,1,3]); d=a+rng.randint(1,5); busy[st]=d
        req=rng.choice([0.05,1,5,40]); batt=rng.choice(["i","l"])
        sess.append((a,d,req,st,f'x{k}',batt))
    rng.shuffle(sess)
    evs=[EV(a,d,req,f's{st}',sid,Battery(100,10,rng.choice([3,7,20])) if b=="i" else Linear2StageBattery(100,rng.choice([10,75,95]),7)) for a,d,req,st,sid,b in sess]
    mr=rng.choice([None,1,2,5])
    recs=[RecomputeEvent(rng.randint(0,12)) for _ in range(rng.randint(0,2))]
    calls=[]
    class Rec(BaseAlgorithm):
        def __init__(s): super().__init__(); s.max_recompute=mr
        def schedule(s, active):
            i=s.interface; sim=i._simulator
            calls.append((i.current_time,[a.session_id for a in active], {a.session_id:a.energy_delivered for a in active}, i.get_prev_peak(), dict(i.last_actual_charging_rate), dict(i.last_applied_pilot_signals), i.current_datetime))
            L=rng.randint(1,3)
            return {f's{j}':[rng.choice([0,8,16.5,32]) for _ in range(L)] for j in range(nst) if rng.random()<0.8}
    start=datetime(2020,3,1,7,30)
    sim=acnsim.Simulator(net,Rec(),EventQueue([PluginEvent(e.arrival,e) for e in evs]+recs),start,period=period,verbose=False)
    try: sim.run()
    except Exception as e:
        if isinstance(e,TypeError) and 'NoneType' in str(e): continue  # known C04
        print(seed,"EXC",type(e).__name__,e); bad+=1; continue
    T=sim.iteration
    last=max([d for a,d,*_ in sess]+[r.timestamp for r in recs])
    ok=True
    if T!=last+1: print(seed,"iteration",T,"expected",last+1); ok=False
    if not sim.event_queue.empty() or any(net.get_ev(s) is not None for s in net.station_ids): print(seed,"not vacated"); ok=False
    hist=[(e.timestamp,e.precedence) for e in sim.event_history]
    if hist!=sorted(hist): print(seed,"order",hist); ok=False
    # ledger
    for (a,d,req,st,sid,b),ev in zip(sess,evs):
        e=sum(sim.charging_rates[st,t] for t in range(a,d))*volt[st]/1000*period/60
        if abs(e-ev.energy_delivered)>1e-9*max(1,e): print(seed,"ledger",sid,e,ev.energy_delivered); ok=False
        gained=ev._battery._current_charge-ev._battery._init_charge
        if abs(gained-ev.energy_delivered)>1e-9*max(1,e): print(seed,"battery",sid,gained,ev.energy_delivered); ok=False
    occ=np.zeros((nst,T),bool)
    for a,d,req,st,sid,b in sess: occ[st,a:d]=True
    if (sim.charging_rates[:,:T][~occ]!=0).any(): print(seed,"rate on vacant"); ok=False
    if (sim.charging_rates[:,:T] > sim.pilot_signals[:,:T]+1e-9).any() or (sim.charging_rates<-1e-12).any(): print(seed,"bounds"); ok=False
    if abs(sim.peak-max(0,sim.charging_rates.sum(axis=0).max()))>1e-9: print(seed,"peak"); ok=False
    # invocation set
    evt=set([a for a,*_ in sess]+[d for a,d,*_ in sess]+[r.timestamp for r in recs])
    exp=[];lastc=None
    for t in range(T):
        if t in evt or (mr is not None and (lastc is None or t-lastc>=mr)): exp.append(t); lastc=t
    got=[c[0] for c in calls]
    if got!=exp: print(seed,"invocations",got,exp,"mr",mr); ok=False
    for (t,act,en,pk,lr,lp,dtm) in calls:
        if dtm!=start+timedelta(minutes=period)*t: print(seed,"datetime"); ok=False
        if abs(pk-max([0]+[sim.charging_rates[:,u].sum() for u in range(t)]))>1e-9: print(seed,"prevpeak",t,pk); ok=False
    if not ok: bad+=1
print("bad",bad)
