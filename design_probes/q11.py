import warnings, random, sys, itertools, time
warnings.simplefilter("ignore")
from acnportal.acnsim.events import EventQueue, Event, PluginEvent, UnplugEvent, RecomputeEvent
from acnportal.acnsim.models import EV
from acnportal.acnsim.models.battery import Battery
PREC={'U':0,'P':10,'R':20,'E':float('inf')}
def mk(kind,ts,uid):
    ev=EV(0,1,1,'s',f'u{uid}',Battery(10,0,1))
    e={'U':lambda:UnplugEvent(ts,ev),'P':lambda:PluginEvent(ts,ev),'R':lambda:RecomputeEvent(ts),'E':lambda:Event(ts)}[kind]()
    e._uid=uid; return e
bad=0
def check_queries(q,model,tag):
    global bad
    if len(q)!=len(model) or q.empty()!=(len(model)==0) or q.get_last_timestamp()!=(max(m[0] for m in model) if model else None):
        print(tag,"query mismatch"); bad+=1
# exhaustive small
t0=time.time(); nseq=0
alpha=[('add',ts,k) for ts in (0,1,2) for k in 'UPR']+[('get',)]+[('cur',t) for t in (0,1,2)]
for L in range(1,5):
    for seq in itertools.product(alpha,repeat=L):
        nseq+=1
        q=EventQueue(); model=[]; uid=0
        for op in seq:
            if op[0]=='add':
                e=mk(op[2],op[1],uid); uid+=1; q.add_event(e); model.append((op[1],PREC[op[2]],e))
            elif op[0]=='get':
                if not model:
                    try: q.get_event(); print("get on empty returned"); bad+=1
                    except Exception: pass
                    continue
                e=q.get_event(); key=min((m[0],m[1]) for m in model)
                hit=[m for m in model if m[2] is e]
                if not hit or (hit[0][0],hit[0][1])!=key: print(seq,"get wrong"); bad+=1; break
                model.remove(hit[0])
            else:
                got=q.get_current_events(op[1]); exp=[m for m in model if m[0]<=op[1]]
                keys=[(e.timestamp,e.precedence) for e in got]
                if sorted(id(m[2]) for m in exp)!=sorted(id(e) for e in got) or keys!=sorted(keys): print(seq,"cur wrong"); bad+=1; break
                model=[m for m in model if m[0]>op[1]]
            check_queries(q,model,seq)
print("exhaustive sequences",nseq,"bad",bad,"%.1fs"%(time.time()-t0))
# random long with JSON
from collections import Counter
rng=random.Random(0); nops=0; rts=0
tag=lambda e:(e.timestamp,e.precedence,getattr(e,'session_id',None))
for trial in range(300):
    q=EventQueue(); model=Counter(); uid=0
    for step in range(rng.randint(30,120)):
        r=rng.random(); nops+=1
        if r<0.5:
            k=rng.choice('UPRE'); ts=rng.randint(0,15); e=mk(k,ts,uid); uid+=1
            if rng.random()<0.2: q.add_events([e])
            else: q.add_event(e)
            model[tag(e)]+=1
        elif r<0.7 and model:
            e=q.get_event(); key=min((m[0],m[1]) for m in model.elements())
            if model[tag(e)]<=0 or (e.timestamp,e.precedence)!=key: print("rand get wrong"); bad+=1; break
            model[tag(e)]-=1; model+=Counter()
        elif r<0.85:
            t=rng.randint(0,15); got=q.get_current_events(t); exp=Counter({m:c for m,c in model.items() if m[0]<=t})
            keys=[(e.timestamp,e.precedence) for e in got]
            if Counter(tag(e) for e in got)!=exp or keys!=sorted(keys): print("rand cur wrong"); bad+=1; break
            model=Counter({m:c for m,c in model.items() if m[0]>t})
        else:
            q=EventQueue.from_json(q.to_json()); rts+=1
        L=sum(model.values())
        if len(q)!=L or q.empty()!=(L==0) or q.get_last_timestamp()!=(max(m[0] for m in model) if L else None): print("query mismatch"); bad+=1
print("random ops",nops,"round trips",rts,"bad",bad)
