import warnings, numpy as np, copy, json
warnings.simplefilter("ignore")
from datetime import datetime
from acnportal import acnsim
from acnportal.acnsim.models.battery import Linear2StageBattery, Battery
from acnportal.acnsim.network import ChargingNetwork, Current
from acnportal.acnsim.models import EVSE, EV, FiniteRatesEVSE
from acnportal.acnsim.events import EventQueue, PluginEvent
from acnportal.algorithms import *

def net2(cap=40):
    net = ChargingNetwork()
    net.register_evse(EVSE('s1', max_rate=32), 208, 0)
    net.register_evse(EVSE('s2', max_rate=32), 208, 0)
    net.add_constraint(Current(['s1','s2']), cap, 'agg')
    return net
class Boom(Exception): pass
class Flaky(BaseAlgorithm):
    def __init__(self, inner, fail_at):
        super().__init__(); self.inner=inner; self.fail_at=set(fail_at); self.max_recompute=inner.max_recompute
    def register_interface(self, i): super().register_interface(i); self.inner.register_interface(i)
    def schedule(self, active):
        t=self.interface.current_time
        if t in self.fail_at:
            self.fail_at.discard(t); raise Boom(t)
        return self.inner.schedule(active)
def mk(): return [EV(0,3,5,'s1','a',Battery(50,0,7)), EV(1,4,5,'s2','b',Battery(50,0,7))]
def build(sched):
    evs=mk()
    return acnsim.Simulator(net2(), sched, EventQueue([PluginEvent(e.arrival,e) for e in evs]), datetime(2020,1,1), period=5, verbose=False)
ref = build(UncontrolledCharging()); ref.run()
print("ref iteration", ref.iteration, "pilots\n", ref.pilot_signals)
for k in range(0,5):
    s = build(Flaky(UncontrolledCharging(), [k]))
    try: s.run(); print("k",k,"no exception?!")
    except Boom: pass
    s.run()
    same = s.pilot_signals.shape==ref.pilot_signals.shape and np.allclose(s.pilot_signals, ref.pilot_signals) and np.allclose(s.charging_rates, ref.charging_rates)
    print("interrupt at", k, "-> iteration", s.iteration, "same outputs:", same, "events", [ (e.event_type,e.timestamp) for e in s.event_history]==[(e.event_type,e.timestamp) for e in ref.event_history])
# with JSON round trip in the middle
for k in range(0,5):
    s = build(Flaky(UncontrolledCharging(), [k]))
    try: s.run()
    except Boom: pass
    s2 = acnsim.Simulator.from_json(s.to_json())
    s2.update_scheduler(UncontrolledCharging())
    s2.run()
    same = s2.pilot_signals.shape==ref.pilot_signals.shape and np.allclose(s2.pilot_signals, ref.pilot_signals) and np.allclose(s2.charging_rates, ref.charging_rates)
    en = [s2.ev_history[k2].energy_delivered for k2 in sorted(s2.ev_history)]==[ref.ev_history[k2].energy_delivered for k2 in sorted(ref.ev_history)]
    ident = all(s2.network.get_ev(st) is None or s2.network.get_ev(st) is s2.ev_history[s2.network.get_ev(st).session_id] for st in s2.network.station_ids)
    print("json at", k, "-> iteration", s2.iteration, "same outputs:", same, "energies", en)
