import warnings, numpy as np, random, sys, math, cmath
warnings.simplefilter("ignore")
from datetime import datetime
from fractions import Fraction as F
from acnportal import acnsim
from acnportal.acnsim.network import Current, ChargingNetwork
from acnportal.acnsim.models import EVSE
from acnportal.acnsim.events import EventQueue
from acnportal.acnsim.interface import Interface
from acnportal.algorithms import UncontrolledCharging
from acnportal.algorithms.utils import infrastructure_constraints_feasible as icf
cnt=dict(cases=0,ph_bad=0,agree_ph_bad=0,lin_agree_bad=0,lin_nonconservative=0,guard=0,near=0,lin_T1_bad=0)
rng=random.Random(0)
for it in range(int(sys.argv[1])):
    n=rng.randint(1,8); ids=[f's{i}' for i in range(n)]; ang=[rng.choice([0,30,-90,150,rng.uniform(-180,180)]) for _ in ids]
    vt=rng.choice([0,1e-7,1e-5,1e-3]); rt=rng.choice([0,1e-7,1e-4])
    net=ChargingNetwork(violation_tolerance=vt,relative_tolerance=rt)
    for s,a in zip(ids,ang): net.register_evse(EVSE(s,max_rate=1000),208,a)
    m=rng.randint(1,5); A=[];L=[]
    for j in range(m):
        sub=rng.sample(ids,rng.randint(1,n)); co={s:rng.choice([1,-1,0.5,-0.5,0.25,rng.uniform(-2,2)]) for s in sub}; lim=rng.uniform(1,300)
        net.add_constraint(Current(co),lim,f'c{j}'); A.append([co.get(s,0.0) for s in ids]); L.append(lim)
    T=rng.randint(1,4); D=np.array([[rng.random() if rng.random()<0.8 else 0 for _ in range(T)] for _ in ids])
    if D.max()==0: continue
    def worst(S,linear):
        w=-1e18
        for j in range(m):
            tol=max(vt,rt*L[j])
            for t in range(T):
                if linear: v=abs(sum(abs(A[j][i])*S[i][t] for i in range(n)))
                else: v=abs(sum(A[j][i]*S[i][t]*cmath.exp(1j*math.radians(ang[i])) for i in range(n)))
                w=max(w,v-(L[j]+tol))
        return w
    # scale so that tightest phasor margin is k*tolscale
    base=worst(D*0,False)
    lo,hi=0.0,1e4
    for _ in range(200):
        mid=(lo+hi)/2
        if worst(D*mid,False)<=0: lo=mid
        else: hi=mid
    k=rng.choice([-2,-0.5,0.5,2,-1e4,1e4]); tolscale=max(vt,1e-7)
    # move along direction by delta so margin ~ k*tolscale : approximate using derivative
    eps=1e-3; g=(worst(D*(lo+eps),False)-worst(D*lo,False))/eps
    alpha=max(0.0,lo+ (k*tolscale)/g) if g>0 else lo
    S=D*alpha
    sim=acnsim.Simulator(net,UncontrolledCharging(),EventQueue(),datetime(2020,1,1),verbose=False); iface=Interface(sim)
    sched={s:list(S[i]) for i,s in enumerate(ids) if rng.random()<0.8 or True}
    items=list(sched.items()); rng.shuffle(items); sched=dict(items)
    mph=worst(S,False); mlin=worst(S,True)
    cnt['cases']+=1
    if abs(mph)<=2.5*tolscale: cnt['near']+=1
    r_net=bool(net.is_feasible(S)); r_if=bool(iface.is_feasible(sched)); r_alg=bool(icf(S,iface.infrastructure_info(),False,vt,rt))
    if abs(mph)<1e-9*(1+max(L)): cnt['guard']+=1
    else:
        exp=mph<=0
        if r_net!=exp: cnt['ph_bad']+=1; print("phasor oracle mismatch",mph,r_net)
        if not (r_net==r_if==r_alg): cnt['agree_ph_bad']+=1; print("phasor disagree",r_net,r_if,r_alg,mph)
    if abs(mlin)>=1e-9*(1+max(L)):
        l_net=bool(net.is_feasible(S,linear=True)); l_if=bool(iface.is_feasible(sched,linear=True)); l_alg=bool(icf(S,iface.infrastructure_info(),True,vt,rt))
        if not (l_net==l_if==l_alg):
            cnt['lin_agree_bad']+=1
            if T==1: cnt['lin_T1_bad']+=1
        if l_net and mph>1e-9*(1+max(L)): cnt['lin_nonconservative']+=1
print(cnt)
