"""Design-time sensitivity smoke: apply one realistic break to a scratch copy of
/repo, run the prototype probe for the property with PYTHONPATH at the copy,
report the probe's last line. Prototype of mutants/selftest.py; not registered."""
import os, shutil, subprocess, sys, tempfile
HERE = os.path.dirname(os.path.abspath(__file__))
M = [
 ("M01 C01 plugin before unplug", "acnportal/acnsim/events/event.py", '        self.event_type = "Plugin"\n        self.precedence = 10', '        self.event_type = "Plugin"\n        self.precedence = -1', ["p9.py"]),
 ("M02 C01/C11 current events strict <", "acnportal/acnsim/events/event_queue.py", "self._queue[0][0] <= self._timestep", "self._queue[0][0] < self._timestep", ["q11.py"]),
 ("M02b same, trace oracle", "acnportal/acnsim/events/event_queue.py", "self._queue[0][0] <= self._timestep", "self._queue[0][0] < self._timestep", ["p9.py"]),
 ("M03 C02 EV integrates pilot", "acnportal/acnsim/models/ev.py", "self._energy_delivered += (charge_rate * voltage)", "self._energy_delivered += (pilot * voltage)", ["p9.py"]),
 ("M04 C05 recompute > instead of >=", "acnportal/acnsim/simulator.py", "                    >= self.max_recompute", "                    > self.max_recompute", ["p9.py"]),
 ("M05 C05 no deepcopy of active EVs", "acnportal/acnsim/simulator.py", "evs = copy.deepcopy(self.network.active_evs)", "evs = self.network.active_evs", ["q5.py"]),
 ("M06 C06 min of tolerances", "acnportal/acnsim/network/charging_network.py", "self.magnitudes + np.maximum(violation_tolerance, rel_magnitude_tol)", "self.magnitudes + np.minimum(violation_tolerance, rel_magnitude_tol)", ["q6.py", "2000"]),
 ("M07 C07 bisection returns mid", "acnportal/algorithms/sorted_algorithms.py", "            if (_ub - _lb) <= eps:\n                return _lb", "            if (_ub - _lb) <= eps:\n                return _ub", ["q7.py", "80", "--fix"]),
 ("M07b C08 same", "acnportal/algorithms/sorted_algorithms.py", "            if (_ub - _lb) <= eps:\n                return _lb", "            if (_ub - _lb) <= eps:\n                return _ub", ["q8.py", "300"]),
 ("M08 C09 EV energy not restored", "acnportal/acnsim/models/ev.py", '        out_obj._energy_delivered = attribute_dict["_energy_delivered"]\n', "", ["q9.py", "25"]),
 ("M09 C10/C12 no reindex to station order", "acnportal/acnsim/network/charging_network.py", "self.constraint_matrix = constraint_frame.reindex(\n            columns=self.station_ids\n        ).to_numpy()", "self.constraint_matrix = constraint_frame.to_numpy()", ["q10.py", "80"]),
 ("M09b same, C12 model", "acnportal/acnsim/network/charging_network.py", "self.constraint_matrix = constraint_frame.reindex(\n            columns=self.station_ids\n        ).to_numpy()", "self.constraint_matrix = constraint_frame.to_numpy()", ["q12fix.py", "400"]),
 ("M10 C12 wrong magnitude removed", "acnportal/acnsim/network/charging_network.py", "self.magnitudes = np.delete(self.magnitudes, del_index, axis=0)", "self.magnitudes = np.delete(self.magnitudes, 0, axis=0)", ["q12fix.py", "400"]),
 ("M11 C13 atol 1e-2", "acnportal/acnsim/models/evse.py", "return self.min_rate <= pilot + atol and pilot - atol <= self.max_rate", "return self.min_rate <= pilot + 10 * atol and pilot - 10 * atol <= self.max_rate", ["q13.py"]),
 ("M12 C14 crossing branch", "acnportal/acnsim/models/battery.py", "            if 1 <= (pilot_transition_soc - self._soc) / pilot_dsoc:", "            if 0.5 <= (pilot_transition_soc - self._soc) / pilot_dsoc:", ["q13.py"]),
 ("M13 C16 sign in caltech secondary", "acnportal/acnsim/network/sites/caltech_acn.py", "    I3a = AB - CA", "    I3a = AB + CA", ["p8.py"]),
 ("M14 C18 unweighted power", "acnportal/acnsim/analysis/__init__.py", "return sim.network._voltages.T.dot(sim.charging_rates) / 1000", "return sim.charging_rates.sum(axis=0) * sim.network._voltages.mean() / 1000", ["q18.py", "60"]),
 ("M16 C20 stop after first page", "acnportal/acndata/data_client.py", '            if "next" in payload["_links"]:', '            if "next" in payload["_links"] and False:', ["q20.py"]),
 ("M17 C04 block write off by one", "acnportal/acnsim/simulator.py", "        if self._iteration + schedule_length <= self.pilot_signals.shape[1]:\n            self.pilot_signals[\n                :, self._iteration : (self._iteration + schedule_length)\n            ] = schedule_matrix", "        if self._iteration + schedule_length < self.pilot_signals.shape[1]:\n            self.pilot_signals[\n                :, self._iteration + 1 : (self._iteration + 1 + schedule_length)\n            ] = schedule_matrix", ["q4.py", "200"]),
 ("M19 C15 round instead of floor", "acnportal/acnsim/events/acndata_events.py", "        return int(ts)", "        return int(round(ts))", ["q20.py"]),
 ("M20 C08 EDF reversed", "acnportal/algorithms/sorted_algorithms.py", "return sorted(evs, key=lambda x: x.estimated_departure)", "return sorted(evs, key=lambda x: x.estimated_departure, reverse=True)", ["q8.py", "300"]),
 ("M21 C19 LIFO admission (probe has no FIFO oracle yet)", "acnportal/contrib/acnsim/network/stochastic_network.py", "self.waiting_queue.popitem(last=False)", "self.waiting_queue.popitem(last=True)", ["p5.py"]),
 ("M22 C02 vacant station reports its pilot as rate", "acnportal/acnsim/network/charging_network.py", "evse.ev.current_charging_rate if evse.ev is not None else 0", "evse.ev.current_charging_rate if evse.ev is not None else evse.current_pilot", ["p9.py"]),
]
only = sys.argv[1:] 
for name, path, old, new, probe in M:
    if only and not any(name.startswith(o) for o in only): continue
    d = tempfile.mkdtemp(prefix="acn_mut_")
    try:
        subprocess.run(f"cd /repo && git archive HEAD | tar -x -C {d}", shell=True, check=True)
        p = os.path.join(d, path); s = open(p).read()
        assert s.count(old) == 1, (name, s.count(old))
        open(p, "w").write(s.replace(old, new))
        env = dict(os.environ, PYTHONPATH=d, PYTHONDONTWRITEBYTECODE="1", PYTHONWARNINGS="ignore")
        r = subprocess.run(["/venv/bin/python", os.path.join(HERE, probe[0])] + probe[1:], env=env, capture_output=True, text=True, timeout=900, cwd=HERE)
        lines = [l for l in (r.stdout + r.stderr).splitlines() if l.strip() and "arning" not in l and "pkg_resources" not in l]
        print(f"{name:50s} | {probe[0]:9s} | {' || '.join(lines[-(7 if probe[0]=='p8.py' else 2):])[:900]}")
    finally:
        shutil.rmtree(d, ignore_errors=True)
