import sys, time, warnings
warnings.simplefilter("ignore")
from acnportal.acnsim.models.battery import Linear2StageBattery
M=sys.monitoring; TOOL=3
M.use_tool_id(TOOL,"verifcov")
hits=set()
def on_line(code,line):
    hits.add((code.co_qualname,line)); return M.DISABLE
M.register_callback(TOOL,M.events.LINE,on_line)
for fn in (Linear2StageBattery._charge, Linear2StageBattery._charge_stepwise):
    M.set_local_events(TOOL,fn.__code__,M.events.LINE)
t=time.time()
for i in range(20000):
    b=Linear2StageBattery(60,10+i%50,7); b.charge(16,208,5)
dt=time.time()-t
for fn in (Linear2StageBattery._charge, Linear2StageBattery._charge_stepwise):
    lines={l for _,_,l in fn.__code__.co_lines() if l is not None and l!=fn.__code__.co_firstlineno}
    got={l for q,l in hits if q==fn.__code__.co_qualname}
    print(fn.__qualname__,"executed",len(got&lines),"of",len(lines),"missing",sorted(lines-got)[:12])
print("20000 charges %.2fs"%dt)
