import warnings, numpy as np
warnings.simplefilter("ignore")
from datetime import datetime
from acnportal import acnsim
from acnportal.acnsim.models.battery import Linear2StageBattery, Battery
from acnportal.acnsim.network import ChargingNetwork, Current
from acnportal.acnsim.models import EVSE, EV
from acnportal.acnsim.events import EventQueue, PluginEvent
from acnportal.algorithms import UncontrolledCharging, SortedSchedulingAlgo, first_come_first_served
# C03 noise continuous
np.random.seed(0)
neg=0; n=0; dec=0
for i in range(2000):
    b = Linear2StageBattery(60, 55, 7, noise_level=1.0)
    before=b._current_charge
    r = b.charge(4, 208, 5); n+=1
    if r < 0: neg+=1
    if b._current_charge < before: dec+=1
print("C03 continuous+noise: negative rate", neg, "charge decreased", dec, "of", n)
# C12 Current algebra
a=Current(['s1','s2']); b=Current({'s2':1,'s3':1})
x = 2*b
print("C12 type(2*b)=", type(x).__name__, " a + 2*b ->", repr(a + 2*b) if (a+2*b) is None else (a+2*b).to_dict())
print("   a - 2*b ->", (a - 2*b).to_dict(), type(a-2*b).__name__)
print("   a + b*0.25 ->", (a + b*0.25) )
b2=Current({'s2':1,'s3':1}); b2 *= 3; print("   inplace type", type(b2).__name__, b2.to_dict())
print("   (a+b)*0.25 type:", type((a+b)*0.25).__name__)
# C06 constraint-free network interface
net = ChargingNetwork()
net.register_evse(EVSE('s1', max_rate=32), 208, 0)
ev = EV(0, 5, 3, 's1', 'sess1', Battery(10, 0, 7))
sim = acnsim.Simulator(net, UncontrolledCharging(), EventQueue([PluginEvent(0, ev)]), datetime(2020,1,1), period=5, verbose=False)
try:
    sim.run(); print("C06 constraint-free uncontrolled run OK; energy", ev.energy_delivered)
except Exception as e:
    print("C06 constraint-free network + UncontrolledCharging:", type(e).__name__, e)
# C06 linear conservative?
net = ChargingNetwork()
net.register_evse(EVSE('a', max_rate=32), 208, 0)
net.register_evse(EVSE('b', max_rate=32), 208, 180)
net.add_constraint(Current({'a':1,'b':-1}), 10, 'c')
S=np.array([[20.],[20.]])
print("C06 linear accepts:", bool(net.is_feasible(S, linear=True)), " phasor accepts:", bool(net.is_feasible(S)))
# algorithm side linear with 2 periods
from acnportal.algorithms.utils import infrastructure_constraints_feasible
from acnportal.acnsim.interface import Interface
net = ChargingNetwork()
net.register_evse(EVSE('a', max_rate=32), 208, 0)
net.register_evse(EVSE('b', max_rate=32), 208, 0)
net.add_constraint(Current(['a','b']), 10, 'c')
sim = acnsim.Simulator(net, UncontrolledCharging(), EventQueue(), datetime(2020,1,1), verbose=False)
iface = Interface(sim)
S=np.array([[4.,4.],[4.,4.]])
print("C06 T=2 linear: network", bool(net.is_feasible(S, linear=True)), "algo-side", bool(infrastructure_constraints_feasible(S, iface.infrastructure_info(), linear=True)))
print("    T=2 phasor: network", bool(net.is_feasible(S)), "algo-side", bool(infrastructure_constraints_feasible(S, iface.infrastructure_info())))
try:
    print("   1-D linear algo-side:", infrastructure_constraints_feasible(np.array([4.,4.]), iface.infrastructure_info(), linear=True))
except Exception as e: print("   1-D linear algo-side EXC", type(e).__name__, e)
