import warnings, numpy as np, random
warnings.simplefilter("ignore")
from datetime import datetime
from acnportal import acnsim
from acnportal.acnsim.models.battery import Battery
from acnportal.acnsim.network import Current
from acnportal.contrib.acnsim.network.stochastic_network import StochasticNetwork
from acnportal.acnsim.models import EVSE, EV
from acnportal.acnsim.events import EventQueue, PluginEvent
from acnportal.algorithms import *
viol=0; runs=0
for seed in range(300):
    rng = random.Random(seed)
    nst = rng.randint(1,3)
    early = rng.random()<0.5
    net = StochasticNetwork(early_departure=early)
    for i in range(nst): net.register_evse(EVSE(f's{i}', max_rate=32), 208, 0)
    net.add_constraint(Current([f's{i}' for i in range(nst)]), 100, 'agg')
    evs=[]
    for k in range(rng.randint(1,8)):
        a=rng.randint(0,6); d=a+rng.randint(1,6)
        evs.append(EV(a,d,rng.choice([0.5,2,30]),'s0',f'x{k}',Battery(100,0,7)))
    log=[]
    class Mon(UncontrolledCharging):
        def schedule(self, active):
            sim=self.interface._simulator; n=sim.network
            placed=[n.get_ev(s).session_id for s in n.station_ids if n.get_ev(s) is not None]
            waiting=list(n.waiting_queue)
            free=[s for s in n.station_ids if n.get_ev(s) is None]
            log.append((sim.iteration, placed, waiting, free))
            return super().schedule(active)
    random.seed(seed)
    sim = acnsim.Simulator(net, Mon(), EventQueue([PluginEvent(e.arrival,e) for e in evs]), datetime(2020,1,1), period=5, verbose=False)
    try:
        sim.run()
    except Exception as e:
        print("seed",seed,"EXC",type(e).__name__,e); viol+=1; continue
    runs+=1
    for t,placed,waiting,free in log:
        if len(set(placed))!=len(placed) or (set(placed)&set(waiting)) or (waiting and free):
            print("seed",seed,"t",t,"placed",placed,"waiting",waiting,"free",free); viol+=1; break
    left=[s for s in net.station_ids if net.get_ev(s) is not None]
    if left or net.waiting_queue: print("seed",seed,"leftover",left,list(net.waiting_queue)); viol+=1
print("runs",runs,"violations",viol)
