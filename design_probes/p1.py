import warnings, numpy as np
warnings.simplefilter("ignore")
from acnportal.acnsim.models.battery import batt_cap_fn, Linear2StageBattery
import pandas, numpy
print("pandas", pandas.__version__, "numpy", numpy.__version__)
# C15: capacity fit small requests
V=208; per=5
bad=0; tot=0; ex=None
for dur in [2,6,12,24,64,144]:
    maxE = 32*V/1000*dur/(60/per)
    for frac in [0.01,0.05,0.1,0.2,0.3,0.5,0.8,1.0]:
        req = maxE*frac
        try:
            cap, init = batt_cap_fn(req, dur, V, per)
        except Exception as e:
            print("EXC", dur, frac, type(e).__name__, e); continue
        b = Linear2StageBattery(cap, init, 32*V/1000)
        rates=[b.charge(32,V,per) for _ in range(dur)]
        got = sum(rates)*V/1000*(per/60)
        tot+=1
        if abs(got-req) > 1e-6:
            bad+=1
            if ex is None or frac<0.3: ex=(dur,frac,req,cap,init,got); print("MISMATCH dur=%d frac=%.2f req=%.4f cap=%s init=%.4f delivered=%.4f"%ex)
print("fit mismatches", bad, "/", tot)
